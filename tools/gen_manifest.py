#!/usr/bin/env python3
"""Regenerates /verif/MANIFEST.json from the table below (single source of truth)."""
import json, os
ROOT = os.path.dirname(os.path.dirname(os.path.abspath(__file__)))
BASELINE = "cd /repo && cargo nextest run --workspace --no-fail-fast --tool-config-file pb:/w/lib/nextest.toml --profile pb --test-threads 8 --offline || cargo test --workspace --no-fail-fast --offline"

# id -> (level, technique, level text, level note, design ref)   — only properties with a working check
CLAIMED = json.load(open(os.path.join(ROOT, "tools", "claimed.json")))
TITLES = {json.loads(l)["id"]: json.loads(l)["title"] for l in open(os.path.join(ROOT, "properties.jsonl"))}

checks = []
for pid in sorted(CLAIMED):
    c = CLAIMED[pid]
    checks.append({
        "property_id": pid,
        "quick_cmd": f"./check {pid} --tier quick",
        "thorough_cmd": f"./check {pid} --tier thorough",
        "evidence_file": f"/verif/evidence/{pid}.json",
        "replay_cmd_template": f"./check {pid} --replay {{path}}",
        "engine": c["engine"],
        "level_claimed": {"category": c["level"], "text": c["text"], "design_ref": c["design_ref"]},
        "level_note": c["note"],
        "technique": c["technique"],
    })
na = [{"property_id": pid, "reason": "check not built yet in this session (work in progress, see DESIGN.md §7 build order)"}
      for pid in sorted(TITLES) if pid not in CLAIMED]
NA_REASONS = json.load(open(os.path.join(ROOT, "tools", "not_applicable.json"))) if os.path.exists(os.path.join(ROOT, "tools", "not_applicable.json")) else {}
for e in na:
    if e["property_id"] in NA_REASONS:
        e["reason"] = NA_REASONS[e["property_id"]]
m = {
    "version": 1,
    "setup_cmd": "./tools/setup.sh",
    "hooks": {
        "guard": "iceoryx2_verif",
        "enable": "RUSTFLAGS=\"--cfg iceoryx2_verif\" (set in /verif/harness/.cargo/config.toml and harness/fuzz/.cargo/config.toml; never set for the repository's own build)",
        "baseline_off_cmd": BASELINE,
        "source_commits": json.load(open(os.path.join(ROOT, "tools", "hook_commits.json"))),
        "add_only": True,
    },
    "engines": [
        {"name": "vcore", "path": "harness/vcore", "serves_properties": sorted(CLAIMED), "kind_free_text": "run context, worker processes, proptest driver, bounded-exhaustive enumerator, evidence, known findings, replay"},
        {"name": "vsched", "path": "harness/vcore/src/sched.rs", "serves_properties": [p for p in ["C03","C05","C09","C10","C12","C13"] if p in CLAIMED], "kind_free_text": "controlled scheduler over instrumented atomics: preemption-list schedules (exhaustive up to a bound + random), view-based weak-memory stale reads"},
    ],
    "checks": checks,
    "not_applicable": na,
    "notes": "Technique family: property-based testing and fuzzing (proptest, bounded-exhaustive enumeration, controlled schedules, crash-point enumeration, libFuzzer). Exit codes: 0 held, 1 violation, 2 inconclusive. See DESIGN.md.",
}
json.dump(m, open(os.path.join(ROOT, "MANIFEST.json"), "w"), indent=1)
print("claimed:", sorted(CLAIMED), "not claimed:", [e["property_id"] for e in na])
