#!/bin/bash
# Stage "miri" of C03: the race-free SPSC queues under Miri's seeded scheduler, weak-memory
# emulation and data-race detector.   usage: stage_miri.sh <prop> <tier> <fragment.json>
prop=$1; tier=$2; frag=$3
root="$(cd "$(dirname "$0")/.." && pwd)"
cd "$root/harness/miri" || exit 2
seeds=64; [ "$tier" = thorough ] && seeds=2000
base=$(( ${VERIF_SEED:-20260923} % 100000 ))
programs="iq:1:3:3 iq:2:4:3 gq:1:3:3 gq:2:4:4"
[ "$tier" = thorough ] && programs="$programs iq:3:5:5 gq:3:5:5 iq:1:2:4 gq:2:3:1"
total=0; viol=0; details=""
export CARGO_NET_OFFLINE=true
for p in $programs; do
  out=$(MIRIFLAGS="-Zmiri-disable-stacked-borrows -Zmiri-permissive-provenance -Zmiri-disable-isolation -Zmiri-many-seeds=${base}..$((base+seeds))" VERIF_MIRI_PROGRAM=$p cargo +nightly miri run 2>&1)
  rc=$?
  n=$(echo "$out" | grep -c "Trying seed")
  total=$((total+n))
  if echo "$out" | grep -q "VERIF-VIOLATION\|Data race\|Undefined Behavior"; then
    viol=$((viol+1))
    mkdir -p "$root/replays"
    f="$root/replays/${prop}-miri-$(echo $p | tr ':' '_').txt"
    { echo "program=$p seeds=${base}..$((base+seeds))"; echo "re-run: cd harness/miri && MIRIFLAGS='-Zmiri-disable-stacked-borrows -Zmiri-permissive-provenance -Zmiri-disable-isolation -Zmiri-many-seeds=${base}..$((base+seeds))' VERIF_MIRI_PROGRAM=$p cargo +nightly miri run"; echo "$out" | tail -60; } > "$f"
    echo "VIOLATION property=$prop replay=$f"
  elif [ $rc -ne 0 ] && [ $n -eq 0 ]; then
    echo "miri stage: could not run program $p (inconclusive)"; echo "$out" | tail -5
    echo "{\"evaluations\": $total, \"inconclusive\": \"miri could not run\"}" > "$frag"; exit 2
  fi
  details="$details\"$p\","
done
echo "{\"evaluations\": $total, \"seeds_per_program\": $seeds, \"programs\": [${details%,}], \"violations\": $viol, \"oracle\": \"Miri data-race detector + FIFO/conservation assertions; weak-memory emulation on\"}" > "$frag"
echo "$prop miri stage: executions=$total violations=$viol"
[ $viol -gt 0 ] && exit 1
exit 0
