#!/bin/bash
# Runs checks against a seeded change: applies the patch to /repo, runs `./check <id> --tier quick` for every
# id given, and undoes the patch straight afterwards (also on interruption).
#   tools/seeded_run.sh <dir with patch.diff | patch file> C05 [C03 ...]
# Result lines go to stdout and to <dir>/detected-by.txt (when a directory under /verif/seeded is given).
set -u
src=$(realpath "$1"); shift
patch=$src; [ -d "$src" ] && patch=$src/patch.diff
cd /verif
if ! git -C /repo diff --quiet; then echo "/repo has uncommitted changes, refusing"; exit 2; fi
undo() { git -C /repo checkout -q -- . ; }
trap undo EXIT INT TERM
git -C /repo apply "$patch" || { echo "patch does not apply"; exit 2; }
mkdir -p run/logs
for id in "$@"; do
  tier=quick
  log=run/logs/seeded-$(basename "$src")-$id.log
  t0=$(date +%s)
  VERIF_EVIDENCE_DIR=/verif/run/seeded-evidence ./check $id --tier $tier > $log 2>&1
  rc=$?
  t1=$(date +%s)
  sigs=$(grep -o "violation in part [^:]*: \[[^]]*\]" $log | sort | uniq -c | sed 's/  */ /g' | tr '\n' ';')
  line="$(basename "$src") check=$id tier=$tier rc=$rc wall=$((t1-t0))s $sigs"
  echo "$line"
  [ -d "$src" ] && echo "$line" >> "$src/detected-by.txt"
done
undo
trap - EXIT INT TERM
# restore the evidence of the unchanged tree is the caller's business: evidence files are rewritten by
# the next regular run (the driver honours VERIF_EVIDENCE_DIR so that seeded runs do not touch /verif/evidence)
