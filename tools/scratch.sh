#!/bin/bash
# Scratch copies for sensitivity testing, outside /repo and /verif.
#   tools/scratch.sh new <name>        git worktree of /repo HEAD at /tmp/vw/<name>/repo and a copy of
#                                      /verif (without build output) at /tmp/vw/<name>/verif whose harness
#                                      points at that worktree and has its own target directory
#   tools/scratch.sh sync <name>       re-copy /verif sources into the scratch copy (keeps its target dir)
#   tools/scratch.sh check <name> C16 [--tier quick ...]   run a check of the scratch copy
#   tools/scratch.sh rm <name>         remove worktree, copy and build output
set -e
cmd=$1; name=$2; shift 2 || true
base=/tmp/vw/$name
copy_verif() {
  mkdir -p $base/verif
  rsync -a --delete --exclude 'harness/target*' --exclude '.git' --exclude run --exclude replays --exclude evidence /verif/ $base/verif/ \
     --exclude 'harness/Cargo.lock'
  [ -f $base/verif/harness/Cargo.lock ] || cp /verif/harness/Cargo.lock $base/verif/harness/Cargo.lock
  find $base/verif/harness -name Cargo.toml -o -name config.toml | xargs sed -i "s#\"/repo/#\"$base/repo/#g; s#/verif/harness/target#$base/verif/harness/target#g"
  if [ -d $base/verif/harness/fuzz ]; then find $base/verif/harness/fuzz -name Cargo.toml | xargs -r sed -i "s#\"/repo/#\"$base/repo/#g"; fi
  mkdir -p $base/verif/evidence $base/verif/replays
}
case $cmd in
  new)
    mkdir -p /tmp/vw
    git -C /repo worktree add --detach $base/repo HEAD >/dev/null
    copy_verif
    echo "$base/repo  (edit here)   $base/verif (checks run from here)";;
  sync) copy_verif;;
  check) cd $base/verif && VERIF_ROOT=$base/verif ./check "$@";;
  rm)
    git -C /repo worktree remove --force $base/repo 2>/dev/null || true
    rm -rf $base
    git -C /repo worktree prune;;
  *) echo "usage: scratch.sh new|sync|check|rm <name> ..."; exit 2;;
esac
