#!/bin/bash
# Stage "fuzz": libFuzzer + ASan campaign on a target of harness/fuzz with a fixed number of runs.
#   usage: stage_fuzz.sh <prop> <tier> <fragment.json> <target> <quick_runs> <thorough_runs>
prop=$1; tier=$2; frag=$3; target=$4; qruns=$5; truns=$6
root="$(cd "$(dirname "$0")/.." && pwd)"
cd "$root/harness/fuzz" || exit 2
runs=$qruns; [ "$tier" = thorough ] && runs=$truns
seed=$(( ${VERIF_SEED:-20260923} % 2000000000 + 1 ))
work="$root/run/fuzz-$prop-$target-$$"
mkdir -p "$work/corpus" "$work/artifacts"
# seed corpus: committed inputs (if any) are copied so the campaign starts from a fresh directory
[ -d "$root/corpus/$target" ] && cp "$root/corpus/$target"/* "$work/corpus/" 2>/dev/null
export CARGO_NET_OFFLINE=true RUSTFLAGS="--cfg iceoryx2_verif" VERIF_FUZZ_STATS="$work/stats.json" RUST_BACKTRACE=0
if ! cargo +nightly fuzz build "$target" > "$work/build.log" 2>&1; then
  tail -20 "$work/build.log"; echo "fuzz stage: build of $target failed (inconclusive)"
  echo '{"inconclusive": "fuzz target build failed"}' > "$frag"; rm -rf "$work"; exit 2
fi
out=$(cargo +nightly fuzz run "$target" "$work/corpus" -- -runs=$runs -seed=$seed -max_len=400 -len_control=0 -artifact_prefix="$work/artifacts/" 2>&1)
rc=$?
execs=$(python3 -c "import json;print(json.load(open('$work/stats.json'))['executions'])" 2>/dev/null || echo 0)
nt=$(python3 -c "import json;print(json.load(open('$work/stats.json'))['nontrivial'])" 2>/dev/null || echo 0)
done_runs=$(echo "$out" | sed -n 's/^Done \([0-9]*\) runs.*/\1/p' | tail -1)
cov=$(echo "$out" | grep -o "cov: [0-9]*" | tail -1 | cut -d' ' -f2)
if [ $rc -ne 0 ]; then
  art=$(ls "$work/artifacts" 2>/dev/null | head -1)
  if [ -n "$art" ]; then
    mkdir -p "$root/replays"
    f="$root/replays/${prop}-fuzz-$target-$art"
    cp "$work/artifacts/$art" "$f"
    { echo "$out" | grep "VERIF-VIOLATION\|ERROR: AddressSanitizer\|SUMMARY" | head -5; echo "re-run: cd harness/fuzz && RUSTFLAGS='--cfg iceoryx2_verif' cargo +nightly fuzz run $target $f"; } > "$f.txt"
    echo "$out" | grep "VERIF-VIOLATION\|ERROR: AddressSanitizer" | head -3
    echo "VIOLATION property=$prop replay=$f"
    echo "{\"evaluations\": ${execs:-0}, \"violations\": 1, \"artifact\": \"$f\"}" > "$frag"; rm -rf "$work"; exit 1
  fi
  echo "$out" | tail -5; echo "fuzz stage: libFuzzer ended with $rc without an artifact (inconclusive)"
  echo '{"inconclusive": "libFuzzer failed without artifact"}' > "$frag"; rm -rf "$work"; exit 2
fi
echo "{\"evaluations\": ${done_runs:-$execs}, \"nontrivial_executions\": ${nt:-0}, \"coverage_edges\": ${cov:-0}, \"target\": \"$target\", \"seed\": $seed, \"sanitizer\": \"address\", \"oracle\": \"reference-model interpreter inside the target (same as the proptest parts) + ASan\", \"violations\": 0}" > "$frag"
echo "$prop fuzz stage ($target): runs=${done_runs:-?} nontrivial=${nt:-?} cov=${cov:-?}"
rm -rf "$work"
exit 0
