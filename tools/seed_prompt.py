#!/usr/bin/env python3
"""Prints the prompt given to an independent sub-agent that is asked to seed a property-breaking
change (tools/seed_prompt.py C07). The agent sees the property text only, nothing from /verif."""
import json, os, sys
ROOT = os.path.dirname(os.path.dirname(os.path.abspath(__file__)))
pid = sys.argv[1]
tag = sys.argv[2] if len(sys.argv) > 2 else pid
avoid = sys.argv[3] if len(sys.argv) > 3 else ""
p = next(json.loads(l) for l in open(os.path.join(ROOT, "properties.jsonl")) if json.loads(l)["id"] == pid)
a = p["anchors"]
base = f"/tmp/seed/{tag}"
print(f"""You are working on a scratch git worktree of the eclipse-iceoryx/iceoryx2 repository (Rust; zero-copy
inter-process pub/sub and event middleware over POSIX shared memory) at {base}/repo.
The sandbox has NO network: always pass `--offline` to cargo (and set CARGO_NET_OFFLINE=true). Always set
CARGO_TARGET_DIR={base}/target and pass `-j 4` to cargo (the machine is shared). Work ONLY inside {base}/ .
Never read or touch /repo or /verif (they are off limits for this task). Never use `git stash` (the stash is shared with other worktrees of this repository); to switch between "with change" and "without change" use `git diff > file`, `git apply -R file`, `git apply file`. The machine is loaded: tests with 10 s watchdogs may abort on the unchanged tree too; re-run such tests alone (`-- --test-threads 1 <filter>`) before drawing conclusions.

## The property

A user of iceoryx2 relies on the following semantic property.

Title: {p['title']}

Statement: {p['statement']}

It is meant to hold for: {p['quantifier']['text']}

Why the existing tests cannot settle it: {p['why_tests_cant']}

Where it is implemented (anchors): files {', '.join(a['files'])}.
Mechanisms: {'; '.join(m['name'] + ' (' + m['where'] + ')' for m in a.get('mechanism', []))}.
Observable at: {'; '.join(a.get('observe_at', []))}.

## Your task

Produce TWO independent, different changes (call them m1 and m2; different code sites or different mechanisms) to the
library source code of iceoryx2 (not to its tests) such that each one, applied alone:

1. still compiles (whole workspace: `cargo build --offline -j 4 --workspace` need not be run in full, but every crate
   that depends on what you touched must compile: `cargo test --offline -j 4 --no-run -p <crates>`),
2. still passes the EXISTING tests, unedited — run at least the test suites of every crate you touched and of the crates
   whose tests exercise that code (e.g. `cargo test --offline -j 4 -p iceoryx2-bb-lock-free -p iceoryx2-cal -p iceoryx2`);
   if an existing test fails with your change, the change is not acceptable: pick another one,
3. BREAKS the property above — really breaks it for a user, not just cosmetically,
4. needs something specific to manifest: a particular thread interleaving, a crash or fault at a particular point, a
   multi-step sequence of operations, an unusual input or configuration, or two cooperating sites that each look fine alone.
   NOT something that ordinary use would expose at once (then the existing tests would fail).
5. is realistic: small (typically 1-20 lines), the kind of slip a maintainer could make in a refactoring, an optimisation,
   a "simplification", a weakened memory ordering, a re-ordered pair of statements, an off-by-one, a dropped re-validation,
   a forgotten cleanup step. No `if input == magic` back doors, no changes guarded by cfg flags, no edits to tests or docs.
{avoid}
For each change also write a DEMONSTRATION: a test or small program (for example a new file in the `tests/` directory of
the right crate, or a new `#[test]` in a new test file; for interleavings you may use explicit thread hand-shakes,
barriers, or many iterations; for crashes you may fork()/kill or `core::mem::forget`) that FAILS with the change applied and
PASSES on the unchanged tree. Run it both ways and record the output. The demonstration must be deterministic enough to
fail with the change in at least 9 of 10 runs and must never fail without it.

## Deliverables (write them to {base}/out/m1/ and {base}/out/m2/)

* `patch.diff` — `git diff` of the library change only (must apply with `git apply` to a clean checkout of the
  worktree's HEAD; must NOT contain the demonstration),
* `demo/` — the demonstration file(s) with, in `demo/README.md`, where each file has to be copied inside the repository
  and the exact command that runs it,
* `meta.json` — {{"property": "{pid}", "summary": "<what the change does, one or two sentences>",
  "needs": "<what it needs in order to manifest>", "files_changed": [...], "demo_cmd": "<command>",
  "existing_tests_run": ["<command> -> <result summary>", ...],
  "demo_result_with_change": "<fails how>", "demo_result_without_change": "passes"}}

When you are done, revert the worktree to a clean state (`git -C {base}/repo checkout -- . && git -C {base}/repo clean -fd`)
and delete {base}/target (it is large). Your final message should summarise both changes in a few lines
(what, where, what it needs to manifest, which existing test commands you ran, demo outcome both ways).
If after a serious effort you can only produce one acceptable change, deliver one and say so.
""")
