#!/bin/bash
# Builds the whole harness once, offline, from files on disk.
set -e
cd "$(dirname "$0")/../harness"
export CARGO_NET_OFFLINE=true
cargo build --offline --workspace 2>&1 | tail -3
