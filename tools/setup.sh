#!/bin/bash
# Builds the whole harness once, offline, from files on disk: the check binaries (hooks on), the
# libFuzzer/ASan targets (nightly) and the Miri sysroot + crate. Runs no check.
set -e
root="$(cd "$(dirname "$0")/.." && pwd)"
export CARGO_NET_OFFLINE=true
cd "$root/harness"
cargo build --offline --workspace 2>&1 | tail -3
( cd fuzz && RUSTFLAGS="--cfg iceoryx2_verif" cargo +nightly fuzz build 2>&1 | tail -2 ) || echo "note: fuzz targets could not be pre-built (the stage builds them on demand)"
( cd miri && MIRIFLAGS="-Zmiri-disable-stacked-borrows -Zmiri-permissive-provenance -Zmiri-disable-isolation" VERIF_MIRI_PROGRAM=iq:1:1:1 cargo +nightly miri run 2>&1 | tail -2 ) || echo "note: miri warm-up failed (the stage reports that as inconclusive)"
