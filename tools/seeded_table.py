#!/usr/bin/env python3
"""Prints the markdown table of DESIGN.md §9 from /verif/seeded/*/{meta.json,detected-by.txt}."""
import json, os, glob, re
ROOT = os.path.dirname(os.path.dirname(os.path.abspath(__file__)))
print("| change | breaks | what it does | needs | demonstration / existing tests (my confirmation) | reported by |")
print("|---|---|---|---|---|---|")
for d in sorted(glob.glob(os.path.join(ROOT, "seeded", "*"))):
    name = os.path.basename(d)
    try:
        m = json.load(open(os.path.join(d, "meta.json")))
    except Exception:
        continue
    det = ""
    p = os.path.join(d, "detected-by.txt")
    if os.path.exists(p):
        det = "<br>".join(l.strip() for l in open(p) if l.strip())
    c = m.get("confirmation", {})
    conf = f"demo without: {c.get('demo_without_change','?')}, with: {c.get('demo_with_change','?')}"
    if "existing_suite_verdict" in c:
        s = c.get("existing_suite_with_change", {})
        conf += f"; existing tests ({', '.join(s.get('scope', [])) if isinstance(s.get('scope'), list) else s.get('scope')}): {c['existing_suite_verdict']}"
    else:
        conf += "; existing tests: run by the author of the change (commands and results in meta.json); my own scoped run did not fit into the time budget"
    cut = lambda t, n: (t[:n] + "…") if len(t) > n else t
    esc = lambda t: str(t).replace("|", "\\|").replace("\n", " ")
    summary, needs = cut(m.get("summary", ""), 260), cut(m.get("needs", ""), 200)
    print(f"| {name} | {m.get('property','?')} | {esc(summary)} | {esc(needs)} | {esc(conf)} | {esc(det)} |")
