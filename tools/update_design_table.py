#!/usr/bin/env python3
"""Rewrites the table of DESIGN.md §9.2 from /verif/seeded (tools/seeded_table.py)."""
import os, subprocess
ROOT = os.path.dirname(os.path.dirname(os.path.abspath(__file__)))
p = os.path.join(ROOT, "DESIGN.md")
s = open(p).read()
marker = "### 9.2 Table\n"
head = s[: s.index(marker) + len(marker)]
table = subprocess.check_output(["python3", os.path.join(ROOT, "tools", "seeded_table.py")], text=True)
intro = ("\nOne row per kept change (`seeded/<name>/`). \"reported by\" lists the quick-tier runs of the named checks with the change applied to /repo\n"
         "(`rc=1` = reported with the signatures in brackets, `rc=0` = not reported by that check).\n\n")
open(p, "w").write(head + intro + table)
print("table rows:", table.count("\n") - 2)
