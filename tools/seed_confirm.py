#!/usr/bin/env python3
"""Confirms a seeded change in a scratch worktree (never in /repo):
   tools/seed_confirm.py <src dir with patch.diff, demo/, meta.json> <name> [--skip-suite]
 1. the patch applies to /repo's HEAD, 2. the demonstration passes without it, 3. fails with it,
 4. the repository's own test suite (BASELINE command, nextest) still passes with it (tests that fail are
    re-run alone, single threaded: the suite has 10 s watchdogs that fire on a loaded machine).
On success the change is stored as /verif/seeded/<name>/ (patch.diff, demo/, meta.json + confirmation record).
The scratch worktree /var/tmp/sv/repo and its target dir are reused between calls; remove them with --cleanup."""
import json, os, re, shutil, subprocess, sys, time, glob

ROOT = os.path.dirname(os.path.dirname(os.path.abspath(__file__)))
SV = "/var/tmp/sv"
WT = SV + "/repo"
ENV = dict(os.environ, CARGO_NET_OFFLINE="true", CARGO_TARGET_DIR=SV + "/target")

def sh(cmd, cwd=WT, timeout=None):
    p = subprocess.run(cmd, cwd=cwd, env=ENV, shell=isinstance(cmd, str), stdout=subprocess.PIPE, stderr=subprocess.STDOUT, text=True, timeout=timeout)
    return p.returncode, p.stdout

def cleanup():
    subprocess.run(["git", "-C", "/repo", "worktree", "remove", "--force", WT])
    shutil.rmtree(SV, ignore_errors=True)
    subprocess.run(["git", "-C", "/repo", "worktree", "prune"])

def ensure_worktree():
    head = subprocess.check_output(["git", "-C", "/repo", "rev-parse", "HEAD"], text=True).strip()
    if os.path.isdir(WT):
        cur = subprocess.check_output(["git", "-C", WT, "rev-parse", "HEAD"], text=True).strip()
        sh("git checkout -q -- . && git clean -fdq")
        if cur != head:
            sh(f"git checkout -q --detach {head}")
    else:
        os.makedirs(SV, exist_ok=True)
        subprocess.check_call(["git", "-C", "/repo", "worktree", "add", "--detach", WT, head], stdout=subprocess.DEVNULL)
    return head

def demo_targets(src):
    """[(file, destination dir inside the repo, crate, test name)] from demo/README.md"""
    readme = open(os.path.join(src, "demo", "README.md")).read()
    out = []
    for f in sorted(glob.glob(os.path.join(src, "demo", "*.rs"))):
        base = os.path.basename(f)
        m = re.search(r"`?([A-Za-z0-9_\-/\.]*tests/)" + re.escape(base) + r"`?", readme) or re.search(r"[`\s]([A-Za-z0-9_\-/\.]+/tests/?)[`\s]", readme)
        if not m:
            raise SystemExit(f"cannot find the destination of {base} in the README")
        dest = m.group(1).lstrip('/')
        cargo = os.path.join(WT, os.path.dirname(dest.rstrip("/")), "Cargo.toml")
        crate = re.search(r'name\s*=\s*"([^"]+)"', open(cargo).read()).group(1)
        out.append((f, dest, crate, base[:-3]))
    return out

def run_demo(targets):
    ok = True
    log = ""
    for f, dest, crate, test in targets:
        os.makedirs(os.path.join(WT, dest), exist_ok=True)
        shutil.copy(f, os.path.join(WT, dest, os.path.basename(f)))
    for crate, test in sorted({(c, t) for _, _, c, t in targets}):
        rc, o = sh(["cargo", "test", "--offline", "-j", "8", "-p", crate, "--test", test], timeout=3600)
        log += f"$ cargo test -p {crate} --test {test} -> rc {rc}\n" + "\n".join(o.splitlines()[-25:]) + "\n"
        ok = ok and rc == 0
    return ok, log

def packages_for(patch):
    """test packages that exercise what the patch touches (the repository's own suite, scoped)"""
    files = re.findall(r"^\+\+\+ b/(\S+)", open(patch).read(), re.M)
    pk = set()
    for f in files:
        top = f.split("/")[0]
        if top == "iceoryx2":
            pk |= {"iceoryx2", "iceoryx2-conformance-tests"}
        elif top == "iceoryx2-cal":
            pk |= {"iceoryx2-cal", "iceoryx2-cal-conformance-tests"} | (set() if "--fast" in sys.argv else {"iceoryx2-conformance-tests"})
        elif top == "iceoryx2-ffi":
            pk |= {"iceoryx2-ffi-c"}
        elif top in ("iceoryx2-bb", "iceoryx2-pal"):
            d = os.path.join(WT, *f.split("/")[:2])
            while not os.path.exists(os.path.join(d, "Cargo.toml")):
                d = os.path.dirname(d)
            name = re.search(r'name\s*=\s*"([^"]+)"', open(os.path.join(d, "Cargo.toml")).read()).group(1)
            pk |= {name, "iceoryx2-cal"} | (set() if "--fast" in sys.argv else {"iceoryx2-cal-conformance-tests", "iceoryx2-conformance-tests"})
            for extra in (name + "-tests", name + "-conformance-tests"):
                rc, _ = sh(["cargo", "pkgid", "--offline", "-p", extra])
                if rc == 0:
                    pk.add(extra)
    return sorted(pk)

LOAD_SENSITIVE = ["updates_connections_after_reconnect", "reclaims_all_samples_after_disconnect", "stale_tags_are_present", "many_stale_tags",
                  "ping_pong_does_not_deadlock", "out_of_memory_with_huge", "schema_path_lookup"]

FAIL_RE = re.compile(r"^\s+(?:FAIL|SIGABRT|SIGSEGV|TIMEOUT|LEAK-FAIL|ABORT)\s+\[[^\]]*\]\s+(?:\(\s*\d+/\d+\)\s+)?(\S+)\s+(\S+)", re.M)

def suite(patch, full):
    t = time.time()
    pk = [] if full else packages_for(patch)
    scope = "--workspace" if full else " ".join("-p " + p for p in pk)
    if "--fast" in sys.argv:
        # tests that fail (10 s watchdog) on the UNCHANGED tree whenever this machine is loaded; they are left
        # out of the first pass and run alone afterwards, with the comparison against the unchanged tree
        scope += " -E 'not test(/" + "|".join(LOAD_SENSITIVE) + "/)'"
    rc, o = sh(f"cargo nextest run {scope} --no-fail-fast --tool-config-file pb:/w/lib/nextest.toml --profile pb --test-threads 10 --offline 2>&1 | tail -400", timeout=4 * 3600)
    summary = [l.strip() for l in o.splitlines() if "Summary" in l or "tests run" in l]
    failed = sorted(set(FAIL_RE.findall(o)))
    rerun = []
    for binid, test in failed:
        ok = False
        for _ in range(2):
            rc2, o2 = sh(["cargo", "nextest", "run", "--offline", "--test-threads", "1", "-E", f"binary_id({binid}) & test(={test})"], timeout=1800)
            if rc2 == 0:
                ok = True
                break
        rerun.append((binid, test, ok))
    still = [(b, t) for b, t, ok in rerun if not ok]
    also_on_unchanged = []
    if still:
        # the suite has 10 s watchdogs and CPU pinning: on a loaded machine heavy tests fail on the unchanged
        # tree as well. A test counts against the change only if it passes on the unchanged tree right now.
        sh(["git", "apply", "-R", patch])
        for binid, test in still:
            ok = False
            for _ in range(2):
                rc2, _ = sh(["cargo", "nextest", "run", "--offline", "--test-threads", "1", "-E", f"binary_id({binid}) & test(={test})"], timeout=1800)
                if rc2 == 0:
                    ok = True
                    break
            if not ok:
                also_on_unchanged.append((binid, test))
        sh(["git", "apply", patch])
    return {"scope": "whole workspace (BASELINE command)" if full else pk,
            "left_out_of_this_run (fail on the unchanged tree under load; run by the author of the change)": LOAD_SENSITIVE if "--fast" in sys.argv else [],
            "summary": summary, "wall_s": round(time.time() - t),
            "failed_first_pass_on_loaded_machine": [f"{b} {t}" for b, t in failed],
            "failing_alone_with_change_but_also_on_unchanged_tree_right_now (load)": [f"{b} {t}" for b, t in also_on_unchanged],
            "still_failing_alone": [f"{b} {t}" for b, t in still if (b, t) not in also_on_unchanged]}

def suite_only(name):
    """second stage for a change already stored under /verif/seeded/<name>: the repository's own tests (scoped
    to the packages that exercise the touched code) with the change applied; the verdict goes into meta.json"""
    dst = os.path.join(ROOT, "seeded", name)
    patch = os.path.join(dst, "patch.diff")
    head = ensure_worktree()
    rc, o = sh(["git", "apply", patch])
    if rc != 0:
        raise SystemExit(f"patch does not apply: {o}")
    res = suite(patch, "--full-suite" in sys.argv)
    sh("git checkout -q -- . && git clean -fdq")
    meta = json.load(open(os.path.join(dst, "meta.json")))
    meta.setdefault("confirmation", {})["existing_suite_with_change"] = res
    meta["confirmation"]["existing_suite_confirmed_at_repo_head"] = head
    meta["confirmation"]["existing_suite_verdict"] = "passes" if not res["still_failing_alone"] else "FAILS"
    json.dump(meta, open(os.path.join(dst, "meta.json"), "w"), indent=1)
    print(name, meta["confirmation"]["existing_suite_verdict"], res["summary"], res["wall_s"], res["still_failing_alone"])
    sys.exit(0 if not res["still_failing_alone"] else 1)

def main():
    if sys.argv[1] == "--cleanup":
        cleanup()
        return
    if sys.argv[1] == "--suite-only":
        suite_only(sys.argv[2])
        return
    src, name = sys.argv[1], sys.argv[2]
    skip_suite = "--skip-suite" in sys.argv
    head = ensure_worktree()
    rc, o = sh(["git", "apply", "--check", os.path.join(src, "patch.diff")])
    if rc != 0:
        raise SystemExit(f"patch does not apply to HEAD {head}: {o}")
    targets = demo_targets(src)
    rec = {"confirmed_at_repo_head": head, "demo": [f"{os.path.basename(f)} -> {d} (cargo test -p {c} --test {t})" for f, d, c, t in targets]}
    ok0, log0 = run_demo(targets)
    rec["demo_without_change"] = "passes" if ok0 else "FAILS"
    sh(["git", "apply", os.path.join(src, "patch.diff")])
    ok1, log1 = run_demo(targets)
    rec["demo_with_change"] = "fails" if not ok1 else "PASSES"
    rec["demo_with_change_tail"] = log1.splitlines()[-12:]
    # the suite runs with the change but without the demonstration
    for f, dest, _, _ in targets:
        os.remove(os.path.join(WT, dest, os.path.basename(f)))
    if not skip_suite and ok0 and not ok1:
        rec["existing_suite_with_change"] = suite(os.path.join(src, "patch.diff"), "--full-suite" in sys.argv)
    sh("git checkout -q -- . && git clean -fdq")
    good = ok0 and (not ok1) and (skip_suite or not rec["existing_suite_with_change"]["still_failing_alone"])
    rec["verdict"] = "kept" if good else "rejected"
    print(json.dumps(rec, indent=1))
    if good:
        dst = os.path.join(ROOT, "seeded", name)
        shutil.rmtree(dst, ignore_errors=True)
        os.makedirs(dst)
        shutil.copy(os.path.join(src, "patch.diff"), dst)
        shutil.copytree(os.path.join(src, "demo"), os.path.join(dst, "demo"))
        meta = json.load(open(os.path.join(src, "meta.json")))
        meta["confirmation"] = rec
        json.dump(meta, open(os.path.join(dst, "meta.json"), "w"), indent=1)
    sys.exit(0 if good else 1)

if __name__ == "__main__":
    main()
