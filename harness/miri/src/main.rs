//! Miri executor for the two race-free SPSC queues (C03, DESIGN §3.6): Miri's seeded scheduler
//! and weak-memory emulation generate the schedules, its data-race detector plus the FIFO /
//! conservation assertions below are the oracle. Program shape comes from VERIF_MIRI_PROGRAM
//! ("<kind>:<capacity>:<pushes>:<pops>"), the schedule from -Zmiri-many-seeds.
extern crate iceoryx2_bb_loggers;

use iceoryx2_bb_lock_free::spsc::index_queue::FixedSizeIndexQueue;
use iceoryx2_bb_lock_free::spsc::queue::Queue;

fn check(pushed: &[u64], popped: &[u64], remaining: &[u64], cap: usize) {
    let seq: Vec<u64> = popped.iter().chain(remaining.iter()).cloned().collect();
    assert_eq!(seq, pushed, "VERIF-VIOLATION conservation/fifo: pushed {pushed:?} popped {popped:?} remaining {remaining:?}");
    assert!(remaining.len() <= cap, "VERIF-VIOLATION capacity");
}

fn run_index_queue<const N: usize>(k: u64, m: usize) {
    let q = FixedSizeIndexQueue::<N>::new();
    let mut pushed = vec![];
    let mut popped = vec![];
    std::thread::scope(|s| {
        s.spawn(|| {
            let mut p = q.acquire_producer().unwrap();
            for v in 1..=k {
                if p.push(v) {
                    pushed.push(v);
                }
            }
        });
        s.spawn(|| {
            let mut c = q.acquire_consumer().unwrap();
            for _ in 0..m {
                if let Some(v) = c.pop() {
                    popped.push(v);
                }
            }
        });
    });
    let mut remaining = vec![];
    let mut c = q.acquire_consumer().unwrap();
    while let Some(v) = c.pop() {
        remaining.push(v);
    }
    check(&pushed, &popped, &remaining, N);
}

fn run_generic_queue<const N: usize>(k: u64, m: usize) {
    let q = Queue::<[u64; 3], N>::new();
    let mut pushed = vec![];
    let mut popped = vec![];
    std::thread::scope(|s| {
        s.spawn(|| {
            let mut p = q.acquire_producer().unwrap();
            for v in 1..=k {
                if p.push(&[v, v * 3, !v]) {
                    pushed.push(v);
                }
            }
        });
        s.spawn(|| {
            let mut c = q.acquire_consumer().unwrap();
            for _ in 0..m {
                if let Some(v) = c.pop() {
                    assert!(v[1] == v[0] * 3 && v[2] == !v[0], "VERIF-VIOLATION torn element {v:?}");
                    popped.push(v[0]);
                }
            }
        });
    });
    let mut remaining = vec![];
    let mut c = q.acquire_consumer().unwrap();
    while let Some(v) = c.pop() {
        assert!(v[1] == v[0] * 3 && v[2] == !v[0], "VERIF-VIOLATION torn element {v:?}");
        remaining.push(v[0]);
    }
    check(&pushed, &popped, &remaining, N);
}

fn main() {
    let prog = std::env::var("VERIF_MIRI_PROGRAM").unwrap_or_else(|_| "iq:2:3:3".into());
    let f: Vec<&str> = prog.split(':').collect();
    let (kind, cap, k, m) = (f[0], f[1].parse::<usize>().unwrap(), f[2].parse::<u64>().unwrap(), f[3].parse::<usize>().unwrap());
    match (kind, cap) {
        ("iq", 1) => run_index_queue::<1>(k, m),
        ("iq", 2) => run_index_queue::<2>(k, m),
        ("iq", _) => run_index_queue::<3>(k, m),
        (_, 1) => run_generic_queue::<1>(k, m),
        (_, 2) => run_generic_queue::<2>(k, m),
        _ => run_generic_queue::<3>(k, m),
    }
}
