//! The two ways to reach the two-cell sequence lock: `UnrestrictedAtomic<T>` directly and the
//! blackboard ports. Both offer the same writer operations (copy, loan + copy, loan + piecewise
//! write + publish, loan + discard) and the reader's `get`.
use crate::payload::Payload;
use checks_ice::domain::Domain;
use iceoryx2::port::reader::{EntryHandle, Reader};
use iceoryx2::port::writer::{EntryHandleMut, Writer};
use iceoryx2::prelude::*;
use iceoryx2::service::port_factory::blackboard::PortFactory as BbFactory;
use iceoryx2_bb_lock_free::spmc::unrestricted_atomic::{Producer, UnrestrictedAtomic};
use vcore::Failure;

/// `mid` is called between the two halves of a piecewise write (a yield point under the
/// scheduler, nothing in the stress part).
pub trait WriterSide<T: Payload>: Send {
    fn copy(&mut self, v: &T);
    fn loan_copy(&mut self, v: &T);
    fn loan_split(&mut self, v: &T, mid: &dyn Fn());
    /// loans the spare cell, scribbles `garbage` into it and gives the loan back unpublished
    fn loan_discard(&mut self, garbage: &T, mid: &dyn Fn());
}

pub trait ReaderSide<T: Payload>: Sync {
    fn get(&self) -> T;
    /// `get`, then `f(value)`, then `is_up_to_date` on the value just read (ports only)
    fn get_then_up_to_date(&self, f: &mut dyn FnMut(&T)) -> Option<bool>;
}

#[inline(always)]
unsafe fn write_halves<T: Payload>(dst: *mut T, v: &T, mid: &dyn Fn()) {
    let n = core::mem::size_of::<T>();
    let h = (T::N / 2).max(1).min(n);
    let s = v as *const T as *const u8;
    let d = dst as *mut u8;
    unsafe {
        core::ptr::copy_nonoverlapping(s, d, h);
        mid();
        core::ptr::copy_nonoverlapping(s.add(h), d.add(h), n - h);
    }
}

// ---- UnrestrictedAtomic -------------------------------------------------------------------

pub struct UaWriter<'a, T: Payload>(pub Producer<'a, T>);

impl<T: Payload> WriterSide<T> for UaWriter<'_, T> {
    #[inline]
    fn copy(&mut self, v: &T) {
        self.0.store(*v);
    }
    #[inline]
    fn loan_copy(&mut self, v: &T) {
        unsafe {
            self.0.__internal_get_ptr_to_write_cell().write(*v);
            self.0.__internal_update_write_cell();
        }
    }
    #[inline]
    fn loan_split(&mut self, v: &T, mid: &dyn Fn()) {
        unsafe {
            let p = self.0.__internal_get_ptr_to_write_cell();
            write_halves(p, v, mid);
            self.0.__internal_update_write_cell();
        }
    }
    #[inline]
    fn loan_discard(&mut self, garbage: &T, mid: &dyn Fn()) {
        unsafe {
            let p = self.0.__internal_get_ptr_to_write_cell();
            write_halves(p, garbage, mid);
        }
    }
}

pub struct UaReader<'a, T: Payload>(pub &'a UnrestrictedAtomic<T>);

impl<T: Payload> ReaderSide<T> for UaReader<'_, T> {
    #[inline]
    fn get(&self) -> T {
        self.0.load()
    }
    fn get_then_up_to_date(&self, f: &mut dyn FnMut(&T)) -> Option<bool> {
        f(&self.0.load());
        None
    }
}

/// Heap cell with the alignment of the type (a 4 KiB, 64-byte aligned value on the stack of a
/// scoped thread is fine too, but the heap keeps the stacks small).
pub fn boxed_atomic<T: Payload>(initial: T) -> Box<UnrestrictedAtomic<T>> {
    Box::new(UnrestrictedAtomic::new(initial))
}

/// address of a misaligned write cell handed out by the blackboard (0 = none seen)
pub static MISALIGNED: std::sync::atomic::AtomicU64 = std::sync::atomic::AtomicU64::new(0);

#[inline(always)]
fn note_alignment<T>(p: *mut T) {
    if (p as usize) % core::mem::align_of::<T>() != 0 {
        MISALIGNED.store(p as u64, std::sync::atomic::Ordering::SeqCst);
    }
}

// ---- blackboard ports ---------------------------------------------------------------------

pub struct PortWriter<S: Service, T: Payload>(pub Option<EntryHandleMut<S, u64, T>>);

impl<S: Service, T: Payload> WriterSide<T> for PortWriter<S, T> {
    #[inline]
    fn copy(&mut self, v: &T) {
        self.0.as_ref().unwrap().update_with_copy(*v);
    }
    #[inline]
    fn loan_copy(&mut self, v: &T) {
        let u = self.0.take().unwrap().loan_uninit();
        self.0 = Some(u.update_with_copy(*v));
    }
    #[inline]
    fn loan_split(&mut self, v: &T, mid: &dyn Fn()) {
        let mut u = self.0.take().unwrap().loan_uninit();
        note_alignment(u.value_mut().as_mut_ptr());
        unsafe {
            write_halves(u.value_mut().as_mut_ptr(), v, mid);
            self.0 = Some(u.assume_init_and_update());
        }
    }
    #[inline]
    fn loan_discard(&mut self, garbage: &T, mid: &dyn Fn()) {
        let mut u = self.0.take().unwrap().loan_uninit();
        note_alignment(u.value_mut().as_mut_ptr());
        unsafe { write_halves(u.value_mut().as_mut_ptr(), garbage, mid) };
        self.0 = Some(u.discard());
    }
}

pub struct PortReader<S: Service, T: Payload>(pub EntryHandle<S, u64, T>);

impl<S: Service, T: Payload> ReaderSide<T> for PortReader<S, T> {
    #[inline]
    fn get(&self) -> T {
        *self.0.get()
    }
    fn get_then_up_to_date(&self, f: &mut dyn FnMut(&T)) -> Option<bool> {
        let v = self.0.get();
        f(&v);
        Some(self.0.is_up_to_date(&v))
    }
}

/// One blackboard service with key 0 of type `T`, one writer with its write handle and `nreaders`
/// readers with their read handles, everything created by the calling thread.
pub struct Board<S: Service, T: Payload> {
    pub wside: PortWriter<S, T>,
    pub rsides: Vec<PortReader<S, T>>,
    _readers: Vec<Reader<S, u64>>,
    _writer: Writer<S, u64>,
    _svc: BbFactory<S, u64>,
    _node: Node<S>,
    domain: Domain,
}

pub const KEY: u64 = 0;

/// Open known finding: the payload segment of a blackboard is carved by
/// `iceoryx2_cal::shm_allocator::bump_allocator::BumpAllocator`, whose `max_alignment()` is the
/// constant 8; `add::<T>()` with `align_of::<T>() > 8` (u128, SIMD types, cache-line aligned
/// structs) makes `create()` fail with `BlackboardCreateError::ServiceInCorruptedState`.
pub const OVERALIGNED: &str = "blackboard.value_alignment_above_8_refused";

impl<S: Service, T: Payload> Board<S, T> {
    pub fn new(nreaders: usize, initial: T) -> Result<Self, Failure> {
        let domain = Domain::new();
        let fail = |d: &Domain, what: String| {
            d.cleanup();
            Failure::new("setup", what)
        };
        let node = NodeBuilder::new().config(&domain.config).create::<S>().map_err(|e| fail(&domain, format!("node: {e:?}")))?;
        let name = ServiceName::new("c12").unwrap();
        let svc = node
            .service_builder(&name)
            .blackboard_creator::<u64>()
            .max_readers(nreaders.max(1))
            .add::<T>(KEY, initial)
            .create()
            .map_err(|e| {
                domain.cleanup();
                Failure::new(if T::A > 8 { OVERALIGNED } else { "setup" }, format!("blackboard with a {} value (alignment {}): {e:?}", T::NAME, T::A))
            })?;
        let writer = svc.writer_builder().create().map_err(|e| fail(&domain, format!("writer: {e:?}")))?;
        let h = writer.entry::<T>(&KEY).map_err(|e| fail(&domain, format!("writer entry: {e:?}")))?;
        let mut readers = vec![];
        let mut rsides = vec![];
        for _ in 0..nreaders {
            let r = svc.reader_builder().create().map_err(|e| fail(&domain, format!("reader: {e:?}")))?;
            rsides.push(PortReader(r.entry::<T>(&KEY).map_err(|e| fail(&domain, format!("reader entry: {e:?}")))?));
            readers.push(r);
        }
        Ok(Board { wside: PortWriter(Some(h)), rsides, _readers: readers, _writer: writer, _svc: svc, _node: node, domain })
    }

    pub fn finish(self) {
        let Board { wside, rsides, _readers, _writer, _svc, _node, domain } = self;
        drop(wside);
        drop(rsides);
        drop(_readers);
        drop(_writer);
        drop(_svc);
        drop(_node);
        domain.cleanup();
    }
}
