//! C12 — blackboard reads are atomic and monotone; one writer at a time.
//!
//! Three engines: real-thread stress with self-checking values (`stress.rs`, primary for
//! tearing), the controlled scheduler (`ctl.rs`: token, cell selection, re-validation and
//! monotonicity logic; a loaned cell is written in two pieces with a yield point in between, so
//! "reader copies a half rewritten cell" is an enumerated schedule), and generated sequential
//! histories over the public API against a model (`seq.rs`: creation errors, discard,
//! `is_up_to_date`).
extern crate iceoryx2_bb_loggers;

mod ctl;
mod payload;
mod seq;
mod stress;
mod sut;

use vcore::{Ctx, Failure, Spec};

const SPEC: Spec = Spec {
    prop: "C12",
    level: "exploration",
    rule: "stress: case = (value type V<N bytes, align A> from 12 sizes x 6 alignments, flavour UnrestrictedAtomic / blackboard ports of local::Service / of ipc::Service, 1..2 reader threads, seed of the writer's mix of copy / loan+copy / loan+piecewise write+publish / loan+scribble+discard); fixed number of updates, readers read until the writer has ended; oracle = every value read is the bytes of one write, lies in the window [last update returned before the read was invoked, last update invoked before it returned], never decreases per reader, and is the last value once the writer has ended; non-trivial = a reader saw the sequence number change between consecutive reads >= 1000 times. controlled: case = (flavour, start parity of the cell counter, writer ops, 1..2 readers x r reads, optional second producer candidate, schedule = preemption list over the atomic accesses of the real code plus the yield point inside a piecewise loan write, optional C11 stale-read choices); all lists up to the stated bound for the 3-op programs, PCT-style random lists beyond; oracle = one piece, window by the event log, monotone, is_up_to_date never claims a superseded value current, never two producers, no refusal without a possible holder; non-trivial = a read overlapped a complete update (update invoked after the read was invoked and returned before it returned) and a preemption landed inside an operation. sequential: case = (max_readers 0..4, op list over writer / reader / write handle / read handle creation and drop, updates of 5 kinds, get, is_up_to_date, second node opening the service); oracle = model (exact error values, registry counts after every step, value of the last published update); non-trivial = a refusal was provoked and the same kind of call succeeded later, or a refusal and a discarded loan occurred. distinct = hash of the whole case",
    assumptions: &[
        "tearing needs real simultaneity inside one payload copy: it is sampled by the stress part, not enumerated; the controlled part reaches it only through the piecewise write of a loaned cell (two pieces)",
        "schedules are explored at the granularity of atomic accesses; plain memory accesses between two atomics execute atomically",
        "the stress part runs on the memory model of the machine (x86-64 TSO); weaker C11 behaviours of the cell counter are covered by the stale-read choices of ctl.weak, which see atomic locations only",
        "writer and readers live in one process (threads); the value lives in the shared memory of the service for the ipc flavour",
    ],
    watchdog_quick_s: 1800,
    watchdog_thorough_s: 14400,
};

/// One dedicated case per over-aligned value type and service variant: keeps the known finding
/// visible and turns into a plain violation should the finding be closed without a repair.
fn probe_overaligned(ctx: &mut Ctx) {
    use iceoryx2::prelude::*;
    use payload::Payload;
    const PART: &str = "probe.overaligned_value";
    if !ctx.part_enabled(PART) || (ctx.worker != 0 && ctx.replay.is_none()) {
        return;
    }
    fn one<S: Service, T: Payload>() -> Option<String> {
        match sut::Board::<S, T>::new(1, T::make(0)) {
            Ok(b) => {
                b.finish();
                None
            }
            Err(f) => Some(f.message),
        }
    }
    let cases: [(&str, fn() -> Option<String>); 4] = [
        ("V16a16 local", one::<local::Service, payload::V16a16>),
        ("V16a16 ipc", one::<ipc::Service, payload::V16a16>),
        ("V64a64 local", one::<local::Service, payload::V64a64>),
        ("V64a64 ipc", one::<ipc::Service, payload::V64a64>),
    ];
    for (k, (name, f)) in cases.iter().enumerate() {
        let seen = f();
        let mut obs = vcore::Obs::default();
        obs.class(if seen.is_some() { "probe_overaligned_value_refused" } else { "probe_overaligned_value_accepted" });
        ctx.record(PART, k as u64, &obs, || serde_json::json!(name));
        ctx.probe_finding(PART, sut::OVERALIGNED, seen, serde_json::json!(name));
    }
}

fn body(ctx: &mut Ctx) {
    iceoryx2_log::set_log_level(if std::env::var("C12_LOG").is_ok() { iceoryx2_log::LogLevel::Debug } else { iceoryx2_log::LogLevel::Fatal });
    if let Err(e) = payload::self_test() {
        ctx.violation("selftest", &Failure::new("harness.payload_encoding", e), serde_json::json!(null));
        return;
    }
    if std::env::var("C12_ONLY_LIMITS").is_ok() {
        // development switch: the C08 limit parts of checks_ice::limits are run by the C08 binary
        checks_ice::limits::c08_parts(ctx);
        return;
    }
    probe_overaligned(ctx);
    // sequential and stress parts use all CPUs; the scheduler parts pin the worker to one
    seq::parts(ctx);
    stress::part(ctx);
    vcore::sched::install();
    ctx.pin_to_one_cpu();
    ctl::parts(ctx);
}

fn main() {
    vcore::main(SPEC, body);
}
