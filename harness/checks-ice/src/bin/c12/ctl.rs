//! Controlled part (vsched): writer ‖ 1..2 readers (‖ a second producer candidate) with the
//! schedule as generated input. The payload copy inside `load` / `store` is one step for the
//! scheduler; the *loan* API however lets the harness write a loaned cell in two pieces with a
//! yield point in between, so a reader that copies a cell while it is half rewritten is a
//! schedule the enumeration reaches — the re-validation of `load` is what must throw that copy
//! away. Oracle by stamps (order of the harness' event log; one thread runs at a time):
//!  * every value read is one piece;
//!  * seq >= last update that returned before the read was invoked, <= last update invoked before
//!    the read returned; non-decreasing per reader;
//!  * `is_up_to_date(v) == true` only if no update newer than `v` had returned before the call;
//!  * two producers never exist at the same time; `acquire_producer` says `None` only if somebody
//!    else could hold the producer during the call.
use crate::payload::{Payload, Small};
use crate::sut::{Board, ReaderSide, UaReader, UaWriter, WriterSide, boxed_atomic};
use iceoryx2::prelude::*;
use iceoryx2_bb_lock_free::spmc::unrestricted_atomic::UnrestrictedAtomic;
use serde::{Deserialize, Serialize};
use std::sync::Mutex;
use vcore::sched::{self, Schedule};
use vcore::{Ctx, Failure, Obs, ensure};

#[derive(Clone, Copy, Debug, Serialize, Deserialize, Hash, PartialEq, Eq)]
pub enum WOp {
    Copy,
    LoanCopy,
    /// loan, write the first half, yield point, write the second half, publish
    LoanSplit,
    /// loan, scribble garbage in two pieces, give the loan back unpublished
    Discard,
}

#[derive(Clone, Debug, Serialize, Deserialize, Hash)]
pub struct CCase {
    /// 0 UnrestrictedAtomic, 1 blackboard ports of local::Service, 2 of ipc::Service
    pub flavor: u8,
    /// parity of the cell counter at the start (0: the value lives in cell 0)
    pub parity: u8,
    pub wops: Vec<WOp>,
    pub readers: u8,
    pub reads: u8,
    /// UnrestrictedAtomic only: one more thread tries to become producer
    #[serde(default)]
    pub contend: bool,
    /// ports only: every read is followed by `is_up_to_date`
    #[serde(default)]
    pub utd: bool,
    pub sched: Schedule,
}

#[derive(Clone, Debug)]
enum Ev {
    UpdBegin(u64),
    UpdEnd(u64),
    ReadBegin,
    ReadEnd(Result<u64, String>),
    UtdBegin,
    UtdEnd(bool),
    AcqBegin,
    AcqEnd(bool),
    RelBegin,
    RelEnd,
}

type Log = Mutex<Vec<(usize, Ev)>>;

fn do_wops(w: &mut dyn WriterSide<Small>, wops: &[WOp], log: &Log) {
    let poison = Small::poison();
    let y = || sched::yield_now();
    let mut s = 0u64;
    for op in wops {
        if *op == WOp::Discard {
            sched::op_begin();
            w.loan_discard(&poison, &y);
            sched::op_end();
            continue;
        }
        s += 1;
        let v = Small::make(s);
        log.lock().unwrap().push((0, Ev::UpdBegin(s)));
        sched::op_begin();
        match op {
            WOp::Copy => w.copy(&v),
            WOp::LoanCopy => w.loan_copy(&v),
            _ => w.loan_split(&v, &y),
        }
        sched::op_end();
        log.lock().unwrap().push((0, Ev::UpdEnd(s)));
    }
}

fn do_reads(r: &dyn ReaderSide<Small>, tid: usize, n: u8, utd: bool, log: &Log) {
    for _ in 0..n {
        log.lock().unwrap().push((tid, Ev::ReadBegin));
        sched::op_begin();
        if utd {
            let mut after_get = |v: &Small| {
                sched::op_end();
                let mut l = log.lock().unwrap();
                l.push((tid, Ev::ReadEnd(v.check())));
                l.push((tid, Ev::UtdBegin));
            };
            match r.get_then_up_to_date(&mut after_get) {
                Some(b) => log.lock().unwrap().push((tid, Ev::UtdEnd(b))),
                None => log.lock().unwrap().push((tid, Ev::UtdEnd(false))),
            }
        } else {
            let v = r.get();
            sched::op_end();
            log.lock().unwrap().push((tid, Ev::ReadEnd(v.check())));
        }
    }
}

/// brings writer side and cells into the start state of a case: value = seq 0, spare cell =
/// poison, cell counter parity as requested; `published` counts the increments so far
fn prepare(w: &mut dyn WriterSide<Small>, published: &mut u64, parity: u8) {
    let zero = Small::make(0);
    let nop = || {};
    w.copy(&zero);
    *published += 1;
    // the counter starts at 1 and the value lives in cell (counter - 1) % 2
    if ((*published) % 2) as u8 != parity % 2 {
        w.copy(&zero);
        *published += 1;
    }
    w.loan_discard(&Small::poison(), &nop);
}

pub struct Boards {
    local: [Option<(Board<local::Service, Small>, u64)>; 2],
    ipc: [Option<(Board<ipc::Service, Small>, u64)>; 2],
}

impl Boards {
    pub fn new() -> Self {
        Boards { local: [None, None], ipc: [None, None] }
    }
    pub fn finish(self) {
        for b in self.local.into_iter().flatten() {
            b.0.finish();
        }
        for b in self.ipc.into_iter().flatten() {
            b.0.finish();
        }
    }
}

fn run_threads<'a>(c: &'a CCase, w: Option<&'a mut (dyn WriterSide<Small> + 'a)>, ua: Option<&'a UnrestrictedAtomic<Small>>, rs: &'a [&'a dyn ReaderSide<Small>], log: &'a Log) -> sched::RunInfo {
    let mut bodies: Vec<Box<dyn FnOnce() + Send + 'a>> = vec![];
    match (w, ua) {
        (Some(w), _) => bodies.push(Box::new(move || do_wops(w, &c.wops, log))),
        (None, Some(ua)) => bodies.push(Box::new(move || {
            log.lock().unwrap().push((0, Ev::AcqBegin));
            let p = ua.acquire_producer();
            log.lock().unwrap().push((0, Ev::AcqEnd(p.is_some())));
            if let Some(p) = p {
                let mut w = UaWriter(p);
                do_wops(&mut w, &c.wops, log);
                log.lock().unwrap().push((0, Ev::RelBegin));
                drop(w);
                log.lock().unwrap().push((0, Ev::RelEnd));
            }
        })),
        _ => unreachable!(),
    }
    for (i, r) in rs.iter().enumerate() {
        let r = *r;
        bodies.push(Box::new(move || do_reads(r, i + 1, c.reads, c.utd, log)));
    }
    if let (true, Some(ua)) = (c.contend, ua) {
        let tid = 1 + rs.len();
        bodies.push(Box::new(move || {
            log.lock().unwrap().push((tid, Ev::AcqBegin));
            let p = ua.acquire_producer();
            log.lock().unwrap().push((tid, Ev::AcqEnd(p.is_some())));
            if let Some(p) = p {
                log.lock().unwrap().push((tid, Ev::RelBegin));
                drop(p);
                log.lock().unwrap().push((tid, Ev::RelEnd));
            }
        }));
    }
    sched::run(bodies, &c.sched)
}

pub fn threads_of(c: &CCase) -> u8 {
    1 + c.readers + if c.contend && c.flavor == 0 { 1 } else { 0 }
}

pub fn run_case(c: &CCase, boards: &mut Boards, obs: &mut Obs) -> Result<sched::RunInfo, Failure> {
    ensure!((1..=2).contains(&c.readers) && c.flavor <= 2, "setup", "case out of range: {c:?}");
    let log: Log = Mutex::new(vec![]);
    let nr = c.readers as usize;
    let info = match c.flavor {
        0 => {
            let a = boxed_atomic(Small::make(0));
            {
                let p = a.acquire_producer().ok_or_else(|| Failure::new("ctl.no_producer", "fresh UnrestrictedAtomic hands out no producer"))?;
                let mut w = UaWriter(p);
                let mut published = 0; // fresh: counter 1, the value lives in cell 0
                prepare(&mut w, &mut published, c.parity);
            }
            let readers: Vec<UaReader<Small>> = (0..nr).map(|_| UaReader(&*a)).collect();
            let rs: Vec<&dyn ReaderSide<Small>> = readers.iter().map(|r| r as &dyn ReaderSide<Small>).collect();
            run_threads(c, None, Some(&*a), &rs, &log)
        }
        1 => {
            let slot = &mut boards.local[nr - 1];
            if slot.as_ref().map(|(b, _)| b.wside.0.is_none()).unwrap_or(false) {
                // a panic inside a loan lost the write handle: start over with a fresh board
                if let Some((b, _)) = slot.take() {
                    b.finish();
                }
            }
            if slot.is_none() {
                *slot = Some((Board::new(nr, Small::make(0))?, 0));
            }
            let (b, published) = slot.as_mut().unwrap();
            prepare(&mut b.wside, published, c.parity);
            let rs: Vec<&dyn ReaderSide<Small>> = b.rsides.iter().map(|r| r as &dyn ReaderSide<Small>).collect();
            let r = run_threads(c, Some(&mut b.wside), None, &rs, &log);
            *published += c.wops.iter().filter(|o| **o != WOp::Discard).count() as u64;
            r
        }
        _ => {
            let slot = &mut boards.ipc[nr - 1];
            if slot.as_ref().map(|(b, _)| b.wside.0.is_none()).unwrap_or(false) {
                // a panic inside a loan lost the write handle: start over with a fresh board
                if let Some((b, _)) = slot.take() {
                    b.finish();
                }
            }
            if slot.is_none() {
                *slot = Some((Board::new(nr, Small::make(0))?, 0));
            }
            let (b, published) = slot.as_mut().unwrap();
            prepare(&mut b.wside, published, c.parity);
            let rs: Vec<&dyn ReaderSide<Small>> = b.rsides.iter().map(|r| r as &dyn ReaderSide<Small>).collect();
            let r = run_threads(c, Some(&mut b.wside), None, &rs, &log);
            *published += c.wops.iter().filter(|o| **o != WOp::Discard).count() as u64;
            r
        }
    };
    ensure!(info.panics.is_empty(), "ctl.panic", "thread panicked: {:?}", info.panics);
    ensure!(!info.deadlock, "ctl.deadlock", "lock-free code deadlocked");
    if info.budget_exhausted {
        obs.discarded = true;
        return Ok(info);
    }
    let log = log.into_inner().unwrap();
    if std::env::var("C12_DEBUG").is_ok() {
        eprintln!("case {c:?}\nlog {log:?}\ninfo {info:?}");
    }
    let nthreads = threads_of(c) as usize;
    let (mut started, mut completed) = (0u64, 0u64);
    let mut lo = vec![0u64; nthreads];
    let mut started_at_begin = vec![0u64; nthreads];
    let mut last = vec![0u64; nthreads];
    let mut utd_lo = vec![0u64; nthreads];
    let mut overlapped = false;
    let mut definite: Option<usize> = None;
    let mut possible = vec![false; nthreads];
    let mut saw_other = vec![false; nthreads];
    let mut acquiring = vec![false; nthreads];
    let mut contended = false;
    let detail = || format!("{log:?}");
    for (t, e) in &log {
        let t = *t;
        match e {
            Ev::UpdBegin(s) => started = *s,
            Ev::UpdEnd(s) => completed = *s,
            Ev::ReadBegin => {
                lo[t] = completed;
                started_at_begin[t] = started;
            }
            Ev::ReadEnd(Err(what)) => vcore::fail!("ctl.torn", "reader {t} got a value that is not one write: {what}; log {}", detail()),
            Ev::ReadEnd(Ok(s)) => {
                ensure!(*s >= lo[t], "ctl.stale", "reader {t} got seq {s} although update {} had returned before the read was invoked; log {}", lo[t], detail());
                ensure!(*s <= started, "ctl.future", "reader {t} got seq {s} although only updates up to {started} had been invoked; log {}", detail());
                ensure!(*s >= last[t], "ctl.not_monotone", "reader {t} got seq {s} after seq {}; log {}", last[t], detail());
                last[t] = *s;
                if completed > started_at_begin[t] {
                    overlapped = true;
                }
            }
            Ev::UtdBegin => utd_lo[t] = completed,
            Ev::UtdEnd(b) => {
                if *b && info.stale_reads == 0 {
                    ensure!(last[t] >= utd_lo[t], "ctl.up_to_date", "reader {t}: is_up_to_date said true for seq {} although update {} had returned before the call; log {}", last[t], utd_lo[t], detail());
                }
            }
            Ev::AcqBegin => {
                acquiring[t] = true;
                possible[t] = true;
                let others = possible.iter().enumerate().any(|(o, p)| o != t && *p);
                saw_other[t] = others;
                for o in 0..nthreads {
                    if o != t && acquiring[o] {
                        saw_other[o] = true;
                    }
                }
            }
            Ev::AcqEnd(got) => {
                acquiring[t] = false;
                if *got {
                    ensure!(definite.is_none(), "ctl.two_producers", "thread {t} became producer while thread {:?} was producer; log {}", definite, detail());
                    definite = Some(t);
                } else {
                    contended = true;
                    possible[t] = false;
                    ensure!(saw_other[t], "ctl.spurious_none", "thread {t}: acquire_producer returned None although nobody else could hold the producer during the call; log {}", detail());
                }
            }
            Ev::RelBegin => definite = None,
            Ev::RelEnd => possible[t] = false,
        }
    }
    obs.nontrivial = overlapped && info.preempt_inside;
    if overlapped {
        obs.class("ctl_read_overlapped_complete_update");
    }
    if info.cas_fail > 0 {
        obs.class("ctl_cas_failed");
    }
    if contended {
        obs.class("ctl_producer_refused");
    }
    if info.stale_reads > 0 {
        obs.class("ctl_with_stale_read");
    }
    Ok(info)
}

fn shrinks(c: &CCase) -> Vec<CCase> {
    let mut out = vec![];
    for s in sched::shrink_schedule(&c.sched) {
        out.push(CCase { sched: s, ..c.clone() });
    }
    for i in 0..c.wops.len() {
        let mut n = c.clone();
        n.wops.remove(i);
        out.push(n);
    }
    for (i, o) in c.wops.iter().enumerate() {
        if *o != WOp::Copy && *o != WOp::Discard {
            let mut n = c.clone();
            n.wops[i] = WOp::Copy;
            out.push(n);
        }
    }
    if c.reads > 1 {
        out.push(CCase { reads: c.reads - 1, ..c.clone() });
    }
    if c.readers > 1 {
        let mut n = CCase { readers: 1, ..c.clone() };
        // thread ids above the removed reader shift down
        n.sched.preempt = c.sched.preempt.iter().filter(|(_, t)| *t != 2).map(|(y, t)| (*y, if *t > 2 && *t != sched::OTHER as u8 { *t - 1 } else { *t })).collect();
        out.push(n);
    }
    if c.contend {
        out.push(CCase { contend: false, ..c.clone() });
    }
    if c.utd {
        out.push(CCase { utd: false, ..c.clone() });
    }
    if c.parity != 0 {
        out.push(CCase { parity: 0, ..c.clone() });
    }
    if c.flavor != 0 && !c.utd {
        out.push(CCase { flavor: 0, ..c.clone() });
    }
    out
}

/// runs a case; on failure shrinks it and files the violation
fn exec(ctx: &mut Ctx, boards: &mut Boards, part: &str, c: &CCase) -> bool {
    let mut obs = Obs::default();
    let r = Ctx::guarded(|| run_case(c, boards, &mut obs).map(|_| ()));
    ctx.record(part, vcore::rng::hash_str(&format!("{c:?}")), &obs, || serde_json::to_value(c).unwrap());
    if let Err(f) = r {
        if ctx.is_open_finding(&f.signature) {
            ctx.violation(part, &f, serde_json::to_value(c).unwrap());
            return true;
        }
        let sig = f.signature.clone();
        let min = vcore::shrink::greedy(c.clone(), shrinks, |cand| matches!(Ctx::guarded(|| run_case(cand, boards, &mut Obs::default()).map(|_| ())), Err(ff) if ff.signature == sig), 400);
        let fin = Ctx::guarded(|| run_case(&min, boards, &mut Obs::default()).map(|_| ())).err().unwrap_or(f);
        ctx.violation(part, &fin, serde_json::to_value(&min).unwrap());
        return false;
    }
    true
}

pub fn parts(ctx: &mut Ctx) {
    let mut boards = Boards::new();
    for part in ["ctl.exhaustive", "ctl.random", "ctl.weak"] {
        if let Some(c) = ctx.replay_case::<CCase>(part) {
            exec(ctx, &mut boards, part, &c);
            boards.finish();
            return;
        }
    }
    if ctx.replay.is_some() {
        return;
    }
    if ctx.part_enabled("ctl.exhaustive") {
        let bound = ctx.scale(2, 3);
        let kinds = [WOp::Copy, WOp::LoanSplit, WOp::Discard];
        let mut i = 0u64;
        let mut ok = true;
        'outer: for flavor in 0..3u8 {
            for readers in 1..=2u8 {
                for contend in [false, true] {
                    if contend && (flavor != 0 || readers != 1) {
                        continue;
                    }
                    for parity in 0..2u8 {
                        for code in 0..27usize {
                            i += 1;
                            if !ctx.mine(i) {
                                continue;
                            }
                            let wops = vec![kinds[code % 3], kinds[(code / 3) % 3], kinds[code / 9]];
                            let base = CCase { flavor, parity, wops, readers, reads: 2, contend, utd: false, sched: Schedule::default() };
                            let y = match run_case(&base, &mut boards, &mut Obs::default()) {
                                Ok(info) => info.yields,
                                Err(_) => {
                                    exec(ctx, &mut boards, "ctl.exhaustive", &base);
                                    ok = false;
                                    break 'outer;
                                }
                            };
                            for l in sched::enumerate_preemptions(y + 4, threads_of(&base), bound) {
                                let c = CCase { sched: Schedule { preempt: l, ..Default::default() }, ..base.clone() };
                                if !exec(ctx, &mut boards, "ctl.exhaustive", &c) {
                                    ok = false;
                                    break 'outer;
                                }
                            }
                        }
                    }
                }
            }
        }
        if ok {
            ctx.mark_exhaustive(format!(
                "ctl.exhaustive: all preemption lists with <= {bound} preemptions (explicit target thread) for every program writer 3 ops from {{copy, loan + piecewise write + publish, loan + scribble + discard}} ‖ 1..2 readers x 2 reads, both cell parities, UnrestrictedAtomic and blackboard ports (local, ipc); plus a second producer candidate for UnrestrictedAtomic with one reader"
            ));
        }
    }
    for (part, weak) in [("ctl.random", false), ("ctl.weak", true)] {
        if !ctx.part_enabled(part) {
            continue;
        }
        let total = if weak { ctx.scale(60_000u64, 1_000_000) } else { ctx.scale(120_000u64, 2_000_000) };
        let n = ctx.share(total);
        let mut rng = ctx.rng(part);
        let maxp = ctx.scale(4, 6);
        let all = [WOp::Copy, WOp::LoanCopy, WOp::LoanSplit, WOp::Discard];
        for _ in 0..n {
            let flavor = rng.below(3) as u8;
            let readers = rng.range(1, 2) as u8;
            let wops: Vec<WOp> = (0..rng.range(1, 6)).map(|_| *rng.pick(&all)).collect();
            let reads = rng.range(1, 4) as u8;
            let contend = flavor == 0 && rng.chance(1, 3);
            let utd = flavor != 0 && rng.chance(1, 2);
            let base = CCase { flavor, parity: rng.below(2) as u8, wops, readers, reads, contend, utd, sched: Schedule::default() };
            let threads = threads_of(&base);
            let est = 4 + 3 * base.wops.len() as u32 + (readers as u32) * (reads as u32) * if utd { 4 } else { 3 } + if contend { 2 } else { 0 };
            let np = rng.range(1, maxp) as usize;
            let preempt = sched::random_preemptions(&mut rng, est, threads, np);
            let stale = if weak { (0..rng.range(1, 12)).map(|_| if rng.chance(1, 2) { rng.range(1, 3) as u8 } else { 0 }).collect() } else { vec![] };
            let c = CCase { sched: Schedule { preempt, stale, weak }, ..base };
            if !exec(ctx, &mut boards, part, &c) {
                break;
            }
        }
    }
    boards.finish();
}
