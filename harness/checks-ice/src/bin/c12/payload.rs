//! Self-checking blackboard values: `#[repr(C, align(A))] struct V([u8; N])` whose bytes are a
//! function of one sequence number, so that a mixture of two writes (or a cell that was never
//! published) is recognised by looking at the value alone.
//!
//! * N = 1: the byte is `seq mod 256` (cannot be torn; takes part in the order checks only);
//! * 2 <= N <= 8: `seq mod 2^(8(N-1))` little endian, last byte = checksum of the others;
//! * N >= 9: bytes 0..8 = `seq`, every further 8-byte word = an injective function of
//!   (`seq`, word index), last byte = `!seq`.
//!
//! A buffer of zeros is never valid (fresh shared memory and `MaybeUninit` cells read as zeros).
use iceoryx2_bb_elementary_traits::zero_copy_send::ZeroCopySend;

const K1: u64 = 0x9E37_79B9_7F4A_7C15;
const K2: u64 = 0xD6E8_FEB8_6659_FD93; // odd: multiplication is a bijection

#[inline(always)]
fn word(seq: u64, w: usize) -> u64 {
    (seq ^ (w as u64).wrapping_mul(K1)).wrapping_mul(K2) ^ 0x5555_5555_5555_5555
}

#[inline(always)]
fn check8(b: &[u8]) -> u8 {
    let mut c = 0xA5u8;
    for x in b {
        c = (c.rotate_left(3) ^ *x).wrapping_add(0x3D);
    }
    !c
}

/// number of sequence bits a value of `n` bytes carries (64 = all)
pub fn seq_bits(n: usize) -> u32 {
    match n {
        1 => 8,
        2..=8 => 8 * (n as u32 - 1),
        _ => 64,
    }
}

#[inline]
pub fn fill(b: &mut [u8], seq: u64) {
    let n = b.len();
    let le = seq.to_le_bytes();
    match n {
        0 => {}
        1 => b[0] = le[0],
        2..=8 => {
            b[..n - 1].copy_from_slice(&le[..n - 1]);
            b[n - 1] = check8(&b[..n - 1]);
        }
        _ => {
            b[..8].copy_from_slice(&le);
            let mut w = 1;
            let mut chunks = b[8..].chunks_exact_mut(8);
            for c in &mut chunks {
                c.copy_from_slice(&word(seq, w).to_le_bytes());
                w += 1;
            }
            let r = chunks.into_remainder();
            let l = r.len();
            r.copy_from_slice(&word(seq, w).to_le_bytes()[..l]);
            b[n - 1] = !le[0];
        }
    }
}

/// `Ok(seq mod 2^seq_bits(n))` when the bytes are those of one write, otherwise a description.
#[inline]
pub fn verify(b: &[u8]) -> Result<u64, String> {
    let n = b.len();
    match n {
        0 => Ok(0),
        1 => Ok(b[0] as u64),
        2..=8 => {
            let mut le = [0u8; 8];
            le[..n - 1].copy_from_slice(&b[..n - 1]);
            if b[n - 1] != check8(&b[..n - 1]) {
                return Err(format!("{n}-byte value {b:02x?}: checksum byte does not belong to the other bytes"));
            }
            Ok(u64::from_le_bytes(le))
        }
        _ => {
            let seq = u64::from_le_bytes(b[..8].try_into().unwrap());
            let mut bad: Option<usize> = None;
            let mut w = 1;
            let mut off = 8;
            while off < n {
                let e = word(seq, w).to_le_bytes();
                let l = (n - off).min(8);
                for k in 0..l {
                    let exp = if off + k == n - 1 { !(seq as u8) } else { e[k] };
                    if b[off + k] != exp {
                        bad = Some(off + k);
                        break;
                    }
                }
                if bad.is_some() {
                    break;
                }
                off += 8;
                w += 1;
            }
            match bad {
                None => Ok(seq),
                Some(at) => {
                    // which write does the tail belong to? (diagnostics only)
                    let wi = at / 8;
                    let other = if at % 8 == 0 && at + 8 <= n - 1 {
                        let x = u64::from_le_bytes(b[at..at + 8].try_into().unwrap()) ^ 0x5555_5555_5555_5555;
                        // invert the multiplication by K2 (Newton iteration for the inverse mod 2^64)
                        let mut inv = K2;
                        for _ in 0..6 {
                            inv = inv.wrapping_mul(2u64.wrapping_sub(K2.wrapping_mul(inv)));
                        }
                        Some(x.wrapping_mul(inv) ^ (wi as u64).wrapping_mul(K1))
                    } else {
                        None
                    };
                    Err(format!(
                        "{n}-byte value: bytes 0..{at} are those of seq {seq}, byte {at} is not{}",
                        match other {
                            Some(o) => format!(" (the word at {at} belongs to seq {o})"),
                            None => String::new(),
                        }
                    ))
                }
            }
        }
    }
}

/// Given the truncated sequence number of a value and the window `[lo, hi]` of sequence numbers
/// the value may legally have: the full number, `Err(None)` when the window is wider than the
/// truncation can resolve (undecidable), `Err(Some(candidate))` when no number in the window matches
/// (candidate = the nearest matching number below `lo`, or above `hi` when there is none below).
pub fn resolve(trunc: u64, bits: u32, lo: u64, hi: u64) -> Result<u64, Option<u64>> {
    if bits >= 64 {
        return if lo <= trunc && trunc <= hi { Ok(trunc) } else { Err(Some(trunc)) };
    }
    let m = 1u64 << bits;
    if hi - lo + 1 > m {
        return Err(None);
    }
    let s = lo + (trunc.wrapping_sub(lo) & (m - 1));
    if s <= hi {
        Ok(s)
    } else if s >= m {
        Err(Some(s - m))
    } else {
        Err(Some(s))
    }
}

pub trait Payload: Copy + Send + Sync + 'static + ZeroCopySend {
    const N: usize;
    const A: usize;
    const NAME: &'static str;
    fn zeroed() -> Self;
    fn bytes(&self) -> &[u8];
    fn bytes_mut(&mut self) -> &mut [u8];
    #[inline]
    fn make(seq: u64) -> Self {
        let mut v = Self::zeroed();
        fill(v.bytes_mut(), seq);
        v
    }
    /// bytes that pass for no write at all
    #[inline]
    fn poison() -> Self {
        let mut v = Self::zeroed();
        for (i, b) in v.bytes_mut().iter_mut().enumerate() {
            *b = 0xEE ^ (i as u8).wrapping_mul(7);
        }
        if Self::N >= 2 && verify(v.bytes()).is_ok() {
            let l = Self::N - 1;
            v.bytes_mut()[l] ^= 0xFF;
        }
        v
    }
    #[inline]
    fn check(&self) -> Result<u64, String> {
        verify(self.bytes())
    }
}

macro_rules! payload_types {
    ($( ($name:ident, $n:expr, $a:expr) )*) => {
        $(
            #[repr(C, align($a))]
            #[derive(Clone, Copy)]
            pub struct $name(pub [u8; $n]);
            unsafe impl ZeroCopySend for $name {}
            impl Payload for $name {
                const N: usize = $n;
                const A: usize = $a;
                const NAME: &'static str = stringify!($name);
                #[inline]
                fn zeroed() -> Self { $name([0u8; $n]) }
                #[inline]
                fn bytes(&self) -> &[u8] { &self.0 }
                #[inline]
                fn bytes_mut(&mut self) -> &mut [u8] { &mut self.0 }
            }
            impl core::fmt::Debug for $name {
                fn fmt(&self, f: &mut core::fmt::Formatter<'_>) -> core::fmt::Result {
                    write!(f, "{}({:02x?}..)", stringify!($name), &self.0[..self.0.len().min(16)])
                }
            }
        )*
        pub const TYPE_NAMES: &[&str] = &[$(stringify!($name)),*];
        /// Calls `f` with the payload type of index `i` (see `TYPE_NAMES`).
        pub fn with_type<F: PayloadFn>(i: usize, f: F) -> F::Out {
            let mut k = 0usize;
            $(
                if i == k { return f.call::<$name>(); }
                k += 1;
            )*
            let _ = k;
            panic!("no payload type {i}")
        }
    };
}

pub trait PayloadFn {
    type Out;
    fn call<T: Payload>(self) -> Self::Out;
}

payload_types! {
    (V1a1, 1, 1) (V1a2, 1, 2) (V1a4, 1, 4) (V1a8, 1, 8) (V1a16, 1, 16) (V1a64, 1, 64)
    (V2a1, 2, 1) (V2a2, 2, 2) (V2a4, 2, 4) (V2a8, 2, 8) (V2a16, 2, 16) (V2a64, 2, 64)
    (V3a1, 3, 1) (V3a2, 3, 2) (V3a4, 3, 4) (V3a8, 3, 8) (V3a16, 3, 16) (V3a64, 3, 64)
    (V7a1, 7, 1) (V7a2, 7, 2) (V7a4, 7, 4) (V7a8, 7, 8) (V7a16, 7, 16) (V7a64, 7, 64)
    (V8a1, 8, 1) (V8a2, 8, 2) (V8a4, 8, 4) (V8a8, 8, 8) (V8a16, 8, 16) (V8a64, 8, 64)
    (V9a1, 9, 1) (V9a2, 9, 2) (V9a4, 9, 4) (V9a8, 9, 8) (V9a16, 9, 16) (V9a64, 9, 64)
    (V63a1, 63, 1) (V63a2, 63, 2) (V63a4, 63, 4) (V63a8, 63, 8) (V63a16, 63, 16) (V63a64, 63, 64)
    (V64a1, 64, 1) (V64a2, 64, 2) (V64a4, 64, 4) (V64a8, 64, 8) (V64a16, 64, 16) (V64a64, 64, 64)
    (V65a1, 65, 1) (V65a2, 65, 2) (V65a4, 65, 4) (V65a8, 65, 8) (V65a16, 65, 16) (V65a64, 65, 64)
    (V256a1, 256, 1) (V256a2, 256, 2) (V256a4, 256, 4) (V256a8, 256, 8) (V256a16, 256, 16) (V256a64, 256, 64)
    (V1024a1, 1024, 1) (V1024a2, 1024, 2) (V1024a4, 1024, 4) (V1024a8, 1024, 8) (V1024a16, 1024, 16) (V1024a64, 1024, 64)
    (V4096a1, 4096, 1) (V4096a2, 4096, 2) (V4096a4, 4096, 4) (V4096a8, 4096, 8) (V4096a16, 4096, 16) (V4096a64, 4096, 64)
    (V16a16, 16, 16)
    (V16a8, 16, 8)
}

/// index of the small type the controlled and sequential parts use
pub type Small = V16a8;

/// Sanity of the encoding itself (run once per process): round trip, zeros and poison invalid, any
/// two-write mixture at byte granularity of neighbouring sequence numbers is recognised.
pub fn self_test() -> Result<(), String> {
    for n in [1usize, 2, 3, 7, 8, 9, 16, 63, 64, 65, 256, 1024, 4096] {
        let bits = seq_bits(n);
        let mask = if bits >= 64 { u64::MAX } else { (1u64 << bits) - 1 };
        let mut a = vec![0u8; n];
        let mut b = vec![0u8; n];
        if n >= 2 && verify(&a).is_ok() {
            return Err(format!("{n} zero bytes pass as a value"));
        }
        for seq in [0u64, 1, 2, 255, 256, 257, 65535, 65536, 123_456_789, u64::MAX - 1] {
            fill(&mut a, seq);
            match verify(&a) {
                Ok(s) if s == seq & mask => {}
                other => return Err(format!("round trip of seq {seq} with {n} bytes: {other:?}")),
            }
            if n >= 2 {
                fill(&mut b, seq + 1);
                for cut in 1..n {
                    for (x, y) in [(&a, &b), (&b, &a)] {
                        let mut m = x.clone();
                        m[cut..].copy_from_slice(&y[cut..]);
                        if m != *x && m != *y && verify(&m).is_ok() {
                            return Err(format!("mixture of seq {seq} and {} cut at {cut} of {n} bytes passes", seq + 1));
                        }
                    }
                }
            }
        }
    }
    Ok(())
}
