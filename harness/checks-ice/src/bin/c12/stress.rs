//! Real-thread stress part (no scheduler): one writer updates a value at full speed (copy, loan +
//! copy, loan + piecewise write + publish, loan + scribble + discard), 1..2 readers read it at
//! full speed. Only invariants that hold for every timing are checked:
//!  * every value read is one piece (self-check of the bytes);
//!  * the value read is neither older than the last update that had returned before the read was
//!    invoked nor newer than the last update that had been invoked before the read returned
//!    (`completed` / `started` are SeqCst counters of the harness: `completed` is written after
//!    the update returned, i.e. after the release increment of the cell counter which the
//!    reader's acquire load must then see; `started` is written before the update, so whoever
//!    acquires the cell counter published by update s also sees `started >= s`);
//!  * per reader the sequence numbers never decrease;
//!  * after the writer ended a read returns the last value.
use crate::payload::{self, Payload, PayloadFn};
use crate::sut::{Board, ReaderSide, UaReader, UaWriter, WriterSide, boxed_atomic};
use iceoryx2::prelude::*;
use serde::{Deserialize, Serialize};
use std::sync::atomic::{AtomicBool, AtomicU64, Ordering};
use std::sync::{Barrier, Mutex};
use vcore::{Ctx, Failure, Obs};

#[derive(Clone, Debug, Serialize, Deserialize)]
pub struct StressCase {
    /// index into `payload::TYPE_NAMES` (`ty_name` is informative)
    pub ty: usize,
    pub ty_name: String,
    /// 0 UnrestrictedAtomic, 1 blackboard ports of local::Service, 2 of ipc::Service
    pub flavor: u8,
    pub readers: usize,
    pub updates: u64,
    /// reads per reader at least (a reader goes on until the writer has ended)
    pub min_reads: u64,
    pub seed: u64,
}

#[derive(Default, Debug)]
pub struct Res {
    pub reads: u64,
    pub changes_min: u64,
    pub changes_max: u64,
    pub unresolved: u64,
    pub by_kind: [u64; 4],
}

fn run<T: Payload>(w: &mut dyn WriterSide<T>, rs: &[&dyn ReaderSide<T>], c: &StressCase) -> Result<Res, Failure> {
    let started = AtomicU64::new(0);
    let completed = AtomicU64::new(0);
    let done = AtomicBool::new(false);
    let abort = AtomicBool::new(false);
    let failure: Mutex<Option<Failure>> = Mutex::new(None);
    let barrier = Barrier::new(1 + rs.len());
    let by_kind: Mutex<[u64; 4]> = Mutex::new([0; 4]);
    let out: Mutex<Vec<(u64, u64, u64)>> = Mutex::new(vec![]);
    let file = |f: Failure| {
        let mut g = failure.lock().unwrap();
        if g.is_none() {
            *g = Some(f);
        }
        abort.store(true, Ordering::SeqCst);
    };
    let bits = payload::seq_bits(T::N);
    std::thread::scope(|sc| {
        {
            let (started, completed, done, abort, barrier, by_kind) = (&started, &completed, &done, &abort, &barrier, &by_kind);
            sc.spawn(move || {
                let mut rng = vcore::rng::SplitMix::new(c.seed);
                let poison = T::poison();
                let nop = || {};
                let mut kinds = [0u64; 4];
                barrier.wait();
                for s in 1..=c.updates {
                    if abort.load(Ordering::Relaxed) {
                        break;
                    }
                    let v = T::make(s);
                    let k = match rng.below(16) {
                        0..=8 => 0,
                        9..=11 => 1,
                        12..=14 => 2,
                        _ => 3,
                    };
                    kinds[k] += 1;
                    started.store(s, Ordering::SeqCst);
                    match k {
                        0 => w.copy(&v),
                        1 => w.loan_copy(&v),
                        2 => w.loan_split(&v, &nop),
                        _ => {
                            w.loan_discard(&poison, &nop);
                            w.copy(&v);
                        }
                    }
                    completed.store(s, Ordering::SeqCst);
                }
                *by_kind.lock().unwrap() = kinds;
                done.store(true, Ordering::SeqCst);
            });
        }
        for (ri, r) in rs.iter().enumerate() {
            let (started, completed, done, abort, barrier, out, file) = (&started, &completed, &done, &abort, &barrier, &out, &file);
            sc.spawn(move || {
                let mut last = 0u64;
                let mut reads = 0u64;
                let mut changes = 0u64;
                let mut unresolved = 0u64;
                let mut idle = 0u32;
                barrier.wait();
                loop {
                    let fin = done.load(Ordering::SeqCst);
                    let lo = completed.load(Ordering::SeqCst);
                    let v = r.get();
                    let hi = started.load(Ordering::SeqCst);
                    reads += 1;
                    match v.check() {
                        Err(what) => {
                            file(Failure::new("stress.torn", format!("reader {ri}, read {reads} (updates returned before the read: {lo}, invoked before its end: {hi}): {what}")));
                            break;
                        }
                        Ok(t) => match payload::resolve(t, bits, lo, hi) {
                            Ok(s) => {
                                if s < last {
                                    file(Failure::new("stress.not_monotone", format!("reader {ri}, read {reads}: got seq {s} after it had already seen seq {last}")));
                                    break;
                                }
                                if s != last {
                                    changes += 1;
                                    idle = 0;
                                } else {
                                    idle += 1;
                                }
                                last = s;
                            }
                            Err(None) => unresolved += 1,
                            Err(Some(cand)) => {
                                let (sig, rel) = if cand < lo { ("stress.stale", "older than the last update that had returned before the read was invoked") } else { ("stress.future", "newer than the last update invoked before the read returned") };
                                file(Failure::new(sig, format!("reader {ri}, read {reads}: value carries seq {t} (mod 2^{bits}), nearest full number {cand}: {rel}; window [{lo}, {hi}]")));
                                break;
                            }
                        },
                    }
                    if fin {
                        // the writer had ended before this read began
                        if lo != c.updates && !abort.load(Ordering::SeqCst) {
                            file(Failure::new("stress.final", format!("writer ended with {lo} of {} updates", c.updates)));
                        }
                        if reads >= c.min_reads {
                            break;
                        }
                    }
                    if abort.load(Ordering::Relaxed) {
                        break;
                    }
                    if idle > 256 {
                        // the writer is not running (oversubscribed machine): let it
                        idle = 0;
                        std::thread::yield_now();
                    }
                }
                out.lock().unwrap().push((reads, changes, unresolved));
            });
        }
    });
    if let Some(f) = failure.into_inner().unwrap() {
        return Err(f);
    }
    let mut res = Res { changes_min: u64::MAX, by_kind: by_kind.into_inner().unwrap(), ..Default::default() };
    for (reads, changes, unresolved) in out.into_inner().unwrap() {
        res.reads += reads;
        res.changes_min = res.changes_min.min(changes);
        res.changes_max = res.changes_max.max(changes);
        res.unresolved += unresolved;
    }
    let mis = crate::sut::MISALIGNED.swap(0, Ordering::SeqCst);
    vcore::ensure!(mis == 0, "stress.misaligned_cell", "the blackboard handed out a write cell at {mis:#x} for a value type with alignment {}", core::mem::align_of::<T>());
    Ok(res)
}

fn run_ports<S: Service, T: Payload>(c: &StressCase) -> Result<Res, Failure> {
    let mut b = Board::<S, T>::new(c.readers, T::make(0))?;
    let r = {
        let rs: Vec<&dyn ReaderSide<T>> = b.rsides.iter().map(|r| r as &dyn ReaderSide<T>).collect();
        run::<T>(&mut b.wside, &rs, c)
    };
    b.finish();
    r
}

struct Go<'a>(&'a StressCase);

impl PayloadFn for Go<'_> {
    type Out = Result<Res, Failure>;
    fn call<T: Payload>(self) -> Self::Out {
        let c = self.0;
        match c.flavor {
            0 => {
                let a = boxed_atomic(T::make(0));
                vcore::ensure!((&*a as *const _ as usize) % core::mem::align_of::<T>() == 0, "setup", "misaligned box");
                let p = a.acquire_producer().ok_or_else(|| Failure::new("stress.no_producer", "a fresh UnrestrictedAtomic has no producer to hand out"))?;
                let mut w = UaWriter(p);
                let readers: Vec<UaReader<T>> = (0..c.readers).map(|_| UaReader(&*a)).collect();
                let rs: Vec<&dyn ReaderSide<T>> = readers.iter().map(|r| r as &dyn ReaderSide<T>).collect();
                run::<T>(&mut w, &rs, c)
            }
            1 => run_ports::<local::Service, T>(c),
            _ => run_ports::<ipc::Service, T>(c),
        }
    }
}

fn exec(ctx: &mut Ctx, c: &StressCase) -> bool {
    let mut obs = Obs::default();
    let r = Ctx::guarded(|| payload::with_type(c.ty, Go(c)));
    if let Ok(res) = &r {
        obs.nontrivial = res.changes_max >= 1000;
        if res.changes_min >= 1000 {
            obs.class("stress_every_reader_saw_1000_changes");
        }
        obs.class(match c.flavor {
            0 => "stress_unrestricted_atomic",
            1 => "stress_ports_local",
            _ => "stress_ports_ipc",
        });
        if c.readers == 2 {
            obs.class("stress_two_readers");
        }
        ctx.class("stress_updates", c.updates);
        ctx.class("stress_updates_copy", res.by_kind[0]);
        ctx.class("stress_updates_loan_copy", res.by_kind[1]);
        ctx.class("stress_updates_loan_piecewise", res.by_kind[2]);
        ctx.class("stress_updates_after_discarded_loan", res.by_kind[3]);
        ctx.class("stress_reads", res.reads);
        ctx.class("stress_reads_window_wider_than_seq_bits", res.unresolved);
    }
    ctx.record("stress", vcore::rng::hash_str(&format!("{c:?}")), &obs, || serde_json::to_value(c).unwrap());
    if let Err(f) = r {
        ctx.violation("stress", &f, serde_json::to_value(c).unwrap());
        return false;
    }
    true
}

fn all_cpus() {
    unsafe {
        let ncpu = libc::sysconf(libc::_SC_NPROCESSORS_ONLN).max(1) as usize;
        let mut set: libc::cpu_set_t = std::mem::zeroed();
        for i in 0..ncpu {
            libc::CPU_SET(i, &mut set);
        }
        libc::sched_setaffinity(0, std::mem::size_of::<libc::cpu_set_t>(), &set);
    }
}

pub fn part(ctx: &mut Ctx) {
    if !ctx.part_enabled("stress") {
        return;
    }
    all_cpus();
    if let Some(c) = ctx.replay_case::<StressCase>("stress") {
        // timing dependent: give the replay a few attempts
        for _ in 0..10 {
            if !exec(ctx, &c) {
                break;
            }
        }
        return;
    }
    let updates = ctx.scale(200_000u64, 5_000_000);
    let rounds = ctx.scale(2u64, 2);
    // the type list ends with the small type of the other parts; the stress grid is 12 x 6
    let ntypes = 72;
    let mut i = 0u64;
    for round in 0..rounds {
        for ty in 0..ntypes {
            for flavor in 0..3u8 {
                i += 1;
                if !ctx.mine(i) {
                    continue;
                }
                let align: usize = payload::TYPE_NAMES[ty].rsplit('a').next().unwrap().parse().unwrap();
                if flavor != 0 && align > 8 && ctx.is_open_finding(crate::sut::OVERALIGNED) {
                    // known-defective input: the blackboard refuses such a value type at creation
                    ctx.count_excluded(crate::sut::OVERALIGNED);
                    continue;
                }
                let c = StressCase {
                    ty,
                    ty_name: payload::TYPE_NAMES[ty].to_string(),
                    flavor,
                    readers: 1 + ((i + round) % 2) as usize,
                    updates,
                    min_reads: updates / 4,
                    seed: vcore::rng::mix(ctx.stream_seed("stress"), i),
                };
                if !exec(ctx, &c) {
                    return;
                }
            }
        }
    }
}
