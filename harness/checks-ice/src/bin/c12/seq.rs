//! Sequential part (vhist): generated histories over the public blackboard API against a model.
//!  * a second `Writer` is refused with exactly `ExceedsMaxSupportedWriters` as long as the first
//!    one or one of its write handles is alive (conformance test
//!    `entry_handle_mut_prevents_another_writer`), readers beyond `max_readers` with
//!    `ExceedsMaxSupportedReaders`; the registry counts do not move on a refusal;
//!  * a second `EntryHandleMut` for a key -> `HandleAlreadyExists`, the first keeps working, after
//!    dropping it a new one can be created; unknown key or wrong value type -> `EntryDoesNotExist`
//!    on both sides;
//!  * every `get` returns the value of the last published update of that key — a discarded loan
//!    (also one that was scribbled on) leaves the value unchanged; `is_up_to_date` is exact.
use crate::payload::{Payload, V8a8, V64a8, V65a1};
use checks_ice::domain::Domain;
use iceoryx2::port::reader::{BlackboardValue, EntryHandle, EntryHandleError, Reader, ReaderCreateError};
use iceoryx2::port::writer::{EntryHandleMut, EntryHandleMutError, Writer, WriterCreateError};
use iceoryx2::prelude::*;
use iceoryx2::service::port_factory::blackboard::PortFactory as BbFactory;
use proptest::prelude::*;
use serde::{Deserialize, Serialize};
use vcore::util::idx;
use vcore::{Ctx, Failure, Obs, ensure, fail};

#[derive(Clone, Debug, Serialize, Deserialize)]
pub enum Op {
    NewWriter { second: bool },
    DropWriter,
    NewReader { second: bool },
    DropReader(u16),
    /// key 0..2 exist (types A, B, C), key 3 does not; ty 0..2 = A, B, C, 3 = u64 (never stored)
    WEntry { key: u8, ty: u8 },
    DropWEntry(u16),
    /// how: 0 copy, 1 loan + update_with_copy, 2 loan + value_mut + assume_init_and_update,
    /// 3 loan + discard, 4 loan + scribble + discard
    Update { h: u16, how: u8 },
    REntry { r: u16, key: u8, ty: u8 },
    DropREntry(u16),
    Get(u16),
    UpToDate(u16),
    OpenSecond,
    DropSecond,
}

#[derive(Clone, Debug, Serialize, Deserialize)]
pub struct SeqCase {
    pub max_readers: usize,
    pub ops: Vec<Op>,
}

pub fn strategy(max_ops: usize) -> impl Strategy<Value = SeqCase> {
    let op = prop_oneof![
        3 => any::<bool>().prop_map(|second| Op::NewWriter { second }),
        1 => Just(Op::DropWriter),
        3 => any::<bool>().prop_map(|second| Op::NewReader { second }),
        1 => any::<u16>().prop_map(Op::DropReader),
        6 => (prop_oneof![5 => 0u8..3, 1 => Just(3u8)], 0u8..4, prop::bool::weighted(0.75)).prop_map(|(key, ty, right)| Op::WEntry { key, ty: if right && key < 3 { key } else { ty } }),
        2 => any::<u16>().prop_map(Op::DropWEntry),
        8 => (any::<u16>(), 0u8..5).prop_map(|(h, how)| Op::Update { h, how }),
        4 => (any::<u16>(), prop_oneof![5 => 0u8..3, 1 => Just(3u8)], 0u8..4, prop::bool::weighted(0.75)).prop_map(|(r, key, ty, right)| Op::REntry { r, key, ty: if right && key < 3 { key } else { ty } }),
        1 => any::<u16>().prop_map(Op::DropREntry),
        6 => any::<u16>().prop_map(Op::Get),
        3 => any::<u16>().prop_map(Op::UpToDate),
        1 => Just(Op::OpenSecond),
        1 => Just(Op::DropSecond),
    ];
    (0usize..=4, proptest::collection::vec(op, 1..max_ops)).prop_map(|(max_readers, ops)| SeqCase { max_readers, ops })
}

type A = V8a8;
type B = V65a1;
type C = V64a8;

enum WH<S: Service> {
    A(EntryHandleMut<S, u64, A>),
    B(EntryHandleMut<S, u64, B>),
    C(EntryHandleMut<S, u64, C>),
}

enum RH<S: Service> {
    A(EntryHandle<S, u64, A>, Option<(BlackboardValue<A>, u64)>),
    B(EntryHandle<S, u64, B>, Option<(BlackboardValue<B>, u64)>),
    C(EntryHandle<S, u64, C>, Option<(BlackboardValue<C>, u64)>),
}

fn update<S: Service, T: Payload>(h: EntryHandleMut<S, u64, T>, how: u8, seq: u64) -> EntryHandleMut<S, u64, T> {
    let v = T::make(seq);
    match how {
        0 => {
            h.update_with_copy(v);
            h
        }
        1 => h.loan_uninit().update_with_copy(v),
        2 => {
            let mut u = h.loan_uninit();
            u.value_mut().write(v);
            unsafe { u.assume_init_and_update() }
        }
        3 => h.loan_uninit().discard(),
        _ => {
            let mut u = h.loan_uninit();
            u.value_mut().write(T::poison());
            u.discard()
        }
    }
}

fn read<S: Service, T: Payload>(h: &EntryHandle<S, u64, T>, key: u8, expect: u64) -> Result<BlackboardValue<T>, Failure> {
    let v = h.get();
    match v.check() {
        Err(what) => fail!("seq.get_garbage", "get of key {key} returned bytes of no write (expected seq {expect}): {what}"),
        Ok(t) => {
            let bits = crate::payload::seq_bits(T::N);
            let mask = if bits >= 64 { u64::MAX } else { (1 << bits) - 1 };
            ensure!(t == expect & mask, "seq.get_wrong_value", "get of key {key} returned seq {t}, the last published update is seq {expect}");
        }
    }
    Ok(v)
}

fn pick<'a, S: Service>(first: &'a BbFactory<S, u64>, second: &'a Option<BbFactory<S, u64>>, sec: bool) -> &'a BbFactory<S, u64> {
    match (second, sec) {
        (Some(s), true) => s,
        _ => first,
    }
}

fn run<S: Service>(c: &SeqCase, obs: &mut Obs) -> Result<(), Failure> {
    let domain = Domain::new();
    let r = run_in::<S>(c, obs, &domain);
    domain.cleanup();
    r
}

fn run_in<S: Service>(c: &SeqCase, obs: &mut Obs, domain: &Domain) -> Result<(), Failure> {
    let setup = |what: &str, e: String| Failure::new("setup", format!("{what}: {e}"));
    let node = NodeBuilder::new().config(&domain.config).create::<S>().map_err(|e| setup("node", format!("{e:?}")))?;
    let node2 = NodeBuilder::new().config(&domain.config).create::<S>().map_err(|e| setup("node", format!("{e:?}")))?;
    let name = ServiceName::new("c12seq").unwrap();
    let first: BbFactory<S, u64> = node
        .service_builder(&name)
        .blackboard_creator::<u64>()
        .max_readers(c.max_readers)
        .add::<A>(0, A::make(0))
        .add::<B>(1, B::make(0))
        .add::<C>(2, C::make(0))
        .create()
        .map_err(|e| setup("blackboard", format!("{e:?}")))?;
    let max_readers = first.static_config().max_readers();
    ensure!(max_readers == c.max_readers.max(1), "seq.max_readers_clamp", "max_readers({}) reads back as {max_readers}", c.max_readers);
    let mut second: Option<BbFactory<S, u64>> = None;
    let mut writer: Option<Writer<S, u64>> = None;
    let mut whandles: Vec<(WH<S>, u8)> = vec![];
    let mut readers: Vec<Reader<S, u64>> = vec![];
    let mut rhandles: Vec<(RH<S>, u8)> = vec![];
    let mut vals = [0u64; 3];
    let (mut refused, mut lifted) = ([false; 3], [false; 3]); // writer, reader, handle
    let mut wrong = false;
    let mut discards = 0;
    for (step, op) in c.ops.iter().enumerate() {
        let at = |f: Failure| Failure::new(f.signature, format!("step {step} {op:?}: {}", f.message));
        (|| -> Result<(), Failure> {
            match op {
                Op::NewWriter { second: sec } => {
                    let busy = writer.is_some() || !whandles.is_empty();
                    if writer.is_some() {
                        // keep the first one: the attempt must fail
                        match pick(&first, &second, *sec).writer_builder().create() {
                            Err(WriterCreateError::ExceedsMaxSupportedWriters) => refused[0] = true,
                            Err(e) => fail!("seq.second_writer", "second writer refused with {e:?} instead of ExceedsMaxSupportedWriters"),
                            Ok(_) => fail!("seq.second_writer", "a second writer was created while the first exists"),
                        }
                    } else {
                        match pick(&first, &second, *sec).writer_builder().create() {
                            Ok(w) => {
                                ensure!(!busy, "seq.second_writer", "a writer was created while write handles of the dropped writer are alive");
                                if refused[0] {
                                    lifted[0] = true;
                                }
                                writer = Some(w);
                            }
                            Err(WriterCreateError::ExceedsMaxSupportedWriters) if busy => refused[0] = true,
                            Err(e) => fail!("seq.writer_create", "writer creation failed with {e:?} although no writer and no write handle exists"),
                        }
                    }
                }
                Op::DropWriter => writer = None,
                Op::NewReader { second: sec } => match pick(&first, &second, *sec).reader_builder().create() {
                    Ok(r) => {
                        ensure!(readers.len() < max_readers, "seq.reader_limit", "reader {} created with max_readers {max_readers}", readers.len() + 1);
                        if refused[1] {
                            lifted[1] = true;
                        }
                        readers.push(r);
                    }
                    Err(ReaderCreateError::ExceedsMaxSupportedReaders) => {
                        ensure!(readers.len() >= max_readers, "seq.reader_limit", "reader refused with {} of {max_readers} readers", readers.len());
                        refused[1] = true;
                    }
                    Err(e) => fail!("seq.reader_create", "reader creation failed with {e:?}"),
                },
                Op::DropReader(i) => {
                    if !readers.is_empty() {
                        readers.remove(idx(*i, readers.len()));
                    }
                }
                Op::WEntry { key, ty } => {
                    let Some(w) = &writer else { return Ok(()) };
                    let k = if *key == 3 { 77u64 } else { *key as u64 };
                    let exists = *key < 3 && *ty == *key;
                    let held = whandles.iter().any(|(_, hk)| hk == key);
                    let r: Result<Option<WH<S>>, EntryHandleMutError> = match ty {
                        0 => w.entry::<A>(&k).map(|h| Some(WH::A(h))),
                        1 => w.entry::<B>(&k).map(|h| Some(WH::B(h))),
                        2 => w.entry::<C>(&k).map(|h| Some(WH::C(h))),
                        _ => w.entry::<u64>(&k).map(|_| None),
                    };
                    match r {
                        Ok(h) => {
                            ensure!(exists, "seq.wentry_wrong", "write handle for key {k} with value type {ty} was handed out");
                            ensure!(!held, "seq.second_handle", "a second write handle for key {k} was handed out");
                            if refused[2] {
                                lifted[2] = true;
                            }
                            whandles.push((h.unwrap(), *key));
                        }
                        Err(EntryHandleMutError::EntryDoesNotExist) => {
                            ensure!(!exists, "seq.wentry_refused", "write handle for the existing key {k} with its type refused with EntryDoesNotExist");
                            wrong = true;
                        }
                        Err(EntryHandleMutError::HandleAlreadyExists) => {
                            ensure!(exists && held, "seq.wentry_refused", "write handle for key {k} type {ty} refused with HandleAlreadyExists (key+type exists: {exists}, handle alive: {held})");
                            refused[2] = true;
                        }
                    }
                }
                Op::DropWEntry(i) => {
                    if !whandles.is_empty() {
                        whandles.remove(idx(*i, whandles.len()));
                    }
                }
                Op::Update { h, how } => {
                    if whandles.is_empty() {
                        return Ok(());
                    }
                    let i = idx(*h, whandles.len());
                    let (wh, key) = whandles.remove(i);
                    let publish = *how <= 2;
                    let seq = vals[key as usize] + 1;
                    let wh = match wh {
                        WH::A(h) => WH::A(update(h, *how, seq)),
                        WH::B(h) => WH::B(update(h, *how, seq)),
                        WH::C(h) => WH::C(update(h, *how, seq)),
                    };
                    if publish {
                        vals[key as usize] = seq;
                    } else {
                        discards += 1;
                    }
                    whandles.insert(i, (wh, key));
                }
                Op::REntry { r, key, ty } => {
                    if readers.is_empty() {
                        return Ok(());
                    }
                    let rd = &readers[idx(*r, readers.len())];
                    let k = if *key == 3 { 77u64 } else { *key as u64 };
                    let exists = *key < 3 && *ty == *key;
                    let res: Result<Option<RH<S>>, EntryHandleError> = match ty {
                        0 => rd.entry::<A>(&k).map(|h| Some(RH::A(h, None))),
                        1 => rd.entry::<B>(&k).map(|h| Some(RH::B(h, None))),
                        2 => rd.entry::<C>(&k).map(|h| Some(RH::C(h, None))),
                        _ => rd.entry::<u64>(&k).map(|_| None),
                    };
                    match res {
                        Ok(h) => {
                            ensure!(exists, "seq.rentry_wrong", "read handle for key {k} with value type {ty} was handed out");
                            rhandles.push((h.unwrap(), *key));
                        }
                        Err(EntryHandleError::EntryDoesNotExist) => {
                            ensure!(!exists, "seq.rentry_refused", "read handle for the existing key {k} with its type refused");
                            wrong = true;
                        }
                    }
                }
                Op::DropREntry(i) => {
                    if !rhandles.is_empty() {
                        rhandles.remove(idx(*i, rhandles.len()));
                    }
                }
                Op::Get(i) => {
                    if rhandles.is_empty() {
                        return Ok(());
                    }
                    let n = rhandles.len();
                    let (rh, key) = &mut rhandles[idx(*i, n)];
                    let e = vals[*key as usize];
                    match rh {
                        RH::A(h, last) => *last = Some((read(h, *key, e)?, e)),
                        RH::B(h, last) => *last = Some((read(h, *key, e)?, e)),
                        RH::C(h, last) => *last = Some((read(h, *key, e)?, e)),
                    }
                }
                Op::UpToDate(i) => {
                    if rhandles.is_empty() {
                        return Ok(());
                    }
                    let n = rhandles.len();
                    let (rh, key) = &rhandles[idx(*i, n)];
                    let now = vals[*key as usize];
                    let (got, then) = match rh {
                        RH::A(h, Some((v, s))) => (h.is_up_to_date(v), *s),
                        RH::B(h, Some((v, s))) => (h.is_up_to_date(v), *s),
                        RH::C(h, Some((v, s))) => (h.is_up_to_date(v), *s),
                        _ => return Ok(()),
                    };
                    ensure!(got == (then == now), "seq.up_to_date", "is_up_to_date says {got} for a value of seq {then} while the last published update of key {key} is seq {now}");
                }
                Op::OpenSecond => {
                    if second.is_none() {
                        match node2.service_builder(&name).blackboard_opener::<u64>().open() {
                            Ok(s) => second = Some(s),
                            Err(e) => fail!("seq.open", "second node could not open the blackboard: {e:?}"),
                        }
                    }
                }
                Op::DropSecond => second = None,
            }
            // the registry agrees with the model after every step (in particular after a refusal)
            let dc = first.dynamic_config();
            let busy = writer.is_some() || !whandles.is_empty();
            ensure!(dc.number_of_writers() == busy as usize, "seq.registry", "number_of_writers {} with writer alive {} and {} write handles", dc.number_of_writers(), writer.is_some(), whandles.len());
            ensure!(dc.number_of_readers() == readers.len(), "seq.registry", "number_of_readers {} with {} readers alive", dc.number_of_readers(), readers.len());
            Ok(())
        })()
        .map_err(at)?;
    }
    // everything that is still open must still work: one more update and get per handle
    for (i, (wh, key)) in std::mem::take(&mut whandles).into_iter().enumerate() {
        let seq = vals[key as usize] + 1;
        let _keep = match wh {
            WH::A(h) => WH::A(update(h, (i % 3) as u8, seq)),
            WH::B(h) => WH::B(update(h, (i % 3) as u8, seq)),
            WH::C(h) => WH::C(update(h, (i % 3) as u8, seq)),
        };
        vals[key as usize] = seq;
    }
    for (rh, key) in rhandles.iter() {
        let e = vals[*key as usize];
        let f = |f: Failure| Failure::new(f.signature, format!("final read: {}", f.message));
        match rh {
            RH::A(h, _) => drop(read(h, *key, e).map_err(f)?),
            RH::B(h, _) => drop(read(h, *key, e).map_err(f)?),
            RH::C(h, _) => drop(read(h, *key, e).map_err(f)?),
        }
    }
    for (k, n) in [("writer", 0), ("reader", 1), ("write_handle", 2)] {
        if refused[n] {
            obs.class(match k {
                "writer" => "seq_second_writer_refused",
                "reader" => "seq_reader_limit_refused",
                _ => "seq_second_write_handle_refused",
            });
        }
        if lifted[n] {
            obs.class(match k {
                "writer" => "seq_writer_created_after_refusal",
                "reader" => "seq_reader_created_after_refusal",
                _ => "seq_write_handle_created_after_refusal",
            });
        }
    }
    if wrong {
        obs.class("seq_unknown_key_or_wrong_type");
    }
    if discards > 0 {
        obs.class("seq_discarded_loan");
    }
    obs.nontrivial = lifted.iter().any(|l| *l) || (refused.iter().any(|r| *r) && discards > 0);
    Ok(())
}

pub fn parts(ctx: &mut Ctx) {
    let n = ctx.scale(16_000u64, 400_000);
    ctx.proptest("seq.local", n, strategy(ctx.scale(60, 120)), |c, obs| run::<local::Service>(c, obs));
    let n = ctx.scale(4_000u64, 80_000);
    ctx.proptest("seq.ipc", n, strategy(ctx.scale(60, 120)), |c, obs| run::<ipc::Service>(c, obs));
}
