//! Part 2 — isolation between two domain configurations.
//!
//! Domain A and domain B are configured with prefixes (p, q) and roots in a generated relation.
//! Both get a small population created by this process (nodes, services of the four patterns with
//! their ports), optionally a dead node (a child process that joined the domain and was killed)
//! and optionally a whole application life cycle executed by a traced child process in domain B.
//!
//! Oracle (a) location: every file system object that appears while a domain's population is
//! created lies under that domain's root; every file (not directory) name and every /dev/shm name
//! starts with the domain's prefix ("prefix that is used for every file iceoryx2 creates");
//! directories under the root are exempt from the prefix rule (`nodes/`, `services/`, `nodes/<id>/`
//! carry none, the documentation speaks of files). For the traced child the same rule is applied to
//! the path argument of every open/creat/mkdir/unlink/rename/chmod system call.
//! Oracle (b) non-interference: `Node::list`, `Service::list`, `does_exist`, `open` issued with the
//! configuration of one domain return exactly that domain's population; creating a service whose
//! name is in use in the other domain succeeds; dead-node cleanup, a complete application life
//! cycle and the orderly shutdown of one domain leave every file / shm object of the other domain
//! in place and all its services usable.
//! Control: equal prefix and equal root is one domain — then B must see all of A.
use crate::child;
use crate::pop::{self, Live, Mode, NodeEntry, Ports, S};
use crate::validation::Known;
use iceoryx2::prelude::*;
use serde::{Deserialize, Serialize};
use std::collections::BTreeSet;
use std::io::BufRead;
use std::path::{Path, PathBuf};
use std::sync::atomic::{AtomicU64, Ordering};
use vcore::rng::SplitMix;
use vcore::{Ctx, Failure, Obs, ensure, fail};
use vice::domain::Domain;
use vice::vtrace;

/// DESIGN §6 row 5: same root, longer prefix = shorter prefix + decimal digits → the node listing of
/// the shorter-prefix domain reports the other domain's nodes under the id "digits + real id"
pub const SIG_NODE_DIGITS: &str = "isolation.node_list_sees_foreign_node_when_prefix_extended_by_digits";
/// equal prefix, different roots: the shared-memory objects of a service carry no trace of the root
pub const SIG_SHM_SHARED: &str = "isolation.equal_prefix_different_root_shares_shm_namespace";

const NAMES: [&str; 4] = ["svc/a", "b", "My/Funk/ServiceName", "svc/a/x"];
const BODIES: [&str; 6] = ["_", "", "a_", "7", ".", "-x"];
const EXT_B64: &[u8] = b"aZ_-qB";
const EXT_OTHER: &[u8] = b".+,~@=";

#[derive(Clone, Debug, Serialize, Deserialize, PartialEq)]
pub struct SvcSpec {
    pub name: u8,
    pub pattern: u8,
    pub ports: bool,
}

#[derive(Clone, Debug, Serialize, Deserialize, PartialEq)]
pub struct PopSpec {
    pub extra_node: bool,
    pub services: Vec<SvcSpec>,
    /// a dead node: (pattern, name) of the service its process had joined / created
    pub dead: Option<(u8, u8)>,
}

#[derive(Clone, Debug, Serialize, Deserialize, PartialEq)]
pub struct IsoCase {
    /// 0 equal, 1 same length / last character differs, 2 q = p + decimal digits,
    /// 3 q = p + base64url characters (no digit first), 4 q = p + other file-name characters, 5 unrelated
    pub prefix_rel: u8,
    pub body: u8,
    pub ext: Vec<u8>,
    /// the longer prefix belongs to domain A (created first) instead of B
    pub swap: bool,
    /// 0 same root, 1 sibling roots, 2 B's root = A's root/sub, 3 = A's root/nodes/in, 4 = A's root/services/in
    pub root_rel: u8,
    pub a: PopSpec,
    pub b: PopSpec,
    /// application life cycle in a traced child process in domain B: (pattern, name)
    pub trace: Option<(u8, u8)>,
}

static COUNTER: AtomicU64 = AtomicU64::new(1);

fn gen_pop(r: &mut SplitMix) -> PopSpec {
    let n = r.below(4) as usize;
    let mut services: Vec<SvcSpec> = vec![];
    for _ in 0..n {
        let s = SvcSpec { name: r.below(NAMES.len() as u64) as u8, pattern: r.below(4) as u8, ports: r.chance(3, 4) };
        if !services.iter().any(|x| x.name == s.name && x.pattern == s.pattern) {
            services.push(s);
        }
    }
    PopSpec { extra_node: r.chance(1, 3), services, dead: if r.chance(2, 5) { Some((r.below(4) as u8, r.below(NAMES.len() as u64) as u8)) } else { None } }
}

pub fn generate(r: &mut SplitMix, stratum: u64) -> IsoCase {
    let prefix_rel = (stratum % 6) as u8;
    let root_rel = ((stratum / 6) % 5) as u8;
    let nex = r.range(1, 3) as usize;
    IsoCase {
        prefix_rel,
        body: r.below(BODIES.len() as u64) as u8,
        ext: (0..nex).map(|_| r.below(256) as u8).collect(),
        swap: r.chance(1, 2),
        root_rel,
        a: gen_pop(r),
        b: gen_pop(r),
        trace: if r.chance(1, 2) { Some((r.below(4) as u8, r.below(NAMES.len() as u64) as u8)) } else { None },
    }
}

struct Rel {
    same_domain: bool,
    same_root: bool,
    /// Some((shorter is A, extension)) when one prefix is a proper prefix of the other
    extension: Option<(bool, String)>,
}

fn prefixes(c: &IsoCase, n: u64) -> (String, String) {
    let pid = std::process::id();
    let body = BODIES[c.body as usize % BODIES.len()];
    let base = format!("v{pid}x{n}k{body}");
    let ext = |alpha: &[u8]| -> String { c.ext.iter().map(|e| alpha[*e as usize % alpha.len()] as char).collect() };
    let (p, q) = match c.prefix_rel % 6 {
        0 => (base.clone(), base),
        1 => (format!("{base}a"), format!("{base}b")),
        2 => (base.clone(), format!("{base}{}", ext(b"0123456789"))),
        3 => (base.clone(), format!("{base}{}", ext(EXT_B64))),
        4 => (base.clone(), format!("{base}{}", ext(EXT_OTHER))),
        _ => (format!("{base}m"), format!("v{pid}x{n}kk{body}")),
    };
    if c.swap { (q, p) } else { (p, q) }
}

struct Svc {
    name: String,
    pattern: u8,
    live: Live,
}

struct Dead {
    id: u128,
    name: String,
    pattern: u8,
    cleaned: bool,
}

struct Pop {
    tag: &'static str,
    dom: Domain,
    nodes: Vec<Node<S>>,
    services: Vec<Svc>,
    dead: Option<Dead>,
    /// what appeared while this population was created
    files: BTreeSet<PathBuf>,
    shm: BTreeSet<String>,
}

fn scan_files(roots: &[&Path]) -> BTreeSet<PathBuf> {
    let mut out = BTreeSet::new();
    for r in roots {
        let mut v = vec![];
        vcore::util::list_dir_recursive(r, &mut v);
        out.extend(v);
    }
    out
}

fn scan_shm(base: &str) -> BTreeSet<String> {
    let mut out = BTreeSet::new();
    if let Ok(rd) = std::fs::read_dir("/dev/shm") {
        for e in rd.flatten() {
            let n = e.file_name().to_string_lossy().to_string();
            if n.starts_with(base) {
                out.insert(n);
            }
        }
    }
    out
}

fn is_decimal(s: &str) -> bool {
    !s.is_empty() && s.bytes().all(|b| b.is_ascii_digit())
}

/// location rule for one path that iceoryx2 touched on behalf of the domain (root, prefix);
/// `is_dir`: Some(true/false) when known (scan), None when only the path is known (trace)
fn location_rule(path: &str, is_dir: Option<bool>, root: &str, prefix: &str, harness_dirs: &[String]) -> Result<(), String> {
    // the harness keeps its run directories (and with them the domain roots) on tmpfs under
    // /dev/shm/verif-run: a path under the root is a file of the root, not a shm object
    let under_root = path == root || path.starts_with(&format!("{root}/"));
    if let Some(name) = path.strip_prefix("/dev/shm/").filter(|_| !under_root) {
        if name.is_empty() || name.starts_with(prefix) {
            return Ok(());
        }
        return Err(format!("shared memory object '{name}' does not start with the prefix '{prefix}'"));
    }
    if path == "/dev/shm" {
        return Ok(());
    }
    let rel = if path == root {
        ""
    } else if let Some(r) = path.strip_prefix(&format!("{root}/")) {
        r
    } else {
        return Err(format!("'{path}' is outside the configured root '{root}'"));
    };
    if rel.is_empty() || harness_dirs.iter().any(|d| d == path) {
        return Ok(());
    }
    let comps: Vec<&str> = rel.split('/').collect();
    let last = comps[comps.len() - 1];
    let dir_shape = matches!(comps.as_slice(), ["nodes"] | ["services"]) || (comps.len() == 2 && comps[0] == "nodes" && is_decimal(comps[1]));
    match is_dir {
        Some(true) => {
            if dir_shape {
                Ok(())
            } else {
                Err(format!("unexpected directory '{rel}' under the root"))
            }
        }
        Some(false) => {
            if last.starts_with(prefix) {
                Ok(())
            } else {
                Err(format!("file '{rel}' under the root does not start with the prefix '{prefix}'"))
            }
        }
        None => {
            if dir_shape || last.starts_with(prefix) {
                Ok(())
            } else {
                Err(format!("'{rel}' under the root is neither one of the documented directories nor does its last component start with the prefix '{prefix}'"))
            }
        }
    }
}

/// system locations a process may read without creating anything there
fn readonly_system_path(p: &str) -> bool {
    ["/proc/", "/sys/", "/etc/", "/usr/", "/lib", "/dev/urandom", "/dev/random", "/dev/null", "/dev/tty"].iter().any(|s| p.starts_with(s))
}

struct World<'a> {
    known: &'a Known,
    base: String,
    harness_dirs: Vec<String>,
    sandbox_root: PathBuf,
    sandbox_prefix: String,
    global_toml: PathBuf,
}

fn spawn_victim(dom: &Domain, pattern: u8, name: &str, w: &World) -> Result<u128, Failure> {
    let exe = std::env::current_exe().unwrap();
    let mut child = std::process::Command::new(exe)
        .args(["--c19-child", dom.root.to_str().unwrap(), &dom.prefix, "victim", &pattern.to_string(), name])
        .env("VERIF_C19_GLOBAL", &w.global_toml)
        .stdin(std::process::Stdio::null())
        .stdout(std::process::Stdio::piped())
        .stderr(std::process::Stdio::piped())
        .spawn()
        .map_err(|e| Failure::new("harness.victim_spawn", format!("{e}")))?;
    let mut line = String::new();
    let n = std::io::BufReader::new(child.stdout.take().unwrap()).read_line(&mut line).unwrap_or(0);
    let id = line.trim().parse::<u128>().ok();
    let _ = child.kill();
    let _ = child.wait();
    match id {
        Some(id) if n > 0 => Ok(id),
        _ => {
            let mut err = String::new();
            if let Some(mut e) = child.stderr.take() {
                use std::io::Read;
                let _ = e.read_to_string(&mut err);
            }
            Err(Failure::new("pop.victim", format!("the process that should join domain '{}' with a {} service '{name}' did not come up: {}", dom.prefix, pop::PATTERNS[pattern as usize % 4], err.trim())))
        }
    }
}

impl Pop {
    fn cfg(&self) -> &iceoryx2::config::Config {
        &self.dom.config
    }

    fn expected_nodes(&self) -> Vec<NodeEntry> {
        let mut v: Vec<NodeEntry> = self.nodes.iter().map(|n| NodeEntry { state: "Alive", id: n.id().value() }).collect();
        if let Some(d) = &self.dead {
            if !d.cleaned {
                v.push(NodeEntry { state: "Dead", id: d.id });
            }
        }
        v
    }

    fn expected_services(&self) -> Vec<(String, String)> {
        let mut v: Vec<(String, String)> = self.services.iter().map(|s| (s.name.clone(), pop::PATTERNS[s.pattern as usize % 4].to_string())).collect();
        if let Some(d) = &self.dead {
            let e = (d.name.clone(), pop::PATTERNS[d.pattern as usize % 4].to_string());
            if !d.cleaned && !v.contains(&e) {
                v.push(e);
            }
        }
        v
    }

    fn probe_all(&self, v: u64, sig: &str, when: &str) -> Result<(), Failure> {
        for s in &self.services {
            s.live.probe(v).map_err(|e| Failure::new(sig, format!("{when}: the {} service '{}' of domain {} (prefix '{}') no longer works: {e}", pop::PATTERNS[s.pattern as usize % 4], s.name, self.tag, self.dom.prefix)))?;
        }
        Ok(())
    }

    fn shutdown(&mut self) {
        for s in self.services.drain(..) {
            s.live.shutdown();
        }
        self.nodes.clear();
    }
}

fn blocked(foreign_present: bool, shm_shared: bool, msg: String) -> Failure {
    if shm_shared {
        Failure::new(SIG_SHM_SHARED, msg)
    } else if foreign_present {
        Failure::new("isolation.create_blocked_by_foreign_domain", msg)
    } else {
        Failure::new("pop.create", msg)
    }
}

/// creates the population of one domain; `other`: the population that exists already
fn create_pop(tag: &'static str, dom: Domain, spec: &PopSpec, other: Option<&Pop>, rel: &Rel, w: &World, roots: &[&Path]) -> Result<Pop, (Pop, Failure)> {
    let files_before = scan_files(roots);
    let shm_before = scan_shm(&w.base);
    let foreign_present = other.is_some() && !rel.same_domain;
    let shm_shared = foreign_present && !rel.same_root && other.map(|o| o.dom.prefix == dom.prefix).unwrap_or(false);
    let foreign_services: Vec<(String, String)> = other.map(|o| o.expected_services()).unwrap_or_default();
    let whoami = format!("domain {tag} (prefix '{}', root {}){}", dom.prefix, dom.root.display(), other.map(|o| format!(" next to domain {} (prefix '{}', root {})", o.tag, o.dom.prefix, o.dom.root.display())).unwrap_or_default());
    let mut pop = Pop { tag, dom, nodes: vec![], services: vec![], dead: None, files: BTreeSet::new(), shm: BTreeSet::new() };
    let mut build = || -> Result<(), Failure> {
        for _ in 0..(1 + spec.extra_node as usize) {
            let n = NodeBuilder::new().config(&pop.dom.config).create::<S>().map_err(|e| blocked(foreign_present, false, format!("node creation in {whoami} fails: {e:?}")))?;
            pop.nodes.push(n);
        }
        for (i, s) in spec.services.iter().enumerate() {
            let name = NAMES[s.name as usize % NAMES.len()];
            let pat = pop::PATTERNS[s.pattern as usize % 4];
            let sn: ServiceName = name.try_into().unwrap();
            let exists_in_same_domain = rel.same_domain && foreign_services.contains(&(name.to_string(), pat.to_string()));
            let (mode, ports) = if exists_in_same_domain { (Mode::Open, if s.ports { Ports::ReceivingSide } else { Ports::None }) } else { (Mode::Create, if s.ports { Ports::Both } else { Ports::None }) };
            let live = pop::build(&pop.nodes[i % pop.nodes.len()], &sn, s.pattern, mode, ports).map_err(|e| {
                let same_name = foreign_services.iter().any(|(n, _)| n == name);
                blocked(foreign_present, shm_shared, format!("{mode:?} of the {pat} service '{name}' in {whoami} fails: {e}{}", if same_name { "; the other domain uses the same service name" } else { "" }))
            })?;
            pop.services.push(Svc { name: name.to_string(), pattern: s.pattern, live });
        }
        if let Some((pattern, name)) = spec.dead {
            let name = NAMES[name as usize % NAMES.len()];
            let id = spawn_victim(&pop.dom, pattern, name, w).map_err(|f| if f.signature == "pop.victim" { blocked(foreign_present, shm_shared, format!("{} ({whoami})", f.message)) } else { f })?;
            pop.dead = Some(Dead { id, name: name.to_string(), pattern, cleaned: false });
        }
        Ok(())
    };
    let r = build();
    pop.files = scan_files(roots).difference(&files_before).cloned().collect();
    pop.shm = scan_shm(&w.base).difference(&shm_before).cloned().collect();
    match r {
        Ok(()) => Ok(pop),
        Err(f) => Err((pop, f)),
    }
}

fn check_location(pop: &Pop, w: &World) -> Result<(), Failure> {
    let root = pop.dom.root.to_str().unwrap();
    for f in &pop.files {
        let p = f.to_str().unwrap_or("");
        // the files may be gone again (temporary objects): the rule is about names, not existence
        let is_dir = if f.is_dir() { Some(true) } else if f.exists() { Some(false) } else { None };
        location_rule(p, is_dir, root, &pop.dom.prefix, &w.harness_dirs).map_err(|e| Failure::new("location.in_process", format!("creating the population of domain {} (prefix '{}', root {root}): {e}", pop.tag, pop.dom.prefix)))?;
    }
    for n in &pop.shm {
        ensure!(n.starts_with(&pop.dom.prefix), "location.in_process", "creating the population of domain {} made the shared memory object '{n}' which does not start with the prefix '{}'", pop.tag, pop.dom.prefix);
    }
    Ok(())
}

/// The ids under which one domain is known to see the nodes of the other one when the prefixes
/// differ by decimal digits `ext` and the root is shared (the file name '<prefix><id>.node_monitor'
/// is ambiguous): the shorter-prefix domain sees every foreign node n as ext+n; the longer-prefix
/// domain sees those foreign nodes whose id happens to start with ext, as the rest of the digits.
fn digit_aliases(ext: &str, i_am_shorter: bool, foreign: &[NodeEntry]) -> Vec<u128> {
    foreign
        .iter()
        .filter_map(|n| {
            let id = n.id.to_string();
            if i_am_shorter { format!("{ext}{id}").parse::<u128>().ok() } else { id.strip_prefix(ext).and_then(|r| r.parse::<u128>().ok()) }
        })
        .collect()
}

fn observe(me: &Pop, other: &Pop, rel: &Rel, when: &str, w: &World, extra_nodes: &[NodeEntry], extra_services: &[(String, String)]) -> Result<(), Failure> {
    let who = format!("{when}: domain {} (prefix '{}', root {}) next to domain {} (prefix '{}', root {})", me.tag, me.dom.prefix, me.dom.root.display(), other.tag, other.dom.prefix, other.dom.root.display());
    // ---- nodes
    let (got, _) = pop::list_nodes(me.cfg()).map_err(|e| Failure::new("isolation.node_list_error", format!("{who}: {e}")))?;
    let mut want = me.expected_nodes();
    want.extend_from_slice(extra_nodes);
    let foreign = other.expected_nodes();
    if rel.same_domain {
        want.extend(foreign.iter().cloned());
    }
    want.sort();
    for g in &got {
        if want.contains(g) {
            continue;
        }
        if let (true, Some((a_shorter, ext))) = (rel.same_root, rel.extension.as_ref()) {
            let i_am_shorter = *a_shorter == (me.tag == "A");
            if is_decimal(ext) && digit_aliases(ext, i_am_shorter, &foreign).contains(&g.id) {
                w.known.hit_or_fail(SIG_NODE_DIGITS, || format!("{who}: Node::list reports {} node {} — that is a node of the other domain (its nodes: {foreign:?}): the monitor file name '<prefix><id>.node_monitor' of one domain also parses with the other prefix, the prefixes differ by the digits '{ext}'", g.state, g.id))?;
                continue;
            }
        }
        if foreign.iter().any(|f| f.id == g.id) {
            fail!("isolation.node_list_sees_foreign_node", "{who}: Node::list reports the other domain's node {} ({})", g.id, g.state);
        }
        fail!("isolation.node_list_unexpected_entry", "{who}: Node::list reports {} node {} which nobody created; own nodes {:?}, foreign nodes {:?}", g.state, g.id, me.expected_nodes(), foreign);
    }
    for x in &want {
        ensure!(got.contains(x), "isolation.node_list_misses_node", "{who}: Node::list does not report {x:?}; it reports {got:?}");
    }
    // ---- services
    let got = pop::list_services(me.cfg()).map_err(|e| Failure::new("isolation.service_list_error", format!("{who}: {e}")))?;
    let mut want = me.expected_services();
    for e in extra_services {
        if !want.contains(e) {
            want.push(e.clone());
        }
    }
    let foreign = other.expected_services();
    if rel.same_domain {
        for f in &foreign {
            if !want.contains(f) {
                want.push(f.clone());
            }
        }
    }
    want.sort();
    if got != want {
        let sees_foreign = got.iter().any(|g| !want.contains(g) && foreign.contains(g)) || got.len() > want.len();
        fail!(if sees_foreign { "isolation.service_list_sees_foreign_service" } else { "isolation.service_list_wrong" }, "{who}: Service::list reports {got:?}, the domain contains {want:?} (the other domain contains {foreign:?})");
    }
    // ---- does_exist, open
    for name in NAMES {
        let sn: ServiceName = name.try_into().unwrap();
        for p in 0..4u8 {
            let key = (name.to_string(), pop::PATTERNS[p as usize].to_string());
            let mine = want.contains(&key);
            let got = S::does_exist(&sn, me.cfg(), pop::messaging_pattern(p)).map_err(|e| Failure::new("isolation.does_exist_error", format!("{who}: does_exist('{name}', {}) fails: {e:?}", pop::PATTERNS[p as usize])))?;
            ensure!(got == mine, if got { "isolation.does_exist_sees_foreign_service" } else { "isolation.does_exist_misses_service" }, "{who}: does_exist('{name}', {}) = {got}; own services {want:?}, foreign services {foreign:?}", pop::PATTERNS[p as usize]);
            if !mine && foreign.contains(&key) {
                match pop::build(&me.nodes[0], &sn, p, Mode::Open, Ports::None) {
                    Ok(l) => {
                        l.shutdown();
                        fail!("isolation.open_reaches_foreign_service", "{who}: opening the {} service '{name}' succeeds although only the other domain has it", pop::PATTERNS[p as usize]);
                    }
                    Err(e) => ensure!(e.contains("DoesNotExist"), "isolation.open_disturbed_by_foreign_service", "{who}: opening the {} service '{name}' that only the other domain has fails with {e}, expected DoesNotExist", pop::PATTERNS[p as usize]),
                }
            }
        }
    }
    Ok(())
}

/// everything of `pop` that existed at `before` still exists
fn intact(pop: &Pop, before_files: &BTreeSet<PathBuf>, before_shm: &BTreeSet<String>, base: &str, sig: &str, what: &str) -> Result<(), Failure> {
    for f in pop.files.intersection(before_files) {
        ensure!(f.exists(), sig, "{what} removed {} which belongs to domain {} (prefix '{}')", f.display(), pop.tag, pop.dom.prefix);
    }
    let now = scan_shm(base);
    for n in pop.shm.intersection(before_shm) {
        ensure!(now.contains(n), sig, "{what} removed the shared memory object {n} which belongs to domain {} (prefix '{}')", pop.tag, pop.dom.prefix);
    }
    Ok(())
}

/// dead-node cleanup issued with the configuration of `me`
fn cleanup(me: &mut Pop, other: &Pop, rel: &Rel, w: &World, roots: &[&Path], obs: &mut Obs) -> Result<(), Failure> {
    let what = format!("dead-node cleanup in domain {} (prefix '{}')", me.tag, me.dom.prefix);
    let before_files = scan_files(roots);
    let before_shm = scan_shm(&w.base);
    let (_, dead) = pop::list_nodes(me.cfg()).map_err(|e| Failure::new("isolation.node_list_error", format!("{what}: {e}")))?;
    let mut results = vec![];
    for v in dead {
        use iceoryx2::node::NodeView;
        let id = v.id().value();
        let own = me.dead.as_ref().map(|d| d.id == id).unwrap_or(false) || (rel.same_domain && other.dead.as_ref().map(|d| d.id == id && !d.cleaned).unwrap_or(false));
        let r = v.try_remove_stale_resources();
        if own {
            ensure!(r.is_ok(), "cleanup.own_dead_node", "{what}: removing the stale resources of its own dead node {id} fails: {r:?}");
            if let Some(d) = me.dead.as_mut() {
                if d.id == id {
                    d.cleaned = true;
                }
            }
            obs.class("iso.own_dead_node_cleaned");
        } else {
            // a node that is not ours was reported dead (only reachable through the known listing defect)
            obs.class("iso.cleanup_attempted_on_foreign_dead_node");
            results.push(format!("{id}: {r:?}"));
        }
    }
    let foreign_sig = if rel.same_root && rel.extension.as_ref().map(|(_, e)| is_decimal(e)).unwrap_or(false) { "isolation.dead_node_cleanup_damages_foreign_node_when_prefix_extended_by_digits" } else { "isolation.cleanup_removes_foreign_resources" };
    if !rel.same_domain {
        intact(other, &before_files, &before_shm, &w.base, foreign_sig, &format!("{what} (attempts on foreign nodes: {results:?})"))?;
    }
    Ok(())
}

fn trace_child(c: &IsoCase, a: &Pop, b: &Pop, rel: &Rel, w: &World, n: u64, obs: &mut Obs) -> Result<(), Failure> {
    let Some((pattern, name)) = c.trace else { return Ok(()) };
    let name = NAMES[name as usize % NAMES.len()];
    let out = vcore::util::run_dir().join(format!("life{n}.txt"));
    let _ = std::fs::remove_file(&out);
    let exe = std::env::current_exe().unwrap();
    let args: Vec<String> = vec!["--c19-child".into(), b.dom.root.to_str().unwrap().into(), b.dom.prefix.clone(), "lifecycle".into(), pattern.to_string(), name.into(), out.to_str().unwrap().into()];
    let envs = vec![("VERIF_C19_GLOBAL".to_string(), w.global_toml.to_str().unwrap().to_string())];
    let steps = vtrace::reference_run(&exe, &args, &envs).map_err(|e| {
        let text = std::fs::read_to_string(&out).unwrap_or_default();
        Failure::new(if rel.same_domain { "pop.lifecycle_child" } else { "isolation.lifecycle_disturbed_by_foreign_domain" }, format!("an application life cycle ({} service '{name}') in domain B (prefix '{}', root {}) next to domain A (prefix '{}', root {}) does not complete: {e}; {text}", pop::PATTERNS[pattern as usize % 4], b.dom.prefix, b.dom.root.display(), a.dom.prefix, a.dom.root.display()))
    })?;
    obs.class("iso.traced_life_cycle");
    let root = b.dom.root.to_str().unwrap();
    let mut paths = 0;
    for s in &steps {
        let mutating = matches!(s.name, "mkdir" | "mkdirat" | "rmdir" | "unlink" | "unlinkat" | "rename" | "renameat" | "renameat2" | "creat" | "chmod" | "fchmodat" | "fchmodat2" | "link" | "linkat" | "symlink" | "symlinkat");
        let opening = matches!(s.name, "open" | "openat");
        if !mutating && !opening {
            continue;
        }
        for p in s.detail.split(" -> ") {
            if p.is_empty() {
                continue;
            }
            paths += 1;
            if opening && !p.starts_with(root) && !p.starts_with("/dev/shm") && (readonly_system_path(p) || p == out.to_str().unwrap()) {
                continue;
            }
            location_rule(p, None, root, &b.dom.prefix, &w.harness_dirs).map_err(|e| Failure::new("location.traced", format!("life cycle of a {} service in domain B (prefix '{}', root {root}), system call #{} {}({}) in phase {}: {e}", pop::PATTERNS[pattern as usize % 4], b.dom.prefix, s.index, s.name, s.detail, s.phase)))?;
        }
    }
    ensure!(paths > 20, "harness.trace_empty", "the traced life cycle shows only {paths} path arguments");
    // what the child saw
    let text = std::fs::read_to_string(&out).unwrap_or_default();
    let _ = std::fs::remove_file(&out);
    ensure!(text.contains("probe ok"), "isolation.lifecycle_disturbed_by_foreign_domain", "the life cycle child in domain B reports: {text}");
    let mut child_node = None;
    let mut nodes = vec![];
    let mut services = vec![];
    for l in text.lines() {
        let f: Vec<&str> = l.splitn(3, ' ').collect();
        match f.as_slice() {
            ["node", id] => child_node = id.parse::<u128>().ok(),
            ["listed_node", st, id] => nodes.push(NodeEntry { state: if *st == "Alive" { "Alive" } else if *st == "Dead" { "Dead" } else { "Other" }, id: id.parse().unwrap_or(0) }),
            ["listed_service", p, n] => services.push((n.to_string(), p.to_string())),
            ["error", ..] => fail!("isolation.lifecycle_disturbed_by_foreign_domain", "the life cycle child in domain B reports: {l}"),
            _ => {}
        }
    }
    let mut want = b.expected_nodes();
    if let Some(id) = child_node {
        want.push(NodeEntry { state: "Alive", id });
    }
    let foreign = a.expected_nodes();
    if rel.same_domain {
        want.extend(foreign.iter().cloned());
    }
    for g in &nodes {
        if want.contains(g) {
            continue;
        }
        if rel.same_root && rel.extension.as_ref().map(|(a_shorter, e)| is_decimal(e) && digit_aliases(e, !*a_shorter, &foreign).contains(&g.id)).unwrap_or(false) {
            w.known.hit_or_fail(SIG_NODE_DIGITS, || format!("a process of domain B (prefix '{}') lists node {} ({}) which is a node of domain A (prefix '{}', nodes {foreign:?}) in the same root", b.dom.prefix, g.id, g.state, a.dom.prefix))?;
            continue;
        }
        fail!("isolation.node_list_sees_foreign_node", "a process of domain B (prefix '{}', root {root}) lists node {g:?}; B's nodes are {want:?}, A's nodes (prefix '{}') are {foreign:?}", b.dom.prefix, a.dom.prefix);
    }
    for x in &want {
        ensure!(nodes.contains(x), "isolation.node_list_misses_node", "a process of domain B does not list {x:?}; it lists {nodes:?}");
    }
    let mut want = b.expected_services();
    let own = (name.to_string(), pop::PATTERNS[pattern as usize % 4].to_string());
    if !want.contains(&own) {
        want.push(own);
    }
    if rel.same_domain {
        for f in a.expected_services() {
            if !want.contains(&f) {
                want.push(f);
            }
        }
    }
    want.sort();
    services.sort();
    ensure!(services == want, "isolation.service_list_sees_foreign_service", "a process of domain B (prefix '{}') lists the services {services:?}; B contains {want:?}, A (prefix '{}') contains {:?}", b.dom.prefix, a.dom.prefix, a.expected_services());
    Ok(())
}

fn wipe(base: &str, roots: &[&Path]) {
    for n in scan_shm(base) {
        let _ = std::fs::remove_file(format!("/dev/shm/{n}"));
    }
    for r in roots {
        let _ = std::fs::remove_dir_all(r);
    }
}

pub fn run_case(c: &IsoCase, obs: &mut Obs, known: &Known, global_toml: &Path, sandbox_root: &Path, sandbox_prefix: &str) -> Result<(), Failure> {
    known.begin();
    let n = COUNTER.fetch_add(1, Ordering::Relaxed);
    let (p, q) = prefixes(c, n);
    let run = vcore::util::run_dir();
    let root_a = run.join(format!("c{n}a"));
    let root_b = match c.root_rel % 5 {
        0 => root_a.clone(),
        1 => run.join(format!("c{n}b")),
        2 => root_a.join("sub"),
        3 => root_a.join("nodes").join("in"),
        _ => root_a.join("services").join("in"),
    };
    let same_root = c.root_rel % 5 == 0;
    let extension = if q.len() > p.len() && q.starts_with(&p) {
        Some((true, q[p.len()..].to_string()))
    } else if p.len() > q.len() && p.starts_with(&q) {
        Some((false, p[q.len()..].to_string()))
    } else {
        None
    };
    let rel = Rel { same_domain: p == q && same_root, same_root, extension };
    let base = format!("v{}x{n}k", std::process::id());
    let mut harness_dirs = vec![];
    if !same_root {
        // directories the harness makes so that B's root exists
        let mut d = root_b.clone();
        while d != root_a && d.starts_with(&root_a) {
            harness_dirs.push(d.to_str().unwrap().to_string());
            d = d.parent().unwrap().to_path_buf();
        }
    }
    let w = World { known, base: base.clone(), harness_dirs, sandbox_root: sandbox_root.to_path_buf(), sandbox_prefix: sandbox_prefix.to_string(), global_toml: global_toml.to_path_buf() };
    let roots: Vec<&Path> = vec![&root_a, &root_b];
    // classes
    obs.class(match c.prefix_rel % 6 {
        0 => "iso.prefix_equal",
        1 => "iso.prefix_same_length",
        2 => "iso.prefix_extended_by_digits",
        3 => "iso.prefix_extended_by_base64url_chars",
        4 => "iso.prefix_extended_by_other_chars",
        _ => "iso.prefix_unrelated",
    });
    obs.class(match c.root_rel % 5 {
        0 => "iso.root_same",
        1 => "iso.root_siblings",
        2 => "iso.root_nested_sub",
        3 => "iso.root_nested_in_nodes_dir",
        _ => "iso.root_nested_in_services_dir",
    });
    if rel.same_domain {
        obs.class("iso.control_same_domain");
    }
    obs.nontrivial = !rel.same_domain && (same_root || rel.extension.is_some());
    let sandbox_before = scan_files(&[sandbox_root]);

    let dom_a = Domain::at(&p, &root_a);
    let dom_b = Domain::at(&q, &root_b);
    let result = (|| -> Result<(), Failure> {
        let mut a = match create_pop("A", dom_a, &c.a, None, &rel, &w, &roots) {
            Ok(p) => p,
            Err((mut p, f)) => {
                p.shutdown();
                return Err(f);
            }
        };
        let r = (|| -> Result<(), Failure> {
            check_location(&a, &w)?;
            let mut b = match create_pop("B", dom_b, &c.b, Some(&a), &rel, &w, &roots) {
                Ok(p) => p,
                Err((mut p, f)) => {
                    p.shutdown();
                    return Err(f);
                }
            };
            let r = (|| -> Result<(), Failure> {
                if !rel.same_domain {
                    check_location(&b, &w)?;
                    // a population does not put anything into the other root
                    if !same_root && !root_b.starts_with(&root_a) {
                        ensure!(a.files.iter().all(|f| f.starts_with(&root_a)) && b.files.iter().all(|f| f.starts_with(&root_b)), "location.in_process", "files outside the domain's root: A {:?} B {:?}", a.files, b.files);
                    }
                }
                if a.dead.is_some() || b.dead.is_some() {
                    obs.class("iso.with_dead_node");
                }
                if a.services.iter().any(|x| b.services.iter().any(|y| x.name == y.name && x.pattern == y.pattern)) {
                    obs.class("iso.same_service_in_both_domains");
                }
                observe(&b, &a, &rel, "both populations exist", &w, &[], &[])?;
                observe(&a, &b, &rel, "both populations exist", &w, &[], &[])?;
                a.probe_all(100, "pop.probe", "before any foreign action")?;
                b.probe_all(200, "pop.probe", "before any foreign action")?;
                // dead-node cleanup from B, then from A
                cleanup(&mut b, &a, &rel, &w, &roots, obs)?;
                if rel.same_domain {
                    // one domain: B's cleaner has reclaimed A's dead node as well
                    if let Some(d) = a.dead.as_mut() {
                        d.cleaned = true;
                    }
                }
                observe(&a, &b, &rel, "after the dead-node cleanup in B", &w, &[], &[])?;
                a.probe_all(101, "isolation.cleanup_breaks_foreign_service", "after the dead-node cleanup in domain B")?;
                cleanup(&mut a, &b, &rel, &w, &roots, obs)?;
                observe(&b, &a, &rel, "after the dead-node cleanup in A", &w, &[], &[])?;
                b.probe_all(201, "isolation.cleanup_breaks_foreign_service", "after the dead-node cleanup in domain A")?;
                // a whole application in domain B
                let bf = scan_files(&roots);
                let bs = scan_shm(&w.base);
                trace_child(c, &a, &b, &rel, &w, n, obs)?;
                if !rel.same_domain {
                    intact(&a, &bf, &bs, &w.base, "isolation.lifecycle_removes_foreign_resources", "an application life cycle in domain B")?;
                }
                a.probe_all(102, "isolation.lifecycle_breaks_foreign_service", "after an application life cycle in domain B")?;
                b.probe_all(202, "pop.probe", "after an application life cycle in domain B")?;
                // orderly shutdown of B
                let bf = scan_files(&roots);
                let bs = scan_shm(&w.base);
                b.shutdown();
                if !rel.same_domain {
                    intact(&a, &bf, &bs, &w.base, "isolation.shutdown_removes_foreign_resources", "the orderly shutdown of domain B")?;
                }
                a.probe_all(103, "isolation.shutdown_breaks_foreign_service", "after the orderly shutdown of domain B")?;
                let (got, _) = pop::list_nodes(a.cfg()).map_err(|e| Failure::new("isolation.node_list_error", e))?;
                for x in a.expected_nodes() {
                    ensure!(got.contains(&x), "isolation.shutdown_removes_foreign_resources", "after the orderly shutdown of domain B domain A no longer lists its node {x:?}: {got:?}");
                }
                Ok(())
            })();
            b.shutdown();
            r
        })();
        a.shutdown();
        r
    })();
    // nothing may have gone to the global (sandbox) configuration
    let result = result.and_then(|_| {
        let after = scan_files(&[sandbox_root]);
        let stray: Vec<_> = after.difference(&sandbox_before).collect();
        ensure!(stray.is_empty() && scan_shm(&w.sandbox_prefix).is_empty(), "location.global_config_used", "objects were created with the process-wide global configuration (root {}, prefix '{}') instead of the domain's: {stray:?} {:?}", w.sandbox_root.display(), w.sandbox_prefix, scan_shm(&w.sandbox_prefix));
        Ok(())
    });
    wipe(&base, &roots);
    if scan_shm(sandbox_prefix).len() + scan_files(&[sandbox_root]).len() > 0 {
        wipe(sandbox_prefix, &[]);
    }
    known.finish(result)
}

fn shrink_candidates(c: &IsoCase) -> Vec<IsoCase> {
    let mut v = vec![];
    let mut push = |x: IsoCase| {
        if x != *c {
            v.push(x);
        }
    };
    push(IsoCase { trace: None, ..c.clone() });
    push(IsoCase { a: PopSpec { dead: None, ..c.a.clone() }, ..c.clone() });
    push(IsoCase { b: PopSpec { dead: None, ..c.b.clone() }, ..c.clone() });
    push(IsoCase { a: PopSpec { services: vec![], ..c.a.clone() }, ..c.clone() });
    push(IsoCase { b: PopSpec { services: vec![], ..c.b.clone() }, ..c.clone() });
    for i in 0..c.a.services.len() {
        let mut s = c.a.services.clone();
        s.remove(i);
        push(IsoCase { a: PopSpec { services: s, ..c.a.clone() }, ..c.clone() });
    }
    for i in 0..c.b.services.len() {
        let mut s = c.b.services.clone();
        s.remove(i);
        push(IsoCase { b: PopSpec { services: s, ..c.b.clone() }, ..c.clone() });
    }
    push(IsoCase { a: PopSpec { extra_node: false, ..c.a.clone() }, b: PopSpec { extra_node: false, ..c.b.clone() }, ..c.clone() });
    if c.ext.len() > 1 {
        push(IsoCase { ext: c.ext[..1].to_vec(), ..c.clone() });
    }
    push(IsoCase { body: 0, ..c.clone() });
    push(IsoCase { swap: false, ..c.clone() });
    v
}

/// One CPU per worker (a ptrace stop is nothing but wake-ups; across CPUs they are very expensive
/// in this VM). Unlike `Ctx::pin_to_one_cpu` the assignment is rotated by the parent's pid, so that
/// the workers of several checks running at the same time do not all sit on the first CPUs.
fn pin(ctx: &Ctx) {
    unsafe {
        let ncpu = libc::sysconf(libc::_SC_NPROCESSORS_ONLN).max(1) as usize;
        let mut set: libc::cpu_set_t = std::mem::zeroed();
        libc::CPU_SET((libc::getppid() as usize + ctx.worker) % ncpu, &mut set);
        libc::sched_setaffinity(0, std::mem::size_of::<libc::cpu_set_t>(), &set);
    }
}

pub struct Sandbox {
    pub toml: PathBuf,
    pub root: PathBuf,
    pub prefix: String,
}

/// process-wide global configuration = a sandbox inside the run directory; a code path that falls
/// back to `Config::global_config()` shows up as objects in the sandbox (a violation) instead of
/// touching /tmp/iceoryx2
pub fn install_sandbox(ctx: &mut Ctx) -> Option<Sandbox> {
    let run = vcore::util::run_dir();
    let root = run.join("gsandbox");
    let prefix = format!("v{}x0kG_", std::process::id());
    let toml = run.join("global.toml");
    let _ = std::fs::create_dir_all(&root);
    if let Err(e) = child::write_config_toml(&toml, root.to_str().unwrap(), &prefix).map_err(|e| e.to_string()).and_then(|_| child::install_global_config(&toml)) {
        ctx.inconclusive(format!("isolation: cannot install the sandbox global configuration: {e}"));
        return None;
    }
    Some(Sandbox { toml, root, prefix })
}

pub fn pairs(ctx: &mut Ctx, known: &Known) {
    let part = "isolation.pairs";
    if !ctx.part_enabled(part) {
        return;
    }
    let Some(Sandbox { toml, root: sandbox_root, prefix: sandbox_prefix }) = install_sandbox(ctx) else { return };
    pin(ctx);
    known.probe_mode(true);
    let run_one = |c: &IsoCase, obs: &mut Obs| Ctx::guarded(|| run_case(c, obs, known, &toml, &sandbox_root, &sandbox_prefix));
    if let Some(c) = ctx.replay_case::<IsoCase>(part) {
        let mut obs = Obs::default();
        let r = run_one(&c, &mut obs);
        ctx.record(part, 0, &obs, || serde_json::to_value(&c).unwrap());
        if let Err(f) = r {
            ctx.violation(part, &f, serde_json::to_value(&c).unwrap());
        }
        known.probe_mode(false);
        return;
    }
    // VERIF_C19_PAIRS: debugging aid (number of pairs instead of the tier value)
    let total = std::env::var("VERIF_C19_PAIRS").ok().and_then(|v| v.parse().ok()).unwrap_or(ctx.scale(480u64, 4_800));
    let mine = ctx.share(total);
    let mut rng = ctx.rng(part);
    for i in 0..mine {
        // strata (prefix relation x root relation) are visited round robin over all workers
        let stratum = i * ctx.nworkers as u64 + ctx.worker as u64;
        let c = generate(&mut rng, stratum);
        let mut obs = Obs::default();
        let r = run_one(&c, &mut obs);
        let key = vcore::rng::hash_str(&serde_json::to_string(&c).unwrap());
        ctx.record(part, key, &obs, || serde_json::to_value(&c).unwrap());
        if let Err(f) = r {
            if ctx.is_open_finding(&f.signature) {
                ctx.violation(part, &f, serde_json::to_value(&c).unwrap());
                continue;
            }
            let sig = f.signature.clone();
            let min = vcore::shrink::greedy(
                c.clone(),
                shrink_candidates,
                |x| {
                    let mut o = Obs::default();
                    matches!(run_one(x, &mut o), Err(g) if g.signature == sig)
                },
                16,
            );
            let mut o = Obs::default();
            match run_one(&min, &mut o) {
                Err(g) if g.signature == sig => ctx.violation(part, &g, serde_json::to_value(&min).unwrap()),
                // not reproducible on the shrunk case: report the original case and failure
                _ => ctx.violation(part, &f, serde_json::to_value(&c).unwrap()),
            }
            break;
        }
    }
    known.probe_mode(false);
}

/// What dead-node cleanup does to a foreign dead node when the cleaning process runs with the
/// shorter prefix as its *global* configuration (the default way to use iceoryx2). Runs in a child
/// process so that the global configuration can be chosen; everything stays inside the run directory.
pub fn cleanup_probe(ctx: &mut Ctx, known: &Known) {
    let part = "isolation.cleanup_probe";
    if !ctx.part_enabled(part) || ctx.replay.is_some() || ctx.worker != 0 {
        return;
    }
    let Some(Sandbox { toml, .. }) = install_sandbox(ctx) else { return };
    let run = vcore::util::run_dir();
    for (k, ext) in ["1", "42", "a"].iter().enumerate() {
        let case = serde_json::json!({"shorter_prefix": "<base>_", "longer_prefix": format!("<base>_{ext}"), "root": "same", "dead_node_in": "longer", "cleaner": "process whose global configuration is the shorter-prefix domain"});
        known.probe_mode(true);
        ctx.run_case(part, k as u64, &case, |obs| {
            known.begin();
            obs.nontrivial = true;
            let n = COUNTER.fetch_add(1, Ordering::Relaxed);
            let base = format!("v{}x{n}k", std::process::id());
            let root = run.join(format!("p{n}"));
            let short = Domain::at(&format!("{base}_"), &root);
            let long = Domain::at(&format!("{base}_{ext}"), &root);
            let w = World { known, base: base.clone(), harness_dirs: vec![], sandbox_root: run.join("gsandbox"), sandbox_prefix: String::new(), global_toml: toml.clone() };
            let r = (|| -> Result<(), Failure> {
                let id = spawn_victim(&long, 0, "svc/a", &w)?;
                let files = scan_files(&[&root]);
                let shm = scan_shm(&base);
                let (before, _) = pop::list_nodes(&long.config).map_err(|e| Failure::new("isolation.node_list_error", e))?;
                ensure!(before == vec![NodeEntry { state: "Dead", id }], "pop.victim", "the longer-prefix domain lists {before:?} after its process was killed, expected one dead node {id}");
                let out = run.join(format!("cleaner{n}.txt"));
                let exe = std::env::current_exe().unwrap();
                let st = std::process::Command::new(exe).args(["--c19-child", root.to_str().unwrap(), &short.prefix, "cleaner_as_global", "0", "x", out.to_str().unwrap()]).stdin(std::process::Stdio::null()).stdout(std::process::Stdio::null()).stderr(std::process::Stdio::null()).status();
                let text = std::fs::read_to_string(&out).unwrap_or_default();
                let _ = std::fs::remove_file(&out);
                let _ = std::fs::remove_file(format!("{}.toml", out.display()));
                ensure!(matches!(st, Ok(s) if s.success()), "harness.cleaner_child", "cleaner child failed: {st:?} {text}");
                let listed_foreign = text.lines().any(|l| l.starts_with("listed"));
                if listed_foreign {
                    obs.class("iso.cleaner_with_shorter_prefix_sees_foreign_dead_node");
                }
                let gone: Vec<String> = files.iter().filter(|f| !f.exists()).map(|f| f.strip_prefix(&root).unwrap_or(f).display().to_string()).collect();
                let now = scan_shm(&base);
                let gone_shm: Vec<&String> = shm.iter().filter(|s| !now.contains(*s)).collect();
                let (after, dead) = pop::list_nodes(&long.config).map_err(|e| Failure::new("isolation.node_list_error", e))?;
                let damage = !gone.is_empty() || !gone_shm.is_empty() || after != before;
                // the owner domain cleans up afterwards: what stays behind for ever?
                let mut own = vec![];
                for v in dead {
                    own.push(format!("{:?}", v.try_remove_stale_resources()));
                }
                let left: Vec<String> = scan_files(&[&root]).iter().filter(|f| !f.is_dir() || f.parent() != Some(root.as_path())).map(|f| f.strip_prefix(&root).unwrap_or(f).display().to_string()).collect();
                let left_shm: Vec<String> = scan_shm(&base).into_iter().filter(|s| !s.ends_with(".global_mgmt")).collect();
                if damage {
                    if is_decimal(ext) {
                        known.hit_or_fail(
                            SIG_NODE_DIGITS,
                            || format!("a process whose global configuration has the prefix '{}' ran the dead-node cleanup: report [{}]; it removed {gone:?} {gone_shm:?} of the dead node {id} of the domain with prefix '{}' in the same root; that domain then lists {after:?} (before: {before:?}), its own cleanup returns {own:?} and these objects stay behind: {left:?} {left_shm:?}", short.prefix, text.trim().replace('\n', "; "), long.prefix),
                        )?;
                    } else {
                        fail!("isolation.cleanup_removes_foreign_resources", "cleaner with prefix '{}' damaged the domain with prefix '{}': removed {gone:?} {gone_shm:?}; report [{}]", short.prefix, long.prefix, text.trim().replace('\n', "; "));
                    }
                } else {
                    ensure!(!listed_foreign || is_decimal(ext), "isolation.node_list_sees_foreign_node", "cleaner with prefix '{}' lists nodes of the domain with prefix '{}': {text}", short.prefix, long.prefix);
                }
                Ok(())
            })();
            wipe(&base, &[&root]);
            known.finish(r)
        });
        known.probe_mode(false);
    }
}
