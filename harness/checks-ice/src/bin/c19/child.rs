//! Child scenarios of C19 (the c19 binary re-executes itself: `c19 --c19-child …`), so that the
//! driver has to build only one binary.
//!
//!   c19 --c19-child <root> <prefix> victim    <pattern> <service>          creates a node, joins / creates the service with
//!                                                                          its receiving port, prints its node id, waits to be killed
//!   c19 --c19-child <root> <prefix> lifecycle <pattern> <service> <out>    node, service (open or create), ports, one message, listings
//!                                                                          (written to <out>), orderly shutdown; bracketed by phase markers
//!   c19 --c19-child <root> <prefix> cleaner_as_global x x <out>            makes (root, prefix) the *global* configuration of the process and
//!                                                                          removes the stale resources of every node its listing reports dead
use crate::pop::{self, Mode, Ports, S};
use iceoryx2::config::Config;
use iceoryx2::prelude::*;
use iceoryx2_bb_container::semantic_string::SemanticString;
use iceoryx2_bb_system_types::file_path::FilePath;
use vice::domain::Domain;

fn phase(name: &str) {
    let s = format!("VERIF_PHASE:{name}");
    unsafe { libc::write(-1, s.as_ptr() as *const libc::c_void, s.len()) };
}

static OUT: std::sync::OnceLock<String> = std::sync::OnceLock::new();

fn die(msg: String) -> ! {
    eprintln!("c19 child: {msg}");
    if let Some(o) = OUT.get() {
        if !o.is_empty() {
            let _ = std::fs::write(o, format!("error {msg}\n"));
        }
    }
    std::process::exit(3);
}

/// Global configuration of this process = a sandbox inside the run directory, so that a code path
/// that falls back to `Config::global_config()` never touches /tmp/iceoryx2 or `iox2_*`.
pub fn install_global_config(toml: &std::path::Path) -> Result<(), String> {
    let p = FilePath::new(toml.to_str().unwrap().as_bytes()).map_err(|e| format!("{e:?}"))?;
    Config::setup_global_config_from_file(&p).map(|_| ()).map_err(|e| format!("{e:?}"))
}

pub fn write_config_toml(file: &std::path::Path, root: &str, prefix: &str) -> std::io::Result<()> {
    std::fs::write(
        file,
        format!(
            "[global]\nroot-path = '{root}'\nprefix = '{prefix}'\n\n[global.node]\ncleanup-dead-nodes-on-creation = false\ncleanup-dead-nodes-on-destruction = false\n\n[global.service]\ncleanup-dead-nodes-on-open = false\n"
        ),
    )
}

pub fn main(a: &[String]) -> ! {
    iceoryx2_log::set_log_level(iceoryx2_log::LogLevel::Fatal);
    unsafe { libc::prctl(libc::PR_SET_PDEATHSIG, libc::SIGKILL) };
    if a.len() < 5 {
        die("usage: c19 --c19-child <root> <prefix> <scenario> <pattern> <service> [out]".into());
    }
    let (root, prefix, scenario) = (&a[0], &a[1], a[2].as_str());
    let pattern: u8 = a[3].parse().unwrap_or(0);
    let out = a.get(5).cloned().unwrap_or_default();
    let _ = OUT.set(out.clone());
    if scenario == "cleaner_as_global" {
        let toml = std::path::PathBuf::from(format!("{out}.toml"));
        if let Err(e) = write_config_toml(&toml, root, prefix).map_err(|e| e.to_string()).and_then(|_| install_global_config(&toml)) {
            die(format!("cannot install the global config: {e}"));
        }
        let cfg = Config::global_config();
        let mut text = format!("config {} {}\n", cfg.global.root_path(), cfg.global.prefix);
        match pop::list_nodes(cfg) {
            Ok((nodes, dead)) => {
                for n in &nodes {
                    text.push_str(&format!("listed {} {}\n", n.state, n.id));
                }
                for v in dead {
                    use iceoryx2::node::NodeView;
                    let id = v.id().value();
                    let r = v.try_remove_stale_resources();
                    text.push_str(&format!("cleanup {id} {r:?}\n"));
                }
            }
            Err(e) => text.push_str(&format!("error {e}\n")),
        }
        let _ = std::fs::write(&out, text);
        std::process::exit(0);
    }
    if let Ok(g) = std::env::var("VERIF_C19_GLOBAL") {
        if let Err(e) = install_global_config(std::path::Path::new(&g)) {
            die(format!("cannot install the sandbox global config {g}: {e}"));
        }
    }
    let dom = Domain::at(prefix, std::path::Path::new(root));
    let name: ServiceName = match a[4].as_str().try_into() {
        Ok(n) => n,
        Err(e) => die(format!("service name: {e:?}")),
    };
    match scenario {
        "victim" => {
            let node = match NodeBuilder::new().config(&dom.config).create::<S>() {
                Ok(n) => n,
                Err(e) => die(format!("node: {e:?}")),
            };
            let live = match pop::build(&node, &name, pattern, Mode::OpenOrCreate, Ports::ReceivingSide) {
                Ok(l) => l,
                Err(e) => die(format!("service: {e}")),
            };
            println!("{}", node.id().value());
            use std::io::Write;
            let _ = std::io::stdout().flush();
            loop {
                unsafe { libc::pause() };
                let _ = &live;
            }
        }
        "lifecycle" => {
            phase("begin");
            let node = match NodeBuilder::new().config(&dom.config).create::<S>() {
                Ok(n) => n,
                Err(e) => die(format!("node: {e:?}")),
            };
            let mut text = format!("node {}\n", node.id().value());
            // blackboard: one writer per service, the worker may hold it already
            let live = match pop::build(&node, &name, pattern, Mode::OpenOrCreate, Ports::Both).or_else(|first| pop::build(&node, &name, pattern, Mode::OpenOrCreate, Ports::ReceivingSide).map_err(|_| first)) {
                Ok(l) => l,
                Err(e) => die(format!("service: {e}")),
            };
            match live.probe(41) {
                Ok(()) => text.push_str("probe ok\n"),
                Err(e) => text.push_str(&format!("probe failed {e}\n")),
            }
            match pop::list_nodes(&dom.config) {
                Ok((nodes, _)) => {
                    for n in nodes {
                        text.push_str(&format!("listed_node {} {}\n", n.state, n.id));
                    }
                }
                Err(e) => text.push_str(&format!("error {e}\n")),
            }
            match pop::list_services(&dom.config) {
                Ok(svcs) => {
                    for (n, p) in svcs {
                        text.push_str(&format!("listed_service {p} {n}\n"));
                    }
                }
                Err(e) => text.push_str(&format!("error {e}\n")),
            }
            live.shutdown();
            drop(node);
            phase("end");
            let _ = std::fs::write(&out, text);
            std::process::exit(0);
        }
        other => die(format!("unknown scenario {other}")),
    }
}
