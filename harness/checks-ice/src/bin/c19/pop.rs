//! A small population of one domain (used by the worker process and by the child scenarios):
//! services of all four messaging patterns with both port kinds, a functional probe per service,
//! and the listing helpers.
use iceoryx2::node::{NodeState, NodeView};
use iceoryx2::port::client::Client;
use iceoryx2::port::listener::Listener;
use iceoryx2::port::notifier::Notifier;
use iceoryx2::port::publisher::Publisher;
use iceoryx2::port::reader::Reader;
use iceoryx2::port::server::Server;
use iceoryx2::port::subscriber::Subscriber;
use iceoryx2::port::writer::Writer;
use iceoryx2::prelude::*;
use iceoryx2::service::port_factory::{blackboard, event, publish_subscribe, request_response};

pub type S = ipc::Service;

pub const PATTERNS: [&str; 4] = ["PublishSubscribe", "Event", "RequestResponse", "Blackboard"];

pub fn messaging_pattern(p: u8) -> MessagingPattern {
    match p % 4 {
        0 => MessagingPattern::PublishSubscribe,
        1 => MessagingPattern::Event,
        2 => MessagingPattern::RequestResponse,
        _ => MessagingPattern::Blackboard,
    }
}

#[derive(Clone, Copy, PartialEq, Eq, Debug)]
pub enum Mode {
    Create,
    Open,
    OpenOrCreate,
}

#[allow(dead_code)]
pub enum Live {
    PubSub { svc: publish_subscribe::PortFactory<S, u64, ()>, p: Option<Publisher<S, u64, ()>>, s: Option<Subscriber<S, u64, ()>> },
    Event { svc: event::PortFactory<S>, n: Option<Notifier<S>>, l: Option<Listener<S>> },
    ReqRes { svc: request_response::PortFactory<S, u64, (), u64, ()>, c: Option<Client<S, u64, (), u64, ()>>, s: Option<Server<S, u64, (), u64, ()>> },
    Blackboard { svc: blackboard::PortFactory<S, u64>, w: Option<Writer<S, u64>>, r: Option<Reader<S, u64>> },
}

/// which ports are created together with the service handle
#[derive(Clone, Copy, PartialEq, Eq, Debug)]
pub enum Ports {
    None,
    Both,
    /// subscriber / listener / server / reader
    ReceivingSide,
}

fn e<T: std::fmt::Debug>(what: &str) -> impl Fn(T) -> String + '_ {
    move |err| format!("{what}: {err:?}")
}

pub fn build(node: &Node<S>, name: &ServiceName, pattern: u8, mode: Mode, ports: Ports) -> Result<Live, String> {
    let send = ports == Ports::Both;
    let recv = ports != Ports::None;
    match pattern % 4 {
        0 => {
            let b = || node.service_builder(name).publish_subscribe::<u64>().max_publishers(4).max_subscribers(4).subscriber_max_buffer_size(8).history_size(0).enable_safe_overflow(true);
            let svc = match mode {
                Mode::Create => b().create().map_err(e("create"))?,
                Mode::Open => node.service_builder(name).publish_subscribe::<u64>().open().map_err(e("open"))?,
                Mode::OpenOrCreate => match node.service_builder(name).publish_subscribe::<u64>().open() {
                    Ok(s) => s,
                    Err(_) => b().create().map_err(e("create"))?,
                },
            };
            let s = if recv { Some(svc.subscriber_builder().create().map_err(e("subscriber"))?) } else { None };
            let p = if send { Some(svc.publisher_builder().create().map_err(e("publisher"))?) } else { None };
            Ok(Live::PubSub { svc, p, s })
        }
        1 => {
            let b = || node.service_builder(name).event().max_notifiers(4).max_listeners(4);
            let svc = match mode {
                Mode::Create => b().create().map_err(e("create"))?,
                Mode::Open => node.service_builder(name).event().open().map_err(e("open"))?,
                Mode::OpenOrCreate => match node.service_builder(name).event().open() {
                    Ok(s) => s,
                    Err(_) => b().create().map_err(e("create"))?,
                },
            };
            let l = if recv { Some(svc.listener_builder().create().map_err(e("listener"))?) } else { None };
            let n = if send { Some(svc.notifier_builder().create().map_err(e("notifier"))?) } else { None };
            Ok(Live::Event { svc, n, l })
        }
        2 => {
            let b = || node.service_builder(name).request_response::<u64, u64>().max_clients(4).max_servers(4);
            let svc = match mode {
                Mode::Create => b().create().map_err(e("create"))?,
                Mode::Open => node.service_builder(name).request_response::<u64, u64>().open().map_err(e("open"))?,
                Mode::OpenOrCreate => match node.service_builder(name).request_response::<u64, u64>().open() {
                    Ok(s) => s,
                    Err(_) => b().create().map_err(e("create"))?,
                },
            };
            let s = if recv { Some(svc.server_builder().create().map_err(e("server"))?) } else { None };
            let c = if send { Some(svc.client_builder().create().map_err(e("client"))?) } else { None };
            Ok(Live::ReqRes { svc, c, s })
        }
        _ => {
            let create = || node.service_builder(name).blackboard_creator::<u64>().max_readers(4).add::<u64>(1, 10).add::<u64>(2, 20).create();
            let svc = match mode {
                Mode::Create => create().map_err(e("create"))?,
                Mode::Open => node.service_builder(name).blackboard_opener::<u64>().open().map_err(e("open"))?,
                Mode::OpenOrCreate => match node.service_builder(name).blackboard_opener::<u64>().open() {
                    Ok(s) => s,
                    Err(_) => create().map_err(e("create"))?,
                },
            };
            let r = if recv { Some(svc.reader_builder().create().map_err(e("reader"))?) } else { None };
            let w = if send { Some(svc.writer_builder().create().map_err(e("writer"))?) } else { None };
            Ok(Live::Blackboard { svc, w, r })
        }
    }
}

impl Live {
    /// drops the ports, then the service handle
    pub fn shutdown(self) {
        match self {
            Live::PubSub { svc, p, s } => {
                drop(p);
                drop(s);
                drop(svc);
            }
            Live::Event { svc, n, l } => {
                drop(n);
                drop(l);
                drop(svc);
            }
            Live::ReqRes { svc, c, s } => {
                drop(c);
                drop(s);
                drop(svc);
            }
            Live::Blackboard { svc, w, r } => {
                drop(w);
                drop(r);
                drop(svc);
            }
        }
    }

    /// one message through the service with the ports of this handle (missing ports are created
    /// for the probe and dropped again)
    pub fn probe(&self, v: u64) -> Result<(), String> {
        match self {
            Live::PubSub { svc, p, s } => {
                let ts;
                let s = match s {
                    Some(s) => s,
                    None => {
                        ts = svc.subscriber_builder().create().map_err(e("probe subscriber"))?;
                        &ts
                    }
                };
                let tp;
                let p = match p {
                    Some(p) => p,
                    None => {
                        tp = svc.publisher_builder().create().map_err(e("probe publisher"))?;
                        &tp
                    }
                };
                while s.receive().map_err(e("drain"))?.is_some() {}
                p.send_copy(v).map_err(e("send"))?;
                let got = s.receive().map_err(e("receive"))?.map(|x| *x);
                if got != Some(v) {
                    return Err(format!("sent {v}, received {got:?}"));
                }
                Ok(())
            }
            Live::Event { svc, n, l } => {
                let tl;
                let l = match l {
                    Some(l) => l,
                    None => {
                        tl = svc.listener_builder().create().map_err(e("probe listener"))?;
                        &tl
                    }
                };
                let tn;
                let n = match n {
                    Some(n) => n,
                    None => {
                        tn = svc.notifier_builder().create().map_err(e("probe notifier"))?;
                        &tn
                    }
                };
                l.try_wait(|_| {}).map_err(e("drain"))?;
                let id = (v % 4) as usize;
                n.notify_with_custom_event_id(EventId::new(id)).map_err(e("notify"))?;
                let mut ids = vec![];
                l.try_wait(|a| ids.push(a.id.as_value())).map_err(e("try_wait"))?;
                if ids != vec![id] {
                    return Err(format!("notified {id}, listener got {ids:?}"));
                }
                Ok(())
            }
            Live::ReqRes { svc, c, s } => {
                let ts;
                let s = match s {
                    Some(s) => s,
                    None => {
                        ts = svc.server_builder().create().map_err(e("probe server"))?;
                        &ts
                    }
                };
                let tc;
                let c = match c {
                    Some(c) => c,
                    None => {
                        tc = svc.client_builder().create().map_err(e("probe client"))?;
                        &tc
                    }
                };
                while s.receive().map_err(e("drain"))?.is_some() {}
                let pending = c.send_copy(v).map_err(e("send request"))?;
                let ar = s.receive().map_err(e("server receive"))?.ok_or_else(|| format!("request {v} did not arrive at the server"))?;
                if *ar.payload() != v {
                    return Err(format!("sent request {v}, server got {}", *ar.payload()));
                }
                ar.send_copy(v + 1).map_err(e("send response"))?;
                let got = pending.receive().map_err(e("pending receive"))?.map(|x| *x.payload());
                if got != Some(v + 1) {
                    return Err(format!("sent response {}, client got {got:?}", v + 1));
                }
                Ok(())
            }
            Live::Blackboard { svc, w, r } => {
                let tr;
                let r = match r {
                    Some(r) => r,
                    None => {
                        tr = svc.reader_builder().create().map_err(e("probe reader"))?;
                        &tr
                    }
                };
                if let Some(w) = w {
                    let hm = w.entry::<u64>(&1).map_err(e("entry mut"))?;
                    hm.update_with_copy(v);
                    let h = r.entry::<u64>(&1).map_err(e("entry"))?;
                    let got = *h.get();
                    if got != v {
                        return Err(format!("wrote {v}, read {got}"));
                    }
                } else {
                    let h = r.entry::<u64>(&2).map_err(e("entry"))?;
                    let got = *h.get();
                    if got != 20 {
                        return Err(format!("key 2 reads {got}, created with 20"));
                    }
                }
                Ok(())
            }
        }
    }
}

#[derive(Debug, Clone, PartialEq, Eq, PartialOrd, Ord)]
pub struct NodeEntry {
    /// "Alive" | "Dead" | "Inaccessible" | "Undefined"
    pub state: &'static str,
    pub id: u128,
}

pub fn list_nodes(config: &Config) -> Result<(Vec<NodeEntry>, Vec<iceoryx2::node::DeadNodeView<S>>), String> {
    let mut out = vec![];
    let mut dead = vec![];
    Node::<S>::list(config, |st| {
        match st {
            NodeState::Alive(v) => out.push(NodeEntry { state: "Alive", id: v.id().value() }),
            NodeState::Dead(v) => {
                out.push(NodeEntry { state: "Dead", id: v.id().value() });
                dead.push(v);
            }
            NodeState::Inaccessible(id) => out.push(NodeEntry { state: "Inaccessible", id: id.value() }),
            NodeState::Undefined(id) => out.push(NodeEntry { state: "Undefined", id: id.value() }),
        }
        CallbackProgression::Continue
    })
    .map_err(e("Node::list"))?;
    out.sort();
    Ok((out, dead))
}

/// (service name, messaging pattern) pairs
pub fn list_services(config: &Config) -> Result<Vec<(String, String)>, String> {
    let mut out = vec![];
    S::list(config, |d| {
        out.push((d.static_details.name().to_string(), d.static_details.messaging_pattern().to_string()));
        CallbackProgression::Continue
    })
    .map_err(e("Service::list"))?;
    out.sort();
    Ok(out)
}
