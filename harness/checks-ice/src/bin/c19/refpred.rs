//! Reference acceptance predicates, written from the documentation (rustdoc of each type, the
//! module examples, the String layer's rustdoc and the conformance tests in
//! `iceoryx2-bb/system-types/tests-common`), not from the validators:
//!
//! * String layer (`iceoryx2_bb_container::string::String` rustdoc): valid UTF-8, NUL is not
//!   allowed anywhere, currently only code points below U+0080 are supported; a value never
//!   exceeds the capacity (`max_len()`).
//! * `FileName`: "platform independent … characters/strings which would be legal on some platforms
//!   are forbidden as well": the separator of either platform (`/`, `\`), NUL, the characters
//!   Windows reserves (`< > " | ? *` and the control characters 1..=31); not empty, not `.`, not
//!   `..` (test `new_with_illegal_name_fails`). `:` is reserved on Windows only and every
//!   validator guards it with `cfg(target_os = "windows")` — read as deliberate, see ASSUMPTIONS.
//! * `Path`: any sequence of path separators and file-name characters, `.`/`..` components,
//!   repeated and trailing separators and the empty path are legal (tests
//!   `new_with_legal_name_works`, `is_absolute_works`); `\` is the separator of the other platform.
//! * `FilePath`: a path whose last component names a file: not empty, no trailing separator, last
//!   component neither `.` nor `..` (module example + `new_with_illegal_name_fails`).
//! * `UserName` / `GroupName`: not empty, must not start with `-` or a digit, letters, digits, `-`
//!   and `_` are legal (tests); `.` and a trailing `$` are legal in some POSIX systems and
//!   mentioned nowhere → unspecified, both verdicts are accepted.
//! * `Base64Url`: RFC 4648 §5 alphabet without the padding character, not empty.
//! * `ServiceName`: "not allowed to be empty nor be prefixed with iox2://"; `NodeName`, `PortName`:
//!   any string of the String layer, the empty name included (conformance tests).

#[derive(Clone, Copy, Debug, PartialEq, Eq)]
pub enum Ty {
    FileName,
    Restricted8,
    Path,
    FilePath,
    UserName,
    GroupName,
    Base64Url,
    ServiceName,
    NodeName,
    PortName,
}

pub const ALL: [Ty; 10] = [Ty::FileName, Ty::Path, Ty::Restricted8, Ty::FilePath, Ty::UserName, Ty::GroupName, Ty::Base64Url, Ty::ServiceName, Ty::NodeName, Ty::PortName];

impl Ty {
    pub fn name(self) -> &'static str {
        match self {
            Ty::FileName => "FileName",
            Ty::Restricted8 => "RestrictedFileName<8>",
            Ty::Path => "Path",
            Ty::FilePath => "FilePath",
            Ty::UserName => "UserName",
            Ty::GroupName => "GroupName",
            Ty::Base64Url => "Base64Url",
            Ty::ServiceName => "ServiceName",
            Ty::NodeName => "NodeName",
            Ty::PortName => "PortName",
        }
    }
    pub fn short(self) -> &'static str {
        match self {
            Ty::FileName => "file_name",
            Ty::Restricted8 => "restricted_file_name",
            Ty::Path => "path",
            Ty::FilePath => "file_path",
            Ty::UserName => "user_name",
            Ty::GroupName => "group_name",
            Ty::Base64Url => "base64url",
            Ty::ServiceName => "service_name",
            Ty::NodeName => "node_name",
            Ty::PortName => "port_name",
        }
    }
    pub fn from_index(i: u8) -> Ty {
        ALL[i as usize % ALL.len()]
    }
}

#[derive(Clone, Copy, Debug, PartialEq, Eq)]
pub enum Expect {
    Accept,
    /// rejected because of its content
    Invalid,
    /// content fine, longer than the capacity
    TooLong,
    /// invalid content and too long: either error
    InvalidAndTooLong,
    /// the documentation does not decide
    Unspecified,
}

fn string_layer_ok(s: &[u8]) -> bool {
    s.iter().all(|b| (1..=127).contains(b))
}

fn windows_reserved(b: u8) -> bool {
    matches!(b, 1..=31 | b'<' | b'>' | b'"' | b'|' | b'?' | b'*') || (cfg!(target_os = "windows") && b == b':')
}

fn file_name_char(b: u8) -> bool {
    b != b'/' && b != b'\\' && !windows_reserved(b)
}

fn is_dot_component(c: &[u8]) -> bool {
    c == b"." || c == b".."
}

fn account_name(s: &[u8]) -> Option<bool> {
    if s.is_empty() || s[0] == b'-' || s[0].is_ascii_digit() {
        return Some(false);
    }
    let mut unspecified = false;
    for (i, b) in s.iter().enumerate() {
        match b {
            b'a'..=b'z' | b'A'..=b'Z' | b'0'..=b'9' | b'-' | b'_' => {}
            b'.' => unspecified = true,
            b'$' if i + 1 == s.len() => unspecified = true,
            _ => return Some(false),
        }
    }
    if unspecified { None } else { Some(true) }
}

/// content verdict without the length rule: Some(true) legal, Some(false) illegal, None unspecified
fn content(ty: Ty, s: &[u8]) -> Option<bool> {
    if !string_layer_ok(s) {
        return Some(false);
    }
    Some(match ty {
        Ty::FileName | Ty::Restricted8 => !s.is_empty() && !is_dot_component(s) && s.iter().all(|b| file_name_char(*b)),
        Ty::Path => s.iter().all(|b| !windows_reserved(*b)),
        Ty::FilePath => {
            if s.is_empty() || !s.iter().all(|b| !windows_reserved(*b)) {
                false
            } else {
                let last = s.rsplit(|b| *b == b'/').next().unwrap();
                !last.is_empty() && !is_dot_component(last)
            }
        }
        Ty::UserName | Ty::GroupName => return account_name(s),
        Ty::Base64Url => !s.is_empty() && s.iter().all(|b| b.is_ascii_alphanumeric() || *b == b'-' || *b == b'_'),
        Ty::ServiceName => !s.is_empty() && !s.starts_with(b"iox2://"),
        Ty::NodeName | Ty::PortName => true,
    })
}

pub fn expect(ty: Ty, cap: usize, s: &[u8]) -> Expect {
    let too_long = s.len() > cap;
    match (content(ty, s), too_long) {
        (Some(true), false) => Expect::Accept,
        (Some(true), true) => Expect::TooLong,
        (Some(false), false) => Expect::Invalid,
        (Some(false), true) => Expect::InvalidAndTooLong,
        (None, false) => Expect::Unspecified,
        // unspecified content and too long: rejected for its length in any case
        (None, true) => Expect::InvalidAndTooLong,
    }
}

/// accept / reject / unspecified as Option<bool>
pub fn accepts(ty: Ty, cap: usize, s: &[u8]) -> Option<bool> {
    match expect(ty, cap, s) {
        Expect::Accept => Some(true),
        Expect::Unspecified => None,
        _ => Some(false),
    }
}

/// `Path::normalize` as documented: "/tmp can also be expressed as /tmp/ or ////tmp////" —
/// the documentation gives only this example; the reference normal form is therefore used for
/// the *laws* (idempotent, preserves acceptance, equal values have equal normal forms), not
/// compared byte by byte, except for the documented example class (repeated/trailing separators).
pub fn collapse_separators(s: &[u8]) -> Vec<u8> {
    let mut out: Vec<u8> = vec![];
    for b in s {
        if *b == b'/' && out.last() == Some(&b'/') {
            continue;
        }
        out.push(*b);
    }
    if out.len() > 1 && out.last() == Some(&b'/') {
        out.pop();
    }
    out
}
