//! Part `naming.scheme` — the naming scheme of named concepts (`iceoryx2_cal::named_concept`):
//! `path_for` builds "<path hint>/<prefix><name><suffix>", `extract_name_from_file` /
//! `extract_name_from_path` are its inverse "under a given configuration": a file that does not
//! carry the configured prefix *and* suffix (or lies in another directory) is not a name of that
//! configuration. Checked as pure functions on generated (path hint, prefix, suffix, name, file)
//! tuples and once per case on the real file system (two static-storage configurations that share
//! the directory and differ in prefix or suffix list only their own storages).
use crate::validation::{Gen, esc};
use iceoryx2_bb_container::semantic_string::SemanticString;
use iceoryx2_bb_system_types::file_name::FileName;
use iceoryx2_bb_system_types::file_path::FilePath;
use iceoryx2_bb_system_types::path::Path;
use iceoryx2_cal::named_concept::{NamedConceptBuilder, NamedConceptConfiguration, NamedConceptMgmt};
use iceoryx2_cal::static_storage::StaticStorageBuilder;
use iceoryx2_cal::static_storage::file::{Builder, Configuration, Storage};
use proptest::prelude::*;
use serde::{Deserialize, Serialize};
use std::sync::atomic::{AtomicU64, Ordering};
use vcore::{Ctx, Failure, Obs, ensure};

#[derive(Clone, Debug, Serialize, Deserialize)]
pub struct NameCase {
    /// 0: prefix2 = prefix + digits, 1: prefix2 = prefix + letter, 2: unrelated, 3: same prefix / other suffix,
    /// 4: suffix2 = suffix + extra, 5: suffix2 = extra + suffix
    pub rel: u8,
    pub prefix: u8,
    pub suffix: u8,
    pub ext: u8,
    pub name: Gen,
    pub file: Gen,
    /// the file is built as prefix + middle + suffix with parts dropped: bit 0 keeps the prefix, bit 1 the suffix
    pub keep: u8,
    pub dir: u8,
    pub on_disk: bool,
}

const PREFIXES: [&str; 6] = ["iox2_", "pa_", "a", "x.y_", "dom-1_", "p"];
const SUFFIXES: [&str; 6] = [".service", ".node_monitor", ".x", "_s", ".details", ".dynamic"];
const DIGITS: [&str; 4] = ["1", "42", "0", "907"];
const LETTERS: [&str; 4] = ["a", "Z_", "-", "b1"];
const EXTRA: [&str; 4] = ["_tag", ".service", "2", ".x"];
const DIRS: [&str; 4] = ["", "services", "nodes/123", "nodes"];

fn strategy() -> impl Strategy<Value = NameCase> {
    (0u8..6, 0u8..6, 0u8..6, 0u8..4, crate::validation::gen_strategy_pub(4), crate::validation::gen_strategy_pub(5), 0u8..4, 0u8..4, proptest::bool::weighted(0.02))
        .prop_map(|(rel, prefix, suffix, ext, name, file, keep, dir, on_disk)| NameCase { rel, prefix, suffix, ext, name, file, keep, dir, on_disk })
}

static COUNTER: AtomicU64 = AtomicU64::new(0);

fn legal_middle(m: &[u8]) -> bool {
    FileName::new(m).is_ok()
}

/// reference for `extract_name_from_file`; Err(()) = the documented fatal panic ("leads to
/// invalid content"), which the generator avoids
fn reference_extract(prefix: &[u8], suffix: &[u8], file: &[u8]) -> Result<Option<Vec<u8>>, ()> {
    let Some(rest) = file.strip_prefix(prefix) else { return Ok(None) };
    if !legal_middle(rest) {
        return Err(());
    }
    let Some(mid) = rest.strip_suffix(suffix) else { return Ok(None) };
    if !legal_middle(mid) {
        return Err(());
    }
    Ok(Some(mid.to_vec()))
}

fn run(c: &NameCase, obs: &mut Obs) -> Result<(), Failure> {
    let p1 = PREFIXES[c.prefix as usize % 6].to_string();
    let s1 = SUFFIXES[c.suffix as usize % 6].to_string();
    let (p2, s2) = match c.rel % 6 {
        0 => (format!("{p1}{}", DIGITS[c.ext as usize % 4]), s1.clone()),
        1 => (format!("{p1}{}", LETTERS[c.ext as usize % 4]), s1.clone()),
        2 => (format!("q{}", PREFIXES[(c.prefix as usize + 1) % 6]), s1.clone()),
        3 => (p1.clone(), SUFFIXES[(c.suffix as usize + 1) % 6].to_string()),
        4 => (p1.clone(), format!("{s1}{}", EXTRA[c.ext as usize % 4])),
        _ => (p1.clone(), format!("{}{s1}", EXTRA[c.ext as usize % 4])),
    };
    let base = vcore::util::run_dir().join(format!("n{}", COUNTER.fetch_add(1, Ordering::Relaxed)));
    let dir = if DIRS[c.dir as usize % 4].is_empty() { base.clone() } else { base.join(DIRS[c.dir as usize % 4]) };
    let hint = Path::new(dir.to_str().unwrap().as_bytes()).unwrap();
    let cfg = |p: &str, s: &str| Configuration::default().prefix(&FileName::new(p.as_bytes()).unwrap()).suffix(&FileName::new(s.as_bytes()).unwrap()).path_hint(&hint);
    let (c1, c2) = (cfg(&p1, &s1), cfg(&p2, &s2));
    ensure!(c1.get_prefix().as_bytes() == p1.as_bytes() && c1.get_suffix().as_bytes() == s1.as_bytes() && *c1.get_path_hint() == hint, "naming.configuration", "configuration getters do not return what was set");

    // ---- a legal name: path_for and its inverse
    let mut name = c.name.bytes(40);
    name.truncate(40);
    if FileName::new(&name).is_err() {
        name = b"n".to_vec();
        obs.class("naming.name_replaced_by_default");
    }
    let n = FileName::new(&name).unwrap();
    for (k, (cf, p, s)) in [(&c1, &p1, &s1), (&c2, &p2, &s2)].iter().enumerate() {
        let fp = cf.path_for(&n);
        let want = [hint.as_bytes(), b"/", p.as_bytes(), &name, s.as_bytes()].concat();
        ensure!(fp.as_bytes() == want && FilePath::new(fp.as_bytes()).is_ok(), "naming.path_for", "configuration {k} (prefix '{p}', suffix '{s}'): path_for({}) = {}, expected {}", esc(&name), esc(fp.as_bytes()), esc(&want));
        let back = cf.extract_name_from_path(&fp);
        ensure!(back.map(|b| b.as_bytes().to_vec()) == Some(name.clone()), "naming.extract_not_inverse", "configuration {k} (prefix '{p}', suffix '{s}'): extract_name_from_path(path_for({})) = {:?}", esc(&name), back.map(|b| esc(b.as_bytes())));
        let back = cf.extract_name_from_file(&fp.file_name());
        ensure!(back.map(|b| b.as_bytes().to_vec()) == Some(name.clone()), "naming.extract_not_inverse", "configuration {k} (prefix '{p}', suffix '{s}'): extract_name_from_file(path_for({}).file_name()) = {:?}", esc(&name), back.map(|b| esc(b.as_bytes())));
        // same file in another directory is not a name of this configuration
        let other_dir = Path::new(base.join("elsewhere").to_str().unwrap().as_bytes()).unwrap();
        let moved = FilePath::from_path_and_file(&other_dir, &fp.file_name()).unwrap();
        ensure!(cf.extract_name_from_path(&moved).is_none(), "naming.extract_ignores_directory", "configuration {k}: extract_name_from_path({}) is Some although the path hint is {}", esc(moved.as_bytes()), esc(hint.as_bytes()));
    }
    // ---- the file of one configuration seen by the other one
    let f1 = c1.path_for(&n).file_name();
    let f2 = c2.path_for(&n).file_name();
    for (who, cf, p, s, f) in [("1 sees 2", &c1, &p1, &s1, &f2), ("2 sees 1", &c2, &p2, &s2, &f1)] {
        let Ok(want) = reference_extract(p.as_bytes(), s.as_bytes(), f.as_bytes()) else { continue };
        let got = cf.extract_name_from_file(f).map(|b| b.as_bytes().to_vec());
        ensure!(got == want, "naming.extract_foreign_file", "{who}: configuration (prefix '{p}', suffix '{s}'): extract_name_from_file({}) = {:?}, expected {:?} (a file is a name of the configuration only if it carries its prefix and its suffix)", esc(f.as_bytes()), got.as_deref().map(esc), want.as_deref().map(esc));
        if want.is_some() {
            // the scheme is not injective across configurations (root cause of the known finding)
            obs.class("naming.foreign_file_parses_under_other_configuration");
            obs.nontrivial = true;
        }
    }
    // ---- an arbitrary file name
    let mut mid = c.file.bytes(30);
    mid.truncate(30);
    let mut file = vec![];
    if c.keep & 1 != 0 {
        file.extend_from_slice(p1.as_bytes());
    }
    file.extend_from_slice(&mid);
    if c.keep & 2 != 0 {
        file.extend_from_slice(s1.as_bytes());
    }
    if let Ok(f) = FileName::new(&file) {
        match reference_extract(p1.as_bytes(), s1.as_bytes(), &file) {
            Ok(want) => {
                let got = c1.extract_name_from_file(&f).map(|b| b.as_bytes().to_vec());
                ensure!(got == want, "naming.extract_arbitrary_file", "configuration (prefix '{p1}', suffix '{s1}'): extract_name_from_file({}) = {:?}, expected {:?}", esc(&file), got.as_deref().map(esc), want.as_deref().map(esc));
                obs.class(match (file.starts_with(p1.as_bytes()), file.ends_with(s1.as_bytes())) {
                    (true, true) => "naming.file_with_prefix_and_suffix",
                    (true, false) => "naming.file_with_prefix_only",
                    (false, true) => "naming.file_with_suffix_only",
                    _ => "naming.file_with_neither",
                });
                if file.starts_with(p1.as_bytes()) != file.ends_with(s1.as_bytes()) {
                    obs.nontrivial = true;
                }
            }
            Err(()) => obs.class("naming.file_excluded_documented_panic"),
        }
    }
    // ---- on the real file system: each configuration lists only its own storages
    if c.on_disk {
        obs.class("naming.on_disk");
        let r = (|| -> Result<(), Failure> {
            let mk = |cf: &Configuration, nm: &[u8]| Builder::new(&FileName::new(nm).unwrap()).config(cf).has_ownership(true).create(b"content").map_err(|e| Failure::new("naming.on_disk", format!("static storage {} cannot be created: {e:?}", esc(nm))));
            let a = mk(&c1, &name)?;
            let b = mk(&c2, &name)?;
            let b2 = mk(&c2, b"second")?;
            for (who, cf, p, s, want_names) in [("1", &c1, &p1, &s1, vec![name.clone()]), ("2", &c2, &p2, &s2, vec![name.clone(), b"second".to_vec()])] {
                // a foreign file that carries this configuration's prefix but whose remainder is not a legal
                // file name (e.g. prefix 'iox2_-' and the other configuration's storage '-': 'iox2_-.service'
                // has an empty name here) runs into the fatal panic of extract_name_from_file ("leads to
                // invalid content") that the pure-function part above excludes as well
                let foreign: Vec<Vec<u8>> = if who == "1" { vec![name.clone(), b"second".to_vec()] } else { vec![name.clone()] };
                let (fp, fs) = if who == "1" { (&p2, &s2) } else { (&p1, &s1) };
                if foreign.iter().any(|on| reference_extract(p.as_bytes(), s.as_bytes(), &[fp.as_bytes(), on, fs.as_bytes()].concat()).is_err()) {
                    obs.class("naming.on_disk_listing_excluded_documented_panic");
                    continue;
                }
                let mut got: Vec<Vec<u8>> = Storage::list_cfg(cf).map_err(|e| Failure::new("naming.on_disk", format!("list_cfg: {e:?}")))?.iter().map(|f| f.as_bytes().to_vec()).collect();
                got.sort();
                let mut want = want_names.clone();
                // what the other configuration's files look like under this one (documented ambiguity excluded above is part of the reference)
                let (op, os, onames): (&String, &String, Vec<Vec<u8>>) = if who == "1" { (&p2, &s2, vec![name.clone(), b"second".to_vec()]) } else { (&p1, &s1, vec![name.clone()]) };
                for on in onames {
                    let of = [op.as_bytes(), &on, os.as_bytes()].concat();
                    if let Ok(Some(alias)) = reference_extract(p.as_bytes(), s.as_bytes(), &of) {
                        want.push(alias);
                    }
                }
                want.sort();
                want.dedup();
                got.dedup();
                ensure!(got == want, "naming.list_sees_foreign_storage", "configuration {who} (prefix '{p}', suffix '{s}') lists {:?} in a directory shared with (prefix '{op}', suffix '{os}'); expected {:?}", got.iter().map(|g| esc(g)).collect::<Vec<_>>(), want.iter().map(|g| esc(g)).collect::<Vec<_>>());
                ensure!(Storage::does_exist_cfg(&FileName::new(b"second").unwrap(), cf).unwrap_or(true) == want.contains(&b"second".to_vec()), "naming.list_sees_foreign_storage", "configuration {who}: does_exist_cfg(\"second\") is wrong");
            }
            drop(a);
            drop(b);
            drop(b2);
            Ok(())
        })();
        let _ = std::fs::remove_dir_all(&base);
        r?;
    }
    Ok(())
}

pub fn scheme(ctx: &mut Ctx) {
    ctx.proptest("naming.scheme", ctx.scale(60_000, 600_000), strategy(), |c: &NameCase, obs: &mut Obs| run(c, obs));
}
