//! Part 1 — validation: the constructors of every semantic string type against the reference
//! predicates of `refpred`, round trips, the type-specific safety statements of the property,
//! composition (`Path::add_path_entry`, `FilePath::from_path_and_file`), normalisation laws and a
//! short edit history on accepted values.
use crate::refpred::{self, Expect, Ty};
use iceoryx2::node::node_name::NodeName;
use iceoryx2::port::port_name::PortName;
use iceoryx2::service::service_name::{ServiceName, ServiceNameError};
use iceoryx2_bb_container::semantic_string::{SemanticString, SemanticStringError};
use iceoryx2_bb_system_types::base64url::Base64Url;
use iceoryx2_bb_system_types::file_name::{FileName, RestrictedFileName};
use iceoryx2_bb_system_types::file_path::FilePath;
use iceoryx2_bb_system_types::group_name::GroupName;
use iceoryx2_bb_system_types::path::Path;
use iceoryx2_bb_system_types::user_name::UserName;
use proptest::prelude::*;
use serde::{Deserialize, Serialize};
use std::cell::RefCell;
use std::collections::BTreeMap;
use vcore::util::idx;
use vcore::{Ctx, Failure, Obs, ensure, fail};

/// `FilePath::from_path_and_file` panics (debug assertion of the unchecked helper it delegates to)
/// when the joined length is capacity-1 or capacity, although the result fits
pub const SIG_FROM_PATH_AND_FILE_BOUNDARY: &str = "compose.from_path_and_file.debug_assert_rejects_result_that_fits";
/// a byte the String layer rejects (NUL, >= 0x80) is reported as ExceedsMaximumLength
pub const SIG_ERROR_KIND_INVALID_BYTE: &str = "validate.error_kind.invalid_byte_reported_as_exceeds_maximum_length";
/// `Path::entries()` hands out `FileName`s that `FileName::new` rejects (`.`, `..`, `a\b`)
pub const SIG_PATH_ENTRIES: &str = "validate.path.entries_yields_invalid_file_name";
/// `FilePath::file_name()` hands out a `FileName` that `FileName::new` rejects (`\` in the last component)
pub const SIG_FILE_PATH_FILE_NAME: &str = "validate.file_path.file_name_yields_invalid_file_name";

#[derive(Clone, Copy, Debug, PartialEq, Eq)]
pub enum Real {
    Accept,
    Invalid,
    TooLong,
}

pub fn cap(ty: Ty) -> usize {
    match ty {
        Ty::FileName => FileName::max_len(),
        Ty::Restricted8 => 8,
        Ty::Path => Path::max_len(),
        Ty::FilePath => FilePath::max_len(),
        Ty::UserName => UserName::max_len(),
        Ty::GroupName => GroupName::max_len(),
        Ty::Base64Url => Base64Url::max_len(),
        Ty::ServiceName => ServiceName::max_len(),
        Ty::NodeName => NodeName::max_len(),
        Ty::PortName => PortName::max_len(),
    }
}

pub fn esc(b: &[u8]) -> String {
    let mut s = String::from("b\"");
    for c in b.iter().take(300) {
        match c {
            b'"' => s.push_str("\\\""),
            b'\\' => s.push_str("\\\\"),
            32..=126 => s.push(*c as char),
            _ => s.push_str(&format!("\\x{c:02x}")),
        }
    }
    if b.len() > 300 {
        s.push_str("...");
    }
    s.push('"');
    format!("{s} (len {})", b.len())
}

fn sig(ty: Ty, what: &str) -> String {
    format!("validate.{}.{}", ty.short(), what)
}

fn sem<const C: usize, S: SemanticString<C>>(ty: Ty, b: &[u8]) -> Result<Real, Failure> {
    match S::new(b) {
        Ok(v) => {
            ensure!(v.as_bytes() == b && v.len() == b.len(), sig(ty, "round_trip"), "{}::new({}) is Ok but as_bytes() = {}", ty.name(), esc(b), esc(v.as_bytes()));
            ensure!(b.len() <= C && v.capacity() == C, sig(ty, "round_trip"), "{}::new({}) is Ok although the capacity is {}", ty.name(), esc(b), C);
            match S::new(v.as_bytes()) {
                Ok(w) => ensure!(w == v && w.as_bytes() == v.as_bytes(), sig(ty, "round_trip"), "{}::new(x.as_bytes()) differs from x = {}", ty.name(), esc(b)),
                Err(e) => fail!(sig(ty, "round_trip"), "{}::new(x.as_bytes()) fails with {e:?} for the accepted x = {}", ty.name(), esc(b)),
            }
            let c = unsafe { std::ffi::CStr::from_ptr(v.as_c_str()) };
            ensure!(c.to_bytes() == b, sig(ty, "round_trip"), "as_c_str() of the accepted {} {} reads {}", ty.name(), esc(b), esc(c.to_bytes()));
            let d: &[u8] = &v;
            ensure!(d == b, sig(ty, "round_trip"), "deref of the accepted {} {} reads {}", ty.name(), esc(b), esc(d));
            Ok(Real::Accept)
        }
        Err(SemanticStringError::InvalidContent) => Ok(Real::Invalid),
        Err(SemanticStringError::ExceedsMaximumLength) => Ok(Real::TooLong),
    }
}

fn service_name(b: &[u8]) -> Result<Real, Failure> {
    use iceoryx2_ffi_c::*;
    let ty = Ty::ServiceName;
    let mut h: iox2_service_name_h = std::ptr::null_mut();
    let rc = unsafe { iox2_service_name_new(std::ptr::null_mut(), b.as_ptr() as *const _, b.len() as _, &mut h) };
    let ffi = if rc == IOX2_OK {
        ensure!(!h.is_null(), sig(ty, "round_trip"), "iox2_service_name_new returned IOX2_OK and a null handle for {}", esc(b));
        let mut len: usize = 0;
        let got = unsafe {
            let p = iox2_service_name_as_chars(iox2_cast_service_name_ptr(h), &mut len as *mut usize as *mut _);
            std::slice::from_raw_parts(p as *const u8, len).to_vec()
        };
        unsafe { iox2_service_name_drop(h) };
        ensure!(got == b, sig(ty, "round_trip"), "C binding: accepted service name {} reads back as {}", esc(b), esc(&got));
        Real::Accept
    } else if rc == iox2_semantic_string_error_e::INVALID_CONTENT as i32 {
        Real::Invalid
    } else if rc == iox2_semantic_string_error_e::EXCEEDS_MAXIMUM_LENGTH as i32 {
        Real::TooLong
    } else {
        fail!(sig(ty, "error_kind"), "iox2_service_name_new returned the undocumented code {rc} for {}", esc(b));
    };
    if let Ok(s) = std::str::from_utf8(b) {
        let rust = match ServiceName::new(s) {
            Ok(v) => {
                ensure!(v.as_str() == s && &*v == s, sig(ty, "round_trip"), "ServiceName::new({}) is Ok but as_str() = {:?}", esc(b), v.as_str());
                match ServiceName::new(v.as_str()) {
                    Ok(w) => ensure!(w == v, sig(ty, "round_trip"), "ServiceName::new(x.as_str()) differs from x = {}", esc(b)),
                    Err(e) => fail!(sig(ty, "round_trip"), "ServiceName::new(x.as_str()) fails with {e:?} for the accepted x = {}", esc(b)),
                }
                Real::Accept
            }
            Err(ServiceNameError::InvalidContent) => Real::Invalid,
            Err(ServiceNameError::ExceedsMaximumLength) => Real::TooLong,
        };
        ensure!(rust == ffi, sig(ty, "binding_disagrees"), "ServiceName::new says {rust:?}, iox2_service_name_new says {ffi:?} for {}", esc(b));
    } else {
        ensure!(ffi != Real::Accept, sig(ty, "accepted_but_documented_illegal"), "iox2_service_name_new accepts the invalid UTF-8 string {}", esc(b));
    }
    Ok(ffi)
}

fn node_name(b: &[u8]) -> Result<Real, Failure> {
    use iceoryx2_ffi_c::*;
    let ty = Ty::NodeName;
    let mut h: iox2_node_name_h = std::ptr::null_mut();
    let rc = unsafe { iox2_node_name_new(std::ptr::null_mut(), b.as_ptr() as *const _, b.len() as _, &mut h) };
    let ffi = if rc == IOX2_OK {
        ensure!(!h.is_null(), sig(ty, "round_trip"), "iox2_node_name_new returned IOX2_OK and a null handle for {}", esc(b));
        let mut len: usize = 0;
        let got = unsafe {
            let p = iox2_node_name_as_chars(iox2_cast_node_name_ptr(h), &mut len as *mut usize as *mut _);
            std::slice::from_raw_parts(p as *const u8, len).to_vec()
        };
        unsafe { iox2_node_name_drop(h) };
        ensure!(got == b, sig(ty, "round_trip"), "C binding: accepted node name {} reads back as {}", esc(b), esc(&got));
        Real::Accept
    } else if rc == iox2_semantic_string_error_e::INVALID_CONTENT as i32 {
        Real::Invalid
    } else if rc == iox2_semantic_string_error_e::EXCEEDS_MAXIMUM_LENGTH as i32 {
        Real::TooLong
    } else {
        fail!(sig(ty, "error_kind"), "iox2_node_name_new returned the undocumented code {rc} for {}", esc(b));
    };
    if let Ok(s) = std::str::from_utf8(b) {
        let rust = match NodeName::new(s) {
            Ok(v) => {
                ensure!(v.as_str() == s, sig(ty, "round_trip"), "NodeName::new({}) is Ok but as_str() = {:?}", esc(b), v.as_str());
                match NodeName::new(v.as_str()) {
                    Ok(w) => ensure!(w == v, sig(ty, "round_trip"), "NodeName::new(x.as_str()) differs from x = {}", esc(b)),
                    Err(e) => fail!(sig(ty, "round_trip"), "NodeName::new(x.as_str()) fails with {e:?} for the accepted x = {}", esc(b)),
                }
                Real::Accept
            }
            Err(SemanticStringError::InvalidContent) => Real::Invalid,
            Err(SemanticStringError::ExceedsMaximumLength) => Real::TooLong,
        };
        ensure!(rust == ffi, sig(ty, "binding_disagrees"), "NodeName::new says {rust:?}, iox2_node_name_new says {ffi:?} for {}", esc(b));
    } else {
        ensure!(ffi != Real::Accept, sig(ty, "accepted_but_documented_illegal"), "iox2_node_name_new accepts the invalid UTF-8 string {}", esc(b));
    }
    Ok(ffi)
}

fn port_name(b: &[u8]) -> Result<Real, Failure> {
    let ty = Ty::PortName;
    // `PortName::new` takes a &str: a byte string that is not UTF-8 cannot be supplied at all
    let Ok(s) = std::str::from_utf8(b) else { return Ok(Real::Invalid) };
    Ok(match PortName::new(s) {
        Ok(v) => {
            ensure!(v.as_str() == s, sig(ty, "round_trip"), "PortName::new({}) is Ok but as_str() = {:?}", esc(b), v.as_str());
            match PortName::new(v.as_str()) {
                Ok(w) => ensure!(w == v, sig(ty, "round_trip"), "PortName::new(x.as_str()) differs from x = {}", esc(b)),
                Err(e) => fail!(sig(ty, "round_trip"), "PortName::new(x.as_str()) fails with {e:?} for the accepted x = {}", esc(b)),
            }
            if s.is_empty() {
                ensure!(v == PortName::new_empty(), sig(ty, "round_trip"), "PortName::new(\"\") differs from PortName::new_empty()");
            }
            Real::Accept
        }
        Err(SemanticStringError::InvalidContent) => Real::Invalid,
        Err(SemanticStringError::ExceedsMaximumLength) => Real::TooLong,
    })
}

pub fn real(ty: Ty, b: &[u8]) -> Result<Real, Failure> {
    match ty {
        Ty::FileName => sem::<{ FileName::max_len() }, FileName>(ty, b),
        Ty::Restricted8 => sem::<8, RestrictedFileName<8>>(ty, b),
        Ty::Path => sem::<{ Path::max_len() }, Path>(ty, b),
        Ty::FilePath => sem::<{ FilePath::max_len() }, FilePath>(ty, b),
        Ty::UserName => sem::<{ UserName::max_len() }, UserName>(ty, b),
        Ty::GroupName => sem::<{ GroupName::max_len() }, GroupName>(ty, b),
        Ty::Base64Url => sem::<{ Base64Url::max_len() }, Base64Url>(ty, b),
        Ty::ServiceName => service_name(b),
        Ty::NodeName => node_name(b),
        Ty::PortName => port_name(b),
    }
}

fn is_file_name(b: &[u8]) -> bool {
    FileName::new(b).is_ok()
}

/// what the property statement says about an accepted file name, independent of `refpred`
fn file_name_is_safe(b: &[u8]) -> bool {
    !b.is_empty() && !b.contains(&b'/') && !b.contains(&0) && b != b"." && b != b".."
}

/// type-specific statements about an accepted value
fn accepted_value_checks(ty: Ty, b: &[u8], known: &Known) -> Result<(), Failure> {
    match ty {
        Ty::FileName | Ty::Restricted8 | Ty::Base64Url => {
            ensure!(file_name_is_safe(b), sig(ty, "unsafe_content"), "{}::new accepts {} which contains a separator / NUL or is a traversal component", ty.name(), esc(b));
            if ty == Ty::Base64Url {
                let f = Base64Url::new(b).unwrap().as_file_name();
                ensure!(f.as_bytes() == b && is_file_name(f.as_bytes()), sig(ty, "as_file_name"), "Base64Url({}).as_file_name() = {} is not an accepted FileName", esc(b), esc(f.as_bytes()));
            } else if ty == Ty::Restricted8 {
                let f: FileName = RestrictedFileName::<8>::new(b).unwrap().into();
                ensure!(f.as_bytes() == b && is_file_name(f.as_bytes()), sig(ty, "into_file_name"), "FileName::from(RestrictedFileName({})) = {} is not an accepted FileName", esc(b), esc(f.as_bytes()));
            } else {
                let f = FileName::new(b).unwrap();
                let p: Path = f.into();
                ensure!(p.as_bytes() == b && Path::new(p.as_bytes()).is_ok(), sig(ty, "into_path"), "Path::from(FileName({})) is not an accepted Path", esc(b));
                let fp: FilePath = f.into();
                ensure!(fp.as_bytes() == b && FilePath::new(fp.as_bytes()).is_ok(), sig(ty, "into_file_path"), "FilePath::from(FileName({})) is not an accepted FilePath", esc(b));
                if b.len() <= 8 {
                    ensure!(RestrictedFileName::<8>::try_from(&f).is_ok(), sig(ty, "into_restricted"), "RestrictedFileName::<8>::try_from(FileName({})) fails", esc(b));
                }
            }
        }
        Ty::FilePath => {
            let v = FilePath::new(b).unwrap();
            let f = v.file_name();
            let p = v.path();
            let last = b.rsplit(|c| *c == b'/').next().unwrap();
            ensure!(f.as_bytes() == last, sig(ty, "file_name"), "FilePath({}).file_name() = {}, the last component is {}", esc(b), esc(f.as_bytes()), esc(last));
            ensure!(file_name_is_safe(f.as_bytes()), sig(ty, "file_name_unsafe"), "FilePath({}).file_name() = {} contains a separator / NUL or is a traversal component", esc(b), esc(f.as_bytes()));
            if !is_file_name(f.as_bytes()) {
                known.hit_or_fail(SIG_FILE_PATH_FILE_NAME, || format!("FilePath::new({}) is Ok and its file_name() = {} is a FileName value that FileName::new rejects", esc(b), esc(f.as_bytes())))?;
            }
            ensure!(Path::new(p.as_bytes()).is_ok(), sig(ty, "path_not_a_path"), "FilePath({}).path() = {} is not an accepted Path", esc(b), esc(p.as_bytes()));
            ensure!(b.starts_with(p.as_bytes()) || (p.as_bytes() == b"/" && b[0] == b'/'), sig(ty, "path"), "FilePath({}).path() = {} is not a prefix of the value", esc(b), esc(p.as_bytes()));
            ensure!(p.as_bytes().len() + f.as_bytes().len() <= b.len(), sig(ty, "path"), "FilePath({}): path() {} and file_name() {} overlap", esc(b), esc(p.as_bytes()), esc(f.as_bytes()));
            // re-joining path and file yields a file path that denotes the same file
            if is_file_name(f.as_bytes()) {
                match compose_file_path(p.as_bytes(), f.as_bytes(), known)? {
                    Some(j) => {
                        let jv = FilePath::new(&j).map_err(|e| Failure::new(sig(ty, "rejoin"), format!("from_path_and_file(path(), file_name()) of {} yields {} which FilePath::new rejects ({e:?})", esc(b), esc(&j))))?;
                        ensure!(jv.file_name().as_bytes() == f.as_bytes() && jv.path() == p, sig(ty, "rejoin"), "from_path_and_file(path(), file_name()) of {} yields {} with different parts", esc(b), esc(&j));
                    }
                    None => {}
                }
            }
            let as_path: Path = v.into();
            ensure!(as_path.as_bytes() == b && Path::new(b).is_ok(), sig(ty, "into_path"), "Path::from(FilePath({})) is not an accepted Path", esc(b));
        }
        Ty::Path => {
            let v = Path::new(b).unwrap();
            let n = v.normalize();
            let nn = n.normalize();
            ensure!(nn.as_bytes() == n.as_bytes(), sig(ty, "normalize_not_idempotent"), "Path({}).normalize() = {}, normalised again = {}", esc(b), esc(n.as_bytes()), esc(nn.as_bytes()));
            ensure!(Path::new(n.as_bytes()).is_ok() && refpred::accepts(Ty::Path, cap(Ty::Path), n.as_bytes()) != Some(false), sig(ty, "normalize_leaves_type"), "Path({}).normalize() = {} is not an accepted Path", esc(b), esc(n.as_bytes()));
            ensure!(n.len() <= v.len(), sig(ty, "normalize_grows"), "Path({}).normalize() = {} is longer than the value", esc(b), esc(n.as_bytes()));
            ensure!(v == n && n == v, sig(ty, "normalize_changes_identity"), "Path({}) != its normal form {}", esc(b), esc(n.as_bytes()));
            ensure!(v.is_absolute() == n.is_absolute() && v.is_absolute() == (b.first() == Some(&b'/')), sig(ty, "normalize_absolute"), "Path({}): is_absolute {} vs normal form {} ({})", esc(b), v.is_absolute(), esc(n.as_bytes()), n.is_absolute());
            if !b.split(|c| *c == b'/').any(|c| c == b".") {
                let want = refpred::collapse_separators(b);
                ensure!(n.as_bytes() == want, sig(ty, "normalize_separators"), "Path({}).normalize() = {}, expected {} (repeated / trailing separators removed, the documented example)", esc(b), esc(n.as_bytes()), esc(&want));
            }
            match Path::new_normalized(b) {
                Ok(m) => ensure!(m.as_bytes() == n.as_bytes(), sig(ty, "new_normalized"), "Path::new_normalized({}) = {} differs from normalize() = {}", esc(b), esc(m.as_bytes()), esc(n.as_bytes())),
                Err(e) => fail!(sig(ty, "new_normalized"), "Path::new_normalized({}) fails with {e:?} although Path::new accepts", esc(b)),
            }
            let comps: Vec<&[u8]> = b.split(|c| *c == b'/').filter(|c| !c.is_empty()).collect();
            let entries = v.entries();
            ensure!(entries.len() == comps.len() && entries.iter().zip(&comps).all(|(e, c)| e.as_bytes() == *c), sig(ty, "entries"), "Path({}).entries() = {:?}", esc(b), entries.iter().map(|e| esc(e.as_bytes())).collect::<Vec<_>>());
            for e in &entries {
                ensure!(!e.as_bytes().is_empty() && !e.as_bytes().contains(&b'/') && !e.as_bytes().contains(&0), sig(ty, "entries"), "Path({}).entries() contains {}", esc(b), esc(e.as_bytes()));
                if !is_file_name(e.as_bytes()) {
                    known.hit_or_fail(SIG_PATH_ENTRIES, || format!("Path::new({}) is Ok and entries() contains the FileName value {} that FileName::new rejects", esc(b), esc(e.as_bytes())))?;
                    break;
                }
            }
        }
        Ty::ServiceName => {
            ensure!(!b.is_empty() && !b.starts_with(b"iox2://"), sig(ty, "unsafe_content"), "ServiceName::new accepts {}", esc(b));
        }
        _ => {}
    }
    Ok(())
}

/// Known findings must not stop a case. In the generated parts the defective sub-check is left out
/// for exactly the inputs of the finding (counted as excluded inputs), the rest of the case runs; in
/// the probe part the finding is reported (the engine prints KNOWN-FINDING for open ones).
#[derive(Default)]
pub struct Known {
    open: Vec<String>,
    pending: RefCell<Option<Failure>>,
    excluded: RefCell<BTreeMap<String, u64>>,
    probe: std::cell::Cell<bool>,
}

impl Known {
    pub fn from_ctx(ctx: &Ctx, sigs: &[&str]) -> Known {
        Known { open: sigs.iter().filter(|s| ctx.is_open_finding(s)).map(|s| s.to_string()).collect(), ..Default::default() }
    }
    pub fn is_open(&self, s: &str) -> bool {
        self.open.iter().any(|o| o == s)
    }
    pub fn probe_mode(&self, on: bool) {
        self.probe.set(on);
    }
    pub fn hit_or_fail(&self, s: &str, msg: impl FnOnce() -> String) -> Result<(), Failure> {
        if !self.is_open(s) {
            return Err(Failure::new(s, msg()));
        }
        if self.probe.get() {
            let mut p = self.pending.borrow_mut();
            if p.is_none() {
                *p = Some(Failure::new(s, msg()));
            }
        } else {
            *self.excluded.borrow_mut().entry(s.to_string()).or_default() += 1;
        }
        Ok(())
    }
    pub fn begin(&self) {
        *self.pending.borrow_mut() = None;
    }
    pub fn finish(&self, r: Result<(), Failure>) -> Result<(), Failure> {
        r?;
        match self.pending.borrow_mut().take() {
            Some(f) => Err(f),
            None => Ok(()),
        }
    }
    pub fn flush(&self, ctx: &mut Ctx) {
        for (s, n) in std::mem::take(&mut *self.excluded.borrow_mut()) {
            for _ in 0..n {
                ctx.count_excluded(&s);
            }
        }
    }
}

/// compares the constructor with the reference; returns the real verdict
pub fn check(ty: Ty, b: &[u8], known: &Known) -> Result<Real, Failure> {
    let c = cap(ty);
    let e = refpred::expect(ty, c, b);
    let r = real(ty, b)?;
    match (e, r) {
        (Expect::Unspecified, _) | (Expect::Accept, Real::Accept) | (Expect::Invalid, Real::Invalid) | (Expect::TooLong, Real::TooLong) | (Expect::InvalidAndTooLong, Real::Invalid) | (Expect::InvalidAndTooLong, Real::TooLong) => {}
        (Expect::Accept, _) => fail!(sig(ty, "rejected_but_documented_legal"), "{}::new({}) fails with {r:?}; the documented rules allow this value", ty.name(), esc(b)),
        (_, Real::Accept) => fail!(sig(ty, "accepted_but_documented_illegal"), "{}::new({}) is Ok; the documented rules reject this value ({e:?})", ty.name(), esc(b)),
        (Expect::Invalid, Real::TooLong) => {
            if b.iter().any(|x| *x == 0 || *x >= 128) {
                known.hit_or_fail(SIG_ERROR_KIND_INVALID_BYTE, || format!("{}::new({}) fails with ExceedsMaximumLength; the value is shorter than the capacity {c} and contains a NUL / non-ASCII byte (InvalidContent is documented for that)", ty.name(), esc(b)))?;
            } else {
                fail!(sig(ty, "error_kind"), "{}::new({}) fails with ExceedsMaximumLength, documented: InvalidContent (length {} <= capacity {c})", ty.name(), esc(b), b.len());
            }
        }
        (Expect::TooLong, Real::Invalid) => fail!(sig(ty, "error_kind"), "{}::new({}) fails with InvalidContent, documented: ExceedsMaximumLength (legal characters, length {} > capacity {c})", ty.name(), esc(b), b.len()),
    }
    if r == Real::Accept {
        accepted_value_checks(ty, b, known)?;
    }
    Ok(r)
}

fn join(p: &[u8], e: &[u8]) -> Vec<u8> {
    let mut v = p.to_vec();
    if !p.is_empty() && p.last() != Some(&b'/') {
        v.push(b'/');
    }
    v.extend_from_slice(e);
    v
}

/// `FilePath::from_path_and_file` on an accepted path and an accepted file name; Some(bytes) when it
/// returned Ok
fn compose_file_path(p: &[u8], f: &[u8], known: &Known) -> Result<Option<Vec<u8>>, Failure> {
    let pv = Path::new(p).unwrap();
    let fv = FileName::new(f).unwrap();
    let want = join(p, f);
    let c = FilePath::max_len();
    let r = std::panic::catch_unwind(|| FilePath::from_path_and_file(&pv, &fv));
    let r = match r {
        Ok(r) => r,
        Err(e) => {
            let m = vcore::util::panic_message(&e);
            if want.len() <= c && want.len() + 1 >= c && m.contains("assertion failed") {
                known.hit_or_fail(SIG_FROM_PATH_AND_FILE_BOUNDARY, || format!("FilePath::from_path_and_file(Path of {} bytes, FileName of {} bytes): the result has {} bytes (capacity {c}) and the call panics: {m}", p.len(), f.len(), want.len()))?;
                return Ok(None);
            }
            fail!("compose.from_path_and_file.panic", "FilePath::from_path_and_file({}, {}) panics: {m}", esc(p), esc(f));
        }
    };
    match r {
        Ok(v) => {
            ensure!(want.len() <= c, "compose.from_path_and_file", "from_path_and_file({}, {}) is Ok although the result needs {} > {c} bytes", esc(p), esc(f), want.len());
            ensure!(v.as_bytes() == want, "compose.from_path_and_file", "from_path_and_file({}, {}) = {}, expected {}", esc(p), esc(f), esc(v.as_bytes()), esc(&want));
            ensure!(refpred::accepts(Ty::FilePath, c, v.as_bytes()) != Some(false) && FilePath::new(v.as_bytes()).is_ok(), "compose.from_path_and_file.leaves_type", "from_path_and_file({}, {}) = {} is not an accepted FilePath", esc(p), esc(f), esc(v.as_bytes()));
            ensure!(v.file_name().as_bytes() == f, "compose.from_path_and_file", "from_path_and_file({}, {}).file_name() = {}", esc(p), esc(f), esc(v.file_name().as_bytes()));
            Ok(Some(want))
        }
        Err(e) => {
            ensure!(want.len() > c && e == SemanticStringError::ExceedsMaximumLength, "compose.from_path_and_file", "from_path_and_file({}, {}) fails with {e:?}; the result {} is a legal file path of {} <= {c} bytes", esc(p), esc(f), esc(&want), want.len());
            Ok(None)
        }
    }
}

fn compose_path(p: &[u8], e: &[u8]) -> Result<(), Failure> {
    let mut v = Path::new(p).unwrap();
    let ev = Path::new(e).unwrap();
    let want = join(p, e);
    let c = Path::max_len();
    match v.add_path_entry(&ev) {
        Ok(()) => {
            ensure!(want.len() <= c, "compose.add_path_entry", "Path({}).add_path_entry({}) is Ok although the result needs {} > {c} bytes", esc(p), esc(e), want.len());
            ensure!(v.as_bytes() == want, "compose.add_path_entry", "Path({}).add_path_entry({}) = {}, expected {}", esc(p), esc(e), esc(v.as_bytes()), esc(&want));
            ensure!(Path::new(v.as_bytes()).is_ok(), "compose.add_path_entry.leaves_type", "Path({}).add_path_entry({}) = {} is not an accepted Path", esc(p), esc(e), esc(v.as_bytes()));
        }
        Err(err) => {
            ensure!(want.len() > c && err == SemanticStringError::ExceedsMaximumLength, "compose.add_path_entry", "Path({}).add_path_entry({}) fails with {err:?}; the result has {} <= {c} bytes", esc(p), esc(e), want.len());
            // the documentation does not promise an untouched value; it must still be a path
            ensure!(refpred::accepts(Ty::Path, c, v.as_bytes()) == Some(true) && Path::new(v.as_bytes()).is_ok() && (v.as_bytes() == p || v.as_bytes() == join(p, b"")), "compose.add_path_entry.leaves_type", "after the failed Path({}).add_path_entry({}) the value is {}", esc(p), esc(e), esc(v.as_bytes()));
        }
    }
    Ok(())
}

// ---------------------------------------------------------------------------------------------
// non-triviality: within one edit of the accept / reject boundary

const REPS: [u8; 16] = [b'a', b'Z', b'0', b'-', b'_', b'.', b'/', b'\\', 0, 1, b' ', b':', b'*', 0x7f, 0x80, 0xc3];

/// a single-byte-change neighbour (substitution, insertion, deletion at one of `positions`) whose
/// documented verdict is the opposite of `verdict`
pub fn boundary_witness(ty: Ty, s: &[u8], verdict: bool, positions: &[usize]) -> Option<Vec<u8>> {
    let c = cap(ty);
    let mut n: Vec<u8> = Vec::with_capacity(s.len() + 1);
    for &i in positions {
        if i < s.len() {
            n.clear();
            n.extend_from_slice(&s[..i]);
            n.extend_from_slice(&s[i + 1..]);
            if refpred::accepts(ty, c, &n) == Some(!verdict) {
                return Some(n);
            }
            n.clear();
            n.extend_from_slice(s);
            for r in REPS {
                if r != s[i] {
                    n[i] = r;
                    if refpred::accepts(ty, c, &n) == Some(!verdict) {
                        return Some(n);
                    }
                }
            }
        }
        if i <= s.len() {
            n.clear();
            n.extend_from_slice(&s[..i]);
            n.push(0);
            n.extend_from_slice(&s[i..]);
            for r in REPS {
                n[i] = r;
                if refpred::accepts(ty, c, &n) == Some(!verdict) {
                    return Some(n);
                }
            }
        }
    }
    None
}

fn positions_of(s: &[u8]) -> Vec<usize> {
    if s.len() <= 8 {
        return (0..=s.len()).collect();
    }
    let mut v = vec![0, 1, 2, s.len() - 2, s.len() - 1, s.len()];
    // around the first few bytes that are not plain letters (where the structure is)
    for (i, b) in s.iter().enumerate() {
        if !b.is_ascii_alphabetic() {
            v.push(i);
            v.push(i + 1);
            if v.len() > 14 {
                break;
            }
        }
    }
    v.sort();
    v.dedup();
    v
}

// ---------------------------------------------------------------------------------------------
// bounded-exhaustive part

#[derive(Clone, Debug, Serialize, Deserialize)]
pub struct Block {
    /// index into refpred::ALL
    pub ty: u8,
    /// all strings `prefix + [b]`, b in 0..=255 — or, with `single`, the string `prefix` itself
    pub prefix: Vec<u8>,
    pub single: bool,
}

#[derive(Default)]
struct Counters(BTreeMap<String, u64>);

impl Counters {
    fn add(&mut self, k: String, n: u64) {
        *self.0.entry(k).or_default() += n;
    }
}

fn blocks(max_len: impl Fn(Ty) -> usize) -> impl Iterator<Item = Block> {
    let types: Vec<(u8, usize)> = refpred::ALL.iter().enumerate().map(|(i, t)| (i as u8, max_len(*t))).collect();
    let mut v: Vec<Block> = vec![];
    for (ty, _) in &types {
        v.push(Block { ty: *ty, prefix: vec![], single: true });
    }
    for len in 1..=3usize {
        for (ty, max) in &types {
            if len > *max {
                continue;
            }
            let n = 256usize.pow(len as u32 - 1);
            for i in 0..n {
                let mut prefix = vec![];
                let mut x = i;
                for _ in 0..len - 1 {
                    prefix.push((x % 256) as u8);
                    x /= 256;
                }
                prefix.reverse();
                v.push(Block { ty: *ty, prefix, single: false });
            }
        }
    }
    v.into_iter()
}

fn one_string(ty: Ty, s: &[u8], known: &Known, cnt: &mut [u64; 4]) -> Result<(), Failure> {
    let r = check(ty, s, known)?;
    let verdict = r == Real::Accept;
    cnt[if verdict { 0 } else { 1 }] += 1;
    let documented = refpred::accepts(ty, cap(ty), s);
    if documented.is_none() {
        cnt[3] += 1;
        return Ok(());
    }
    let pos: Vec<usize> = (0..=s.len()).collect();
    if let Some(w) = boundary_witness(ty, s, verdict, &pos) {
        // the neighbour really is on the other side
        let rw = real(ty, &w)?;
        ensure!((rw == Real::Accept) != verdict, sig(ty, if rw == Real::Accept { "accepted_but_documented_illegal" } else { "rejected_but_documented_legal" }), "{}::new({}) = {rw:?}; by the documented rules it is on the other side of the boundary than its neighbour {}", ty.name(), esc(&w), esc(s));
        cnt[2] += 1;
    }
    Ok(())
}

pub fn exhaustive(ctx: &mut Ctx, known: &Known) {
    let part = "validate.exhaustive";
    let quick = ctx.quick();
    let max_len = move |t: Ty| if !quick || matches!(t, Ty::FileName | Ty::Path | Ty::FilePath) { 3 } else { 2 };
    let counters = RefCell::new(Counters::default());
    let dim = if quick {
        "all byte strings over 0..=255 of length 0..=3 for FileName, Path and FilePath, 0..=2 for the other seven types (one case = the 256 strings sharing a prefix)"
    } else {
        "all byte strings over 0..=255 of length 0..=3 for all ten types (one case = the 256 strings sharing a prefix)"
    };
    ctx.enumerate(part, dim, blocks(max_len), |blk: &Block, obs: &mut Obs| {
        known.begin();
        let ty = Ty::from_index(blk.ty);
        let mut cnt = [0u64; 4];
        let mut r = Ok(());
        if blk.single {
            r = one_string(ty, &blk.prefix, known, &mut cnt);
        } else {
            let mut s = blk.prefix.clone();
            s.push(0);
            let last = s.len() - 1;
            for b in 0..=255u8 {
                s[last] = b;
                r = one_string(ty, &s, known, &mut cnt);
                if r.is_err() {
                    break;
                }
            }
        }
        let mut c = counters.borrow_mut();
        c.add(format!("enum.{}.accepted", ty.short()), cnt[0]);
        c.add(format!("enum.{}.rejected", ty.short()), cnt[1]);
        c.add(format!("enum.{}.strings_at_boundary", ty.short()), cnt[2]);
        c.add("enum.strings_evaluated".to_string(), cnt[0] + cnt[1]);
        if cnt[3] > 0 {
            c.add(format!("enum.{}.unspecified_by_documentation", ty.short()), cnt[3]);
        }
        obs.nontrivial = cnt[2] > 0;
        if cnt[0] > 0 && cnt[1] > 0 {
            obs.class("enum.block_with_both_verdicts");
        }
        known.finish(r)
    });
    for (k, n) in counters.into_inner().0 {
        ctx.class(&k, n);
    }
}

// ---------------------------------------------------------------------------------------------
// structured random part

#[derive(Clone, Debug, Serialize, Deserialize)]
pub enum Tok {
    /// a plain letter / digit / `-` / `_`
    Legal(u8),
    Sep,
    BackSep,
    Dot,
    DotDot,
    Nul,
    Ctrl(u8),
    Del,
    /// bytes that are not UTF-8
    BadUtf8(u8),
    /// valid multi-byte UTF-8
    Utf8(u8),
    /// `< > : " | ? *`
    Reserved(u8),
    Space,
    Dollar,
    Pad,
    Iox2,
    Word(u8),
    Byte(u8),
}

const LEGAL: &[u8] = b"abzAZ019-_xyQ";
const BAD: &[&[u8]] = &[&[0x80], &[0xff], &[0xc3, 0x28], &[0xe2, 0x82], &[0xc0, 0xaf], &[0xed, 0xa0, 0x80]];
const GOOD_UTF8: &[&[u8]] = &["é".as_bytes(), "€".as_bytes(), "😀".as_bytes(), "\u{80}".as_bytes()];
const RESERVED: &[u8] = b"<>:\"|?*";
const WORDS: &[&[u8]] = &[b"nodes", b"services", b"tmp", b"file.txt", b"iox2_", b".service", b".hidden", b"a.b.c", b"root", b"some-user", b"C:", b"My/Funk/ServiceName", b"iox2:/", b"Iox2://", b"...", b"-x", b"9lives", b"~"];

impl Tok {
    fn bytes(&self, out: &mut Vec<u8>) {
        match self {
            Tok::Legal(i) => out.push(LEGAL[*i as usize % LEGAL.len()]),
            Tok::Sep => out.push(b'/'),
            Tok::BackSep => out.push(b'\\'),
            Tok::Dot => out.push(b'.'),
            Tok::DotDot => out.extend_from_slice(b".."),
            Tok::Nul => out.push(0),
            Tok::Ctrl(c) => out.push(1 + c % 31),
            Tok::Del => out.push(0x7f),
            Tok::BadUtf8(i) => out.extend_from_slice(BAD[*i as usize % BAD.len()]),
            Tok::Utf8(i) => out.extend_from_slice(GOOD_UTF8[*i as usize % GOOD_UTF8.len()]),
            Tok::Reserved(i) => out.push(RESERVED[*i as usize % RESERVED.len()]),
            Tok::Space => out.push(b' '),
            Tok::Dollar => out.push(b'$'),
            Tok::Pad => out.push(b'='),
            Tok::Iox2 => out.extend_from_slice(b"iox2://"),
            Tok::Word(i) => out.extend_from_slice(WORDS[*i as usize % WORDS.len()]),
            Tok::Byte(b) => out.push(*b),
        }
    }
}

fn tok_strategy() -> impl Strategy<Value = Tok> {
    prop_oneof![
        30 => any::<u8>().prop_map(Tok::Legal),
        10 => Just(Tok::Sep),
        2 => Just(Tok::BackSep),
        6 => Just(Tok::Dot),
        4 => Just(Tok::DotDot),
        1 => Just(Tok::Nul),
        1 => any::<u8>().prop_map(Tok::Ctrl),
        1 => Just(Tok::Del),
        1 => any::<u8>().prop_map(Tok::BadUtf8),
        1 => any::<u8>().prop_map(Tok::Utf8),
        1 => any::<u8>().prop_map(Tok::Reserved),
        1 => Just(Tok::Space),
        1 => Just(Tok::Dollar),
        1 => Just(Tok::Pad),
        1 => Just(Tok::Iox2),
        6 => any::<u8>().prop_map(Tok::Word),
        1 => any::<u8>().prop_map(Tok::Byte),
    ]
}

/// brings the string to capacity + delta by inserting filler at one place
#[derive(Clone, Debug, Serialize, Deserialize)]
pub struct Stretch {
    pub delta: i8,
    pub at: u16,
    /// 0: 'a', 1: '/', 2: "a/", 3: '.'
    pub fill: u8,
}

#[derive(Clone, Debug, Serialize, Deserialize)]
pub struct Gen {
    pub toks: Vec<Tok>,
    pub stretch: Option<Stretch>,
}

impl Gen {
    pub fn bytes(&self, cap: usize) -> Vec<u8> {
        let mut v = vec![];
        for t in &self.toks {
            t.bytes(&mut v);
        }
        if let Some(s) = &self.stretch {
            let target = (cap as i64 + s.delta as i64).max(0) as usize;
            if v.len() < target {
                let at = idx(s.at, v.len() + 1);
                let need = target - v.len();
                let filler: Vec<u8> = match s.fill % 4 {
                    0 => vec![b'a'; need],
                    1 => vec![b'/'; need],
                    2 => (0..need).map(|i| if i % 9 == 8 { b'/' } else { b'a' }).collect(),
                    _ => vec![b'.'; need],
                };
                v.splice(at..at, filler);
            }
        }
        v
    }
}

pub fn gen_strategy_pub(max_toks: usize) -> impl Strategy<Value = Gen> {
    gen_strategy(max_toks)
}

fn gen_strategy(max_toks: usize) -> impl Strategy<Value = Gen> {
    (
        proptest::collection::vec(tok_strategy(), 0..=max_toks),
        proptest::option::weighted(0.3, (-2i8..=2, any::<u16>(), 0u8..4).prop_map(|(delta, at, fill)| Stretch { delta, at, fill })),
    )
        .prop_map(|(toks, stretch)| Gen { toks, stretch })
}

#[derive(Clone, Debug, Serialize, Deserialize)]
pub enum Edit {
    Push(Tok),
    Insert(u16, Tok),
    Pop,
    Remove(u16),
    RemoveRange(u16, u16),
    Truncate(u16),
    StripHead(u16),
    StripTail(u16),
    StripPrefix(Tok),
    StripSuffix(Tok),
    /// removes every occurrence of the n-th byte of the value
    RetainNot(u16),
}

fn edit_strategy() -> impl Strategy<Value = Edit> {
    prop_oneof![
        tok_strategy().prop_map(Edit::Push),
        (any::<u16>(), tok_strategy()).prop_map(|(i, t)| Edit::Insert(i, t)),
        Just(Edit::Pop),
        any::<u16>().prop_map(Edit::Remove),
        (any::<u16>(), any::<u16>()).prop_map(|(i, n)| Edit::RemoveRange(i, n)),
        any::<u16>().prop_map(Edit::Truncate),
        any::<u16>().prop_map(Edit::StripHead),
        any::<u16>().prop_map(Edit::StripTail),
        tok_strategy().prop_map(Edit::StripPrefix),
        tok_strategy().prop_map(Edit::StripSuffix),
        any::<u16>().prop_map(Edit::RetainNot),
    ]
}

#[derive(Clone, Debug, Serialize, Deserialize)]
pub struct StrCase {
    pub ty: u8,
    pub main: Gen,
    pub other: Gen,
    pub edits: Vec<Edit>,
}

fn case_strategy() -> impl Strategy<Value = StrCase> {
    (0u8..refpred::ALL.len() as u8, gen_strategy(12), gen_strategy(6), proptest::collection::vec(edit_strategy(), 0..6)).prop_map(|(ty, main, other, edits)| StrCase { ty, main, other, edits })
}

fn run_edits<const C: usize, S: SemanticString<C>>(ty: Ty, start: &[u8], edits: &[Edit], obs: &mut Obs) -> Result<(), Failure> {
    let mut v = S::new(start).unwrap();
    let mut model = start.to_vec();
    for (step, e) in edits.iter().enumerate() {
        let before = model.clone();
        let mut after = model.clone();
        let mut tb = vec![];
        // (the op applied to the model, the op applied to the value)
        let res: Result<(), SemanticStringError> = match e {
            Edit::Push(t) => {
                t.bytes(&mut tb);
                after.extend_from_slice(&tb);
                if tb.len() == 1 { v.push(tb[0]) } else { v.push_bytes(&tb) }
            }
            Edit::Insert(i, t) => {
                t.bytes(&mut tb);
                let at = idx(*i, model.len() + 1);
                after.splice(at..at, tb.iter().copied());
                if tb.len() == 1 { v.insert(at, tb[0]) } else { v.insert_bytes(at, &tb) }
            }
            Edit::Pop => {
                let want = after.pop();
                match v.pop() {
                    Ok(got) => {
                        ensure!(got == want, sig(ty, "edit"), "step {step}: pop on {} returned {got:?}", esc(&before));
                        Ok(())
                    }
                    Err(e) => Err(e),
                }
            }
            Edit::Remove(i) => {
                if model.is_empty() {
                    continue;
                }
                let at = idx(*i, model.len());
                let want = after.remove(at);
                match v.remove(at) {
                    Ok(got) => {
                        ensure!(got == Some(want), sig(ty, "edit"), "step {step}: remove({at}) on {} returned {got:?}", esc(&before));
                        Ok(())
                    }
                    Err(e) => Err(e),
                }
            }
            Edit::RemoveRange(i, n) => {
                let at = idx(*i, model.len() + 1);
                let n = idx(*n, model.len() - at + 1);
                after.drain(at..at + n);
                v.remove_range(at, n)
            }
            Edit::Truncate(n) => {
                let n = idx(*n, model.len() + 2);
                after.truncate(n);
                v.truncate(n)
            }
            Edit::StripHead(_) | Edit::StripTail(_) | Edit::StripPrefix(_) | Edit::StripSuffix(_) => {
                let head = matches!(e, Edit::StripHead(_) | Edit::StripPrefix(_));
                let needle: Vec<u8> = match e {
                    Edit::StripHead(n) => model[..idx(*n, model.len() + 1)].to_vec(),
                    Edit::StripTail(n) => model[model.len() - idx(*n, model.len() + 1)..].to_vec(),
                    Edit::StripPrefix(t) | Edit::StripSuffix(t) => {
                        t.bytes(&mut tb);
                        tb.clone()
                    }
                    _ => unreachable!(),
                };
                let present = if head { model.starts_with(&needle) } else { model.ends_with(&needle) };
                if present {
                    if head {
                        after.drain(..needle.len());
                    } else {
                        after.truncate(model.len() - needle.len());
                    }
                }
                match if head { v.strip_prefix(&needle) } else { v.strip_suffix(&needle) } {
                    Ok(found) => {
                        ensure!(found == present, sig(ty, "edit"), "step {step}: strip {} from {} returned {found}", esc(&needle), esc(&before));
                        Ok(())
                    }
                    Err(e) => Err(e),
                }
            }
            Edit::RetainNot(i) => {
                if model.is_empty() {
                    continue;
                }
                let byte = model[idx(*i, model.len())];
                after.retain(|b| *b != byte);
                // SemanticString::retain: "removes all bytes which satisfy the provided closure"
                v.retain(|b| b == byte)
            }
        };
        let legal = refpred::accepts(ty, C, &after);
        match res {
            Ok(()) => {
                ensure!(v.as_bytes() == after, sig(ty, "edit"), "step {step}: {e:?} on {} left {}, the byte model says {}", esc(&before), esc(v.as_bytes()), esc(&after));
                ensure!(legal != Some(false), sig(ty, "edit_leaves_type"), "step {step}: {e:?} on the accepted {} {} succeeds and leaves {} which the documented rules reject", ty.name(), esc(&before), esc(&after));
                model = after;
            }
            Err(err) => {
                ensure!(v.as_bytes() == before, sig(ty, "edit_failed_but_mutated"), "step {step}: {e:?} on {} fails with {err:?} and leaves {}", esc(&before), esc(v.as_bytes()));
                ensure!(legal != Some(true), sig(ty, "edit_refused"), "step {step}: {e:?} on {} fails with {err:?}; the result {} is legal by the documented rules", esc(&before), esc(&after));
                obs.class("edit.rejected_and_value_untouched");
            }
        }
        ensure!(S::new(v.as_bytes()).is_ok(), sig(ty, "edit_leaves_type"), "step {step}: after {e:?} the value {} is no longer accepted by its own constructor", esc(v.as_bytes()));
    }
    Ok(())
}

fn edits(ty: Ty, start: &[u8], e: &[Edit], obs: &mut Obs) -> Result<(), Failure> {
    match ty {
        Ty::FileName => run_edits::<{ FileName::max_len() }, FileName>(ty, start, e, obs),
        Ty::Restricted8 => run_edits::<8, RestrictedFileName<8>>(ty, start, e, obs),
        Ty::Path => run_edits::<{ Path::max_len() }, Path>(ty, start, e, obs),
        Ty::FilePath => run_edits::<{ FilePath::max_len() }, FilePath>(ty, start, e, obs),
        Ty::UserName => run_edits::<{ UserName::max_len() }, UserName>(ty, start, e, obs),
        Ty::GroupName => run_edits::<{ GroupName::max_len() }, GroupName>(ty, start, e, obs),
        Ty::Base64Url => run_edits::<{ Base64Url::max_len() }, Base64Url>(ty, start, e, obs),
        _ => Ok(()),
    }
}

fn shape_classes(ty: Ty, b: &[u8], r: Real, obs: &mut Obs) {
    let c = cap(ty);
    obs.class(if r == Real::Accept { "str.accepted" } else { "str.rejected" });
    if b.len() + 2 >= c && b.len() <= c + 2 {
        obs.class(match b.len() as i64 - c as i64 {
            -2 | -1 => "str.len_just_below_capacity",
            0 => "str.len_equals_capacity",
            _ => "str.len_just_above_capacity",
        });
    }
    if b.contains(&0) {
        obs.class("str.contains_nul");
    }
    if std::str::from_utf8(b).is_err() {
        obs.class("str.invalid_utf8");
    } else if b.iter().any(|x| *x >= 128) {
        obs.class("str.non_ascii_utf8");
    }
    if b.iter().any(|x| (1..32).contains(x)) {
        obs.class("str.control_char");
    }
    if b.split(|x| *x == b'/').any(|x| x == b".." || x == b".") {
        obs.class("str.dot_component");
    }
    if b.contains(&b'/') {
        obs.class("str.separator");
    }
    if b.starts_with(b"iox2://") {
        obs.class("str.iox2_prefix");
    }
}

pub fn structured(ctx: &mut Ctx, known: &Known) {
    let total = ctx.scale(150_000u64, 3_000_000) * refpred::ALL.len() as u64;
    ctx.proptest("validate.structured", total, case_strategy(), |c: &StrCase, obs: &mut Obs| {
        known.begin();
        let r = (|| {
            let ty = Ty::from_index(c.ty);
            let cp = cap(ty);
            let b = c.main.bytes(cp);
            let o = c.other.bytes(cp);
            let r = check(ty, &b, known)?;
            shape_classes(ty, &b, r, obs);
            if let Some(doc) = refpred::accepts(ty, cp, &b) {
                if let Some(w) = boundary_witness(ty, &b, doc, &positions_of(&b)) {
                    let rw = check(ty, &w, known)?;
                    ensure!((rw == Real::Accept) != doc, sig(ty, "boundary"), "neighbour {} of {} has the verdict {rw:?}", esc(&w), esc(&b));
                    obs.nontrivial = true;
                    obs.class(if doc { "str.accepted_with_rejected_neighbour" } else { "str.rejected_with_accepted_neighbour" });
                }
            } else {
                obs.class("str.unspecified_by_documentation");
            }
            // the second string through the same constructor
            let ro = check(ty, &o, known)?;
            // composition
            match ty {
                Ty::Path => {
                    if r == Real::Accept && ro == Real::Accept {
                        compose_path(&b, &o)?;
                        obs.class(if join(&b, &o).len() > cp { "compose.add_path_entry.too_long" } else { "compose.add_path_entry.fits" });
                    }
                }
                Ty::FilePath | Ty::FileName => {
                    // path from the main string, file name from the other one
                    let (p, f) = if ty == Ty::FileName { (&o, &b) } else { (&b, &o) };
                    if Path::new(p).is_ok() && FileName::new(f).is_ok() {
                        compose_file_path(p, f, known)?;
                        let l = join(p, f).len();
                        obs.class(if l > cp {
                            "compose.from_path_and_file.too_long"
                        } else if l + 1 >= cp {
                            "compose.from_path_and_file.at_capacity"
                        } else {
                            "compose.from_path_and_file.fits"
                        });
                    }
                }
                Ty::ServiceName => {
                    // `try_into` is the constructor the examples use; its rules are not documented
                    // separately, only observed
                    if let Ok(s) = std::str::from_utf8(&b) {
                        let t: Result<ServiceName, _> = s.try_into();
                        if t.is_ok() && r != Real::Accept {
                            obs.class("service_name.try_into_accepts_what_new_rejects(iox2://)");
                            ensure!(b.starts_with(b"iox2://"), sig(ty, "try_into"), "&str::try_into::<ServiceName>() accepts {} which ServiceName::new rejects for another reason than the reserved prefix", esc(&b));
                        }
                        ensure!(!(t.is_err() && r == Real::Accept), sig(ty, "try_into"), "&str::try_into::<ServiceName>() rejects {} which ServiceName::new accepts", esc(&b));
                    }
                }
                _ => {}
            }
            if r == Real::Accept && !c.edits.is_empty() {
                edits(ty, &b, &c.edits, obs)?;
            }
            Ok(())
        })();
        known.finish(r)
    });
}

/// dedicated cases for the findings recorded while building the check (kept as probes so that a
/// repair shows up as "no longer observed")
pub fn probes(ctx: &mut Ctx, known: &Known) {
    let part = "validate.probes";
    if !ctx.part_enabled(part) || ctx.replay.is_some() || ctx.worker != 0 {
        return;
    }
    let cases: Vec<(u8, Vec<u8>, Vec<u8>)> = vec![
        // (kind, a, b): 0 = constructor check of type index a[0] on b; 1 = from_path_and_file(a, b)
        (0, vec![0], b"a\0".to_vec()),
        (0, vec![1], b"a/../b".to_vec()),
        (0, vec![1], b"a\\b/c".to_vec()),
        (0, vec![3], b"dir/a\\b".to_vec()),
        (1, vec![b'p'; 250], b"file".to_vec()),
        (1, vec![b'p'; 249], b"file".to_vec()),
    ];
    known.probe_mode(true);
    for (n, (kind, a, b)) in cases.iter().enumerate() {
        let case = serde_json::json!({"kind": kind, "a": String::from_utf8_lossy(a), "b": String::from_utf8_lossy(b)});
        ctx.run_case(part, n as u64, &case, |obs| {
            known.begin();
            obs.nontrivial = true;
            let r = if *kind == 0 { check(Ty::from_index(a[0]), b, known).map(|_| ()) } else { compose_file_path(a, b, known).map(|_| ()) };
            known.finish(r)
        });
    }
    known.probe_mode(false);
}
