//! C19 — names are validated and domains are isolated.
//!
//! Part 1 (`validate.*`): every semantic string type against a reference predicate written from the
//! documentation (`refpred.rs`): all byte strings up to length 3, structured random strings up to
//! capacity + 2, round trips, composition, normalisation, short edit histories.
//! Part 1b (`naming.scheme`): `path_for` / `extract_name_from_file` / `extract_name_from_path` of the
//! named-concept naming scheme as pure functions and on the file system (listing by prefix and suffix).
//! Part 2 (`isolation.*`): pairs of domain configurations (prefix relation x root relation) with a
//! population in each, listing / opening / cleaning / shutting down in one domain must not see or
//! touch the other; locations of everything created are checked in-process (scan) and on the
//! system-call level (ptrace of a child that runs a whole application life cycle).
//!
//! The binary re-executes itself as the child process of part 2 (`c19 --c19-child …`).
extern crate iceoryx2_bb_loggers;

mod child;
mod isolation;
mod naming;
mod pop;
mod refpred;
mod validation;

use vcore::{Ctx, Spec};

const SPEC: Spec = Spec {
    prop: "C19",
    level: "exploration",
    rule: "validation: case = (type, byte string); bounded-exhaustive over all byte strings of length 0..=3 (quick: 0..=2 except FileName, Path and FilePath) in blocks of 256 strings sharing a prefix, plus proptest strings from a token grammar (legal characters, separators, '.'/'..', NUL, control characters, reserved characters, invalid and multi-byte UTF-8, 'iox2://', stretched to capacity-2..capacity+2) with a second string for composition and up to 5 edit operations; oracle = reference predicate written from the rustdoc / conformance tests, round trip, type-specific safety statements, composition and normalisation laws; non-trivial = a single-byte substitution / insertion / deletion neighbour has the opposite documented verdict (verified against the constructor); isolation: case = (prefix relation in {equal, same length, +digits, +base64url chars, +other chars, unrelated}, root relation in {same, siblings, nested x3}, population A, population B, optional dead node per domain, optional traced application life cycle in B); oracle = location rule for everything created (scan + system-call paths) and non-interference of list / does_exist / open / dead-node cleanup / life cycle / shutdown; non-trivial = two different domains that share the root or whose prefixes are in the prefix-of relation; distinct = hash of the case",
    assumptions: &[
        "':' is reserved on Windows only and every validator guards it with cfg(target_os = \"windows\"); the phrase 'characters which would be legal on some platforms are forbidden as well' is not read as covering it (otherwise FileName/Path/FilePath accept an undocumented-illegal character on Linux)",
        "UserName / GroupName: '.' anywhere and a trailing '$' are legal on some POSIX systems and mentioned nowhere in the documentation or tests; both verdicts are accepted",
        "ServiceName / NodeName / PortName take &str; byte strings that are not UTF-8 reach them only through the C binding (checked for ServiceName and NodeName, counted as unrepresentable for PortName)",
        "the prefix rule ('prefix that is used for every file iceoryx2 creates') is applied to files and shared-memory objects, not to directories: nodes/, services/ and nodes/<node id>/ carry no prefix",
        "system-call view: only the path arguments are checked (open flags are not visible at call entry); read-only system locations (/proc, /sys, /etc, /usr, /lib*, /dev/null, /dev/urandom) are exempt",
        "dead nodes are produced by killing a process in its steady state (crash windows are C04's subject)",
        "local::Service is not exercised: it creates no named resources",
    ],
    watchdog_quick_s: 1500,
    watchdog_thorough_s: 10800,
};

const SIGNATURES: &[&str] = &[
    validation::SIG_FROM_PATH_AND_FILE_BOUNDARY,
    validation::SIG_ERROR_KIND_INVALID_BYTE,
    validation::SIG_PATH_ENTRIES,
    validation::SIG_FILE_PATH_FILE_NAME,
    isolation::SIG_NODE_DIGITS,
    isolation::SIG_SHM_SHARED,
];

fn body(ctx: &mut Ctx) {
    vice::silence_iceoryx_log();
    vcore::util::quiet_panics();
    let known = validation::Known::from_ctx(ctx, SIGNATURES);
    validation::probes(ctx, &known);
    validation::exhaustive(ctx, &known);
    validation::structured(ctx, &known);
    known.flush(ctx);
    naming::scheme(ctx);
    isolation::cleanup_probe(ctx, &known);
    isolation::pairs(ctx, &known);
    known.flush(ctx);
}

fn main() {
    let a: Vec<String> = std::env::args().collect();
    if a.get(1).map(|s| s == "--c19-child").unwrap_or(false) {
        child::main(&a[2..]);
    }
    vcore::main(SPEC, body);
}
