//! C01 — publish-subscribe delivery: ordered, exactly once, loss only as documented.
//!
//! Engine: model-based histories (DESIGN §3.3) on the public API, `local::Service` and
//! `ipc::Service`. The reference model and the interpreter live in `checks_ice::pubsub`.
//!
//! Oracle (checked on the return value of *every* op, see `pubsub::interp`):
//!  (1) `send`/`send_copy` return the number of pairs the model delivered to (or the documented
//!      error: `ConnectionBrokenSinceSenderNoLongerExists`, `LoanError(..)`, `UnableToDeliver`),
//!      and the backpressure handler is called exactly as often as the model says;
//!  (2) `receive` returns, for the pair it came from (header publisher id), exactly the model's next
//!      element of that pair, byte-identical, correct `number_of_elements`;
//!  (3) late joiners get min(history_request, buffer, |history|) newest history samples first;
//!  (4) overflow evicts the oldest; without overflow a skip happens only on a full FIFO and is
//!      reported (lower recipient count / handler call / UnableToDeliver);
//!  (5) `None` iff every pair FIFO is empty, `ExceedsMaxBorrows` iff the model says so,
//!      `has_samples` agrees with the model.
//!
//! Part `conc.threads` (`conc_threads/c01_conc.rs`): perturbed real-thread part, 1..2 publisher
//! threads and 1..2 subscriber threads (each with its own node and port) act at the same time with
//! seeded noise at the instrumented atomics; invariant-only oracle over the recorded logs, see the
//! module header.
//!
//! Relaxations (all from documented semantics, DESIGN C01 "Allowed"):
//!  * across pairs any receive order is accepted, except expired-before-active
//!    (`subscriber_acquires_samples_of_disconnected_publisher_first`); an expired connection that
//!    is at its borrow maximum cannot deliver and is passed over;
//!  * samples of a publisher created after the subscriber and dropped before the subscriber's next
//!    refreshing call need not arrive (lazy connection; class `cases_with_preconnect_drop`). If they
//!    arrived they would have to be in order and intact; the case then ends (`ghost_delivery_accepted`);
//!  * the borrow budget (`subscriber_max_borrowed_samples`) is accounted per (publisher,
//!    subscriber) connection, like the buffer: that is how the data segment is sized
//!    (`max_subscribers * (buffer + borrow)` chunks *per publisher*) and what
//!    `communication_with_max_subscribers_and_publishers` exercises.
extern crate iceoryx2_bb_loggers;

use checks_ice::pubsub::types::*;
use checks_ice::pubsub::{RunOpts, Variant, cases, enumerate_sequences, logcap, run_case};
use vcore::{Ctx, Failure, Obs, Spec};

#[path = "conc_threads/c01_conc.rs"]
mod conc;

const SPEC: Spec = Spec {
    prop: "C01",
    level: "exploration",
    rule: "histories of API calls (create/drop publisher and subscriber, loan, write, send, send_copy, drop loan, receive, drop sample, has_samples, update_connections) on 1..3 publishers and 1..3 subscribers over a QoS record (buffer 1..4, history 0..3, borrow 1..3, overflow on/off, per-port buffer/history request/max loans/backpressure handling, u64 and [u8] payloads), executed against the real ports and a reference model with the lazy connection rule; bounded-exhaustive part = every no-op-free sequence of length L over a reduced alphabet (send_copy, receive on first/last subscriber, drop first/last sample, create subscriber with default / zero history request, drop subscriber, publisher update) for a 22-point QoS grid; random part = proptest histories on local (many) and ipc (fewer). Non-trivial = at least one receive returned a sample AND (an overflow eviction happened OR a late joiner got history OR a port was dropped with undelivered data OR one subscriber received from >= 2 publishers). Distinct = hash of (service variant part, QoS record, op sequence). conc.threads: a case = (local|ipc, buffer 1..4, borrow 1..3, overflow on/off, DiscardData or (no overflow) blocking RetryUntilDelivered, 1..2 publisher threads x 1..2 subscriber threads each owning its node and port, all ports created before the start barrier, history 0, 50..150 samples per publisher (thorough ..400) sent in seeded bursts by send_copy or loan+send, subscriber hold window and release style, tight or yielding poll loop, noise level 0..3 at the instrumented atomics, seed); oracle = invariants over the recorded logs after quiescence (per pair strictly increasing subsequence of the sent sequence, intact payload, origin; no overflow: per sample number of receiving subscribers == value returned by send; blocking: == number of subscribers; overflow: newest min(sent, buffer) samples reach every subscriber; no failing call, no alarm log line), nothing depends on time; non-trivial = a receive overlapped a send and a sample was received.",
    assumptions: &[
        "exhaustive / random parts: single-threaded histories; the lock-free queues themselves are C03's domain",
        "conc.threads: real threads, not bit-reproducible (a replay runs the case up to 30 times); ports neither appear nor vanish during a run; a case that does not finish within 240 s (normal: well under a second) makes the run inconclusive, never a violation",
        "RetryUntilDelivered is generated only together with a backpressure handler that gives up after k <= 2 retries, so that no call can block",
        "the expired-connection buffer of a subscriber (default 128) is never filled by histories of <= 200 ops",
    ],
    watchdog_quick_s: 3600,
    watchdog_thorough_s: 28800,
};

fn run(variant: Variant, case: &Case, obs: &mut Obs) -> Result<(), Failure> {
    let ro = RunOpts::default();
    let sum = run_case(variant, case, &ro, obs)?;
    obs.nontrivial = sum.nt_delivery;
    Ok(())
}

fn exhaustive(ctx: &mut Ctx) {
    let len = ctx.scale(5, 6);
    let prologue = vec![Op::CreatePub(PubCfg { max_loans: 2, bp: Bp::Discard, max_slice: 8 })];
    let alphabet = vec![
        Op::SendCopy { p: 0, len: 8 },
        Op::Receive(0),
        Op::Receive(65535),
        Op::DropSample(0),
        Op::DropSample(65535),
        Op::CreateSub(SubCfg { buffer: None, hist_req: None }),
        Op::DropSub(0),
        Op::UpdatePub(0),
    ];
    let mut grid = vec![];
    for max_buf in [1usize, 2] {
        for hist in [0usize, 1, 2] {
            for max_borrow in [1usize, 2] {
                for overflow in [true, false] {
                    let svc = SvcCfg { max_pubs: 1, max_subs: 2, max_buf, hist, max_borrow, overflow, slice: false };
                    if svc.creatable() {
                        grid.push(svc);
                    }
                }
            }
        }
    }
    let points = grid.len();
    // every worker walks the same (model-only, lazy) enumeration and takes its share
    let (pro, alpha) = (prologue.clone(), alphabet.clone());
    let cases = grid.into_iter().flat_map(move |svc| {
        let pro2 = pro.clone();
        let mut alpha = alpha.clone();
        if svc.hist > 0 {
            // a late joiner that asks for less than the history holds
            alpha.push(Op::CreateSub(SubCfg { buffer: None, hist_req: Some(0) }));
        }
        enumerate_sequences(&svc, &pro, &alpha, len).map(move |seq| {
            let mut ops = pro2.clone();
            ops.extend(seq);
            Case { svc: svc.clone(), ops, teardown: 0 }
        })
    });
    ctx.enumerate(
        "exhaustive.local",
        &format!("all no-op-free op sequences of length {len} (every prefix checked) over an 8-op alphabet (9 with history: a subscriber requesting no history) after creating one publisher, {points}-point QoS grid (buffer 1..2 x history 0..2 x borrow 1..2 x overflow), local service"),
        cases,
        |c, obs| run(Variant::Local, c, obs),
    );
}

fn body(ctx: &mut Ctx) {
    checks_ice::silence_iceoryx_log();
    logcap::install();
    exhaustive(ctx);
    let max_ops = ctx.scale(60, 200);
    let n_local = ctx.scale(60_000, 400_000);
    ctx.proptest("random.local", cases(n_local), case_strategy(Weights::DELIVERY, max_ops), |c, obs| run(Variant::Local, c, obs));
    let n_ipc = ctx.scale(4_000, 40_000);
    ctx.proptest("random.ipc", cases(n_ipc), case_strategy(Weights::DELIVERY, max_ops), |c, obs| run(Variant::Ipc, c, obs));
    logcap::uninstall_level();
    conc::part(ctx);
}

fn main() {
    vcore::main(SPEC, body);
}
