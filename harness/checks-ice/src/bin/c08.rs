//! C08 — QoS limits suffice and are enforced (publish-subscribe part; request-response and the
//! remaining limits are added by `checks_ice::reqres::c08_parts` / `checks_ice::limits::c08_parts`).
//!
//! Adversarial, state-dependent generator on top of the C01 interpreter: a case is (limits drawn
//! from 0..4, policy, publisher settings, a vector of choices); the policy looks at the model state
//! and turns the next choice into an op:
//!  * saturate — prefers ops that raise occupancy (create ports up to the maximum, send until every
//!    connection FIFO is full, receive until every connection is at its borrow maximum, take all
//!    loans), and once nothing can be raised pokes the limits (one loan / borrow / publisher /
//!    subscriber too many), frees one unit and tries again; with overflow it keeps sending;
//!  * churn — the same, but keeps dropping and re-creating subscribers (and sometimes publishers)
//!    while saturated, with samples still held;
//!  * random — uniform over everything that has a target.
//!
//! Oracle = the interpreter's per-op comparison with the model counters:
//!  (1) inside the limits a loan never fails (`loan.out_of_memory` / `loan.refused`), and iceoryx2
//!      never logs a failed release / reclaim / history delivery or any `error!` line (capturing
//!      logger, `log.should_never_happen`);
//!  (2) one-too-many fails with exactly `LoanError::ExceedsMaxLoans` (also inside
//!      `SendError::LoanError`), `ReceiveError::ExceedsMaxBorrows`,
//!      `PublisherCreateError::ExceedsMaxSupportedPublishers`,
//!      `SubscriberCreateError::ExceedsMaxSupportedSubscribers`, and out-of-range subscriber
//!      settings / slice lengths / a non-overflowing service with history > buffer with their
//!      documented errors;
//!  (3) the failed call changed nothing: registry counts, canaries of all held samples and loans
//!      are re-checked at once, `has_samples` of every subscriber is compared with the model right
//!      after a limit error, and every later op (next `send` recipients, FIFO contents) is still
//!      compared with the model that ignored the failed call;
//!  (4) after freeing one unit the same call succeeds (the model demands it).
//! The limits the model uses are the clamped values read back from `static_config()`; the clamping
//! itself (0 -> 1) is what the conformance tests `set_*_to_zero_adjusts_it_to_one` document.
//!
//! Relaxation: `subscriber_max_borrowed_samples` is enforced per (publisher, subscriber) connection
//! (see c01.rs); "one borrow too many" therefore means one too many *of one connection*, and
//! `ExceedsMaxBorrows` is demanded only when every connection holding data is at its maximum.
extern crate iceoryx2_bb_loggers;

use checks_ice::pubsub::interp::{Bytes, Flavor, Interp, Opts, U64};
use checks_ice::pubsub::types::*;
use checks_ice::pubsub::{Variant, cases, logcap, u16_for};
use iceoryx2::service::Service;
use iceoryx2::service::builder::publish_subscribe::PublishSubscribeCreateError;
use iceoryx2::service::{ipc, local};
use proptest::prelude::*;
use serde::{Deserialize, Serialize};
use vcore::{Ctx, Failure, Obs, Spec, ensure};

const SPEC: Spec = Spec {
    prop: "C08",
    level: "exploration",
    rule: "adversarial histories: limits (max_publishers, max_subscribers, buffer, borrow, history, max_loaned_samples) drawn from 0..4 (clamped values read back from static_config), policy saturate / churn / random chosen per case, ops derived from the model state and a choice vector (fill every FIFO, borrow to the maximum, take all loans, then one-too-many of each kind, free one unit, retry; drop and re-create ports while saturated); oracle = per-op comparison with the C01 reference model (exact error values, nothing changed by a failed call, success after freeing one unit, never OutOfMemory, no 'should never happen' log line). Non-trivial = a further allocation (loan, borrow, port, delivery) succeeded while >= 2 limits of that publisher were at their maximum, or a limit error was provoked and the same kind of call succeeded later. Distinct = hash of (part, limits, policy, publisher settings, choice vector).",
    assumptions: &[
        "single-threaded histories",
        "the borrow limit is per (publisher, subscriber) connection, as the data segment sizing formula assumes",
        "request-response, event, blackboard and node limits are covered by the parts of checks_ice::reqres and checks_ice::limits",
    ],
    watchdog_quick_s: 3600,
    watchdog_thorough_s: 28800,
};

#[derive(Clone, Debug, Serialize, Deserialize)]
struct AdvCase {
    svc: SvcCfg,
    /// 0 saturate, 1 churn, 2 random
    policy: u8,
    pubs: Vec<PubCfg>,
    sub: SubCfg,
    choices: Vec<(u16, u16)>,
    teardown: u8,
    /// the generator replaced a known-defective input (see `SLICE_ZERO`) by its `u64` twin
    #[serde(default)]
    excluded: bool,
}

/// Open known finding: the `[Payload]` flavour of the publish-subscribe builder
/// (`create_with_attributes` / `open_or_create_with_attributes` of `Builder<[Payload], ..>`) does not
/// call `adjust_configuration_to_meaningful_values()`, so zero limits are not clamped to one as
/// documented (`set_*_to_zero_adjusts_it_to_one`): `max_subscribers(0)` / `max_publishers(0)` end in
/// a fatal panic while the port id container is initialised, a zero buffer / borrow value stays zero.
const SLICE_ZERO: &str = "service.slice_builder_zero_limit_not_clamped";

fn slice_zero(svc: &SvcCfg) -> bool {
    svc.slice && (svc.max_pubs == 0 || svc.max_subs == 0 || svc.max_buf == 0 || svc.max_borrow == 0)
}

fn adv_strategy(max_steps: usize, exclude_slice_zero: bool) -> impl Strategy<Value = AdvCase> {
    let svc = (0usize..=4, 0usize..=4, 0usize..=4, 0usize..=4, 0usize..=4, any::<bool>(), prop::bool::weighted(0.25), 0u8..5).prop_map(
        |(max_pubs, max_subs, max_buf, hist, max_borrow, overflow, slice, keep)| {
            // a non-overflowing service whose buffer cannot hold the history is refused (checked,
            // but one case in five of those is enough)
            let hist = if !overflow && keep != 0 { hist.min(max_buf.max(1)) } else { hist };
            SvcCfg { max_pubs, max_subs, max_buf, hist, max_borrow, overflow, slice }
        },
    );
    let pc = (0usize..=4, bp_strategy(), prop_oneof![Just(1usize), Just(8), Just(33)]).prop_map(|(max_loans, bp, max_slice)| PubCfg { max_loans, bp, max_slice });
    (svc, 0u8..3, proptest::collection::vec(pc, 1..3), sub_cfg_strategy(), proptest::collection::vec((any::<u16>(), any::<u16>()), 0..max_steps), any::<u8>())
        .prop_map(move |(mut svc, policy, pubs, sub, choices, teardown)| {
            let excluded = exclude_slice_zero && slice_zero(&svc);
            if excluded {
                svc.slice = false;
            }
            AdvCase { svc, policy, pubs, sub, choices, teardown, excluded }
        })
}

/// The ops that have a target in the current state, by what they do to occupancy.
struct Candidates {
    fill: Vec<Op>,
    poke: Vec<Op>,
    lift: Vec<Op>,
    churn: Vec<Op>,
    misc: Vec<Op>,
}

fn candidates<S: Service, F: Flavor>(it: &Interp<S, F>, c: &AdvCase) -> Candidates {
    let m = &it.model;
    let pubs = it.live_pubs();
    let subs = it.live_subs();
    let loans = it.loan_tags();
    let samples = it.held_samples();
    let mut k = Candidates { fill: vec![], poke: vec![], lift: vec![], churn: vec![], misc: vec![] };
    let next_pub_cfg = c.pubs[m.pubs.len() % c.pubs.len()].clone();
    // legal subscriber settings most of the time (the illegal ones are poked separately)
    let legal_sub = SubCfg { buffer: c.sub.buffer.map(|b| b.clamp(1, m.lim.max_buf)), hist_req: None };
    if pubs.len() < m.lim.max_pubs {
        k.fill.push(Op::CreatePub(next_pub_cfg.clone()));
    } else {
        k.poke.push(Op::CreatePub(next_pub_cfg.clone()));
    }
    if subs.len() < m.lim.max_subs {
        k.fill.push(Op::CreateSub(legal_sub.clone()));
    } else {
        k.poke.push(Op::CreateSub(legal_sub.clone()));
    }
    if m.sub_settings(&c.sub).is_err() {
        k.poke.push(Op::CreateSub(c.sub.clone()));
    }
    for (i, p) in pubs.iter().enumerate() {
        let pi = u16_for(i, pubs.len());
        let mp = &m.pubs[*p];
        let len = if it.svc_is_slice() { mp.cfg.max_slice as u16 } else { 8 };
        let free_loan = mp.loans.len() < mp.cfg.max_loans;
        // would a send raise occupancy (more distinct chunks referenced, or a new connection)?
        // decided by trying it on a copy of the model
        let room = free_loan && mp.registered && {
            let mut m2 = m.clone();
            match m2.loan(*p, len as usize, it.svc_is_slice()) {
                Ok(t) => {
                    let before = m.live_tags(*p).len() + m.pubs[*p].connected.len();
                    m2.send(t, &mut vec![]);
                    m2.live_tags(*p).len() + m2.pubs[*p].connected.len() > before
                }
                Err(_) => false,
            }
        };
        if free_loan {
            k.fill.push(Op::Loan { p: pi, len, init: false });
            if room {
                k.fill.push(Op::SendCopy { p: pi, len });
                k.fill.push(Op::SendCopy { p: pi, len });
            } else {
                k.misc.push(Op::SendCopy { p: pi, len });
            }
        } else {
            k.poke.push(Op::Loan { p: pi, len, init: false });
            k.poke.push(Op::SendCopy { p: pi, len });
        }
        if it.svc_is_slice() {
            k.poke.push(Op::Loan { p: pi, len: len + 1, init: false });
        }
        k.misc.push(Op::UpdatePub(pi));
        k.misc.push(Op::Probe(pi));
        k.churn.push(Op::DropPub(pi));
    }
    for (i, l) in loans.iter().enumerate() {
        let li = u16_for(i, loans.len());
        k.lift.push(Op::DropLoan(li));
        k.lift.push(Op::Send(li));
        if m.lim.overflow && m.pubs[l.p].registered {
            // saturate: "continue sending with overflow on"
            k.fill.push(Op::Send(li));
        }
        k.misc.push(Op::Write(li));
    }
    for (i, s) in subs.iter().enumerate() {
        let si = u16_for(i, subs.len());
        let mut data = false;
        let mut ready = false;
        for ((_, ss), pr) in m.pairs.iter() {
            if ss == s && pr.sub_att && !pr.fifo.is_empty() {
                data = true;
                if pr.borrowed.len() < m.lim.max_borrow {
                    ready = true;
                }
            }
        }
        // pairs the subscriber has not attached to yet may hold data as well: receiving refreshes
        let unattached_data = m.pairs.iter().any(|((p, ss), pr)| ss == s && !pr.sub_att && !pr.fifo.is_empty() && m.pubs[*p].registered);
        if ready || unattached_data {
            k.fill.push(Op::Receive(si));
            k.fill.push(Op::Receive(si));
        } else if data {
            k.poke.push(Op::Receive(si));
        } else {
            k.misc.push(Op::Receive(si));
        }
        k.misc.push(Op::HasSamples(si));
        k.misc.push(Op::UpdateSub(si));
        k.churn.push(Op::DropSub(si));
    }
    for i in 0..samples.len() {
        k.lift.push(Op::DropSample(u16_for(i, samples.len())));
    }
    k
}

fn pick(v: &[Op], c: u16) -> Option<Op> {
    if v.is_empty() { None } else { Some(v[vcore::util::idx(c, v.len())].clone()) }
}

fn next_op<S: Service, F: Flavor>(it: &Interp<S, F>, c: &AdvCase, ch: (u16, u16)) -> Option<Op> {
    let k = candidates(it, c);
    let r = (ch.0 as u32 * 100) >> 16; // 0..99
    let order: Vec<&Vec<Op>> = match c.policy {
        // saturate
        0 => {
            if !k.fill.is_empty() && r < 85 {
                vec![&k.fill]
            } else if r < 50 || (85..92).contains(&r) {
                vec![&k.poke, &k.lift, &k.misc]
            } else if r < 80 || (92..97).contains(&r) {
                vec![&k.lift, &k.poke, &k.misc]
            } else {
                vec![&k.misc, &k.poke, &k.churn]
            }
        }
        // churn
        1 => {
            if !k.fill.is_empty() && r < 65 {
                vec![&k.fill]
            } else if r < 85 {
                vec![&k.churn, &k.lift]
            } else if r < 93 {
                vec![&k.poke, &k.lift]
            } else {
                vec![&k.lift, &k.misc]
            }
        }
        // random
        _ => {
            let mut all: Vec<Op> = vec![];
            for v in [&k.fill, &k.poke, &k.lift, &k.churn, &k.misc] {
                all.extend(v.iter().cloned());
            }
            return pick(&all, ch.1);
        }
    };
    for v in order {
        if let Some(op) = pick(v, ch.1) {
            return Some(op);
        }
    }
    None
}

fn limit_errors(ev: &checks_ice::pubsub::model::Events) -> u64 {
    ev.exceeds_max_borrows + ev.exceeds_max_loans + ev.exceeds_max_pubs + ev.exceeds_max_subs + ev.sub_cfg_rejected + ev.loan_too_large
}

fn adversary<S: Service, F: Flavor>(c: &AdvCase, obs: &mut Obs) -> Result<(), Failure> {
    let opts = Opts { address_probe: true, send_copy_via_loan: true, check_log: true, tolerate_known_order_defect: true };
    let created = if slice_zero(&c.svc) {
        // known-defective input class: whatever goes wrong here carries the finding's signature
        Ctx::guarded(|| Interp::<S, F>::new(&c.svc, opts)).map_err(|f| Failure::new(SLICE_ZERO, format!("slice service with a zero limit {:?}: [{}] {}", c.svc, f.signature, f.message)))?
    } else {
        Interp::<S, F>::new(&c.svc, opts)?
    };
    let mut it = match created {
        Ok(it) => it,
        Err(e) => {
            // documented refusal: non-overflowing service whose buffer cannot hold the history
            ensure!(
                !c.svc.creatable() && e == PublishSubscribeCreateError::SubscriberBufferMustBeLargerThanHistorySize,
                "service.create",
                "service {:?} was refused with {e:?}",
                c.svc
            );
            obs.class("service_refused_history_exceeds_buffer");
            return Ok(());
        }
    };
    ensure!(c.svc.creatable(), "service.create", "service {:?} was created although the buffer cannot hold the history without overflow", c.svc);
    obs.class(match c.policy {
        0 => "policy_saturate",
        1 => "policy_churn",
        _ => "policy_random",
    });
    let mut saturated_success = 0u64;
    let mut max_sat = 0usize;
    let r = (|| -> Result<(), Failure> {
        for ch in &c.choices {
            let Some(op) = next_op(&it, c, *ch) else { continue };
            let sat = it.live_pubs().iter().map(|p| it.model.saturated_limits(*p)).max().unwrap_or(0);
            max_sat = max_sat.max(sat);
            let before = (it.loan_tags().len(), it.held_samples().len(), it.live_pubs().len(), it.live_subs().len(), it.model.ev.pubs_that_delivered.len());
            let errs = limit_errors(&it.model.ev);
            it.step(&op)?;
            let after = (it.loan_tags().len(), it.held_samples().len(), it.live_pubs().len(), it.live_subs().len(), it.model.ev.pubs_that_delivered.len());
            let grew = after.0 > before.0 || after.1 > before.1 || after.2 > before.2 || after.3 > before.3;
            if sat >= 2 && grew {
                saturated_success += 1;
            }
            if limit_errors(&it.model.ev) > errs {
                // (3) nothing changed: compare what every subscriber can see with the model at once
                let n = it.live_subs().len();
                for k in 0..n {
                    it.step(&Op::HasSamples(u16_for(k, n)))?;
                }
            }
        }
        Ok(())
    })();
    it.observe(obs);
    let ev = it.model.ev.clone();
    let lifted: Vec<&&str> = ev.limit_hit.intersection(&ev.limit_lifted).collect();
    for k in &lifted {
        obs.class(match **k {
            "loans" => "lifted_loans",
            "borrows" => "lifted_borrows",
            "publishers" => "lifted_publishers",
            _ => "lifted_subscribers",
        });
    }
    if saturated_success > 0 {
        obs.class("allocation_succeeded_with_two_limits_saturated");
    }
    match max_sat {
        0 | 1 => {}
        2 => obs.class("saturation_2"),
        3 => obs.class("saturation_3"),
        4 => obs.class("saturation_4"),
        _ => obs.class("saturation_5_or_6"),
    }
    obs.nontrivial = saturated_success > 0 || !lifted.is_empty();
    match r {
        Ok(()) => it.finish(c.teardown),
        Err(f) => {
            it.abort();
            Err(f)
        }
    }
}

fn run(variant: Variant, c: &AdvCase, obs: &mut Obs) -> Result<(), Failure> {
    match (variant, c.svc.slice) {
        (Variant::Local, false) => adversary::<local::Service, U64>(c, obs),
        (Variant::Local, true) => adversary::<local::Service, Bytes>(c, obs),
        (Variant::Ipc, false) => adversary::<ipc::Service, U64>(c, obs),
        (Variant::Ipc, true) => adversary::<ipc::Service, Bytes>(c, obs),
    }
}

/// One dedicated case per zero limit of a slice service (keeps the known finding visible and
/// turns into a plain violation should the finding be closed without a repair).
fn probe_slice_zero(ctx: &mut Ctx) {
    if !ctx.part_enabled("probe.slice_zero_limits") || ctx.worker != 0 {
        return;
    }
    if let Some(c) = ctx.replay_case::<AdvCase>("probe.slice_zero_limits") {
        let mut obs = Obs::default();
        let r = Ctx::guarded(|| run(Variant::Local, &c, &mut obs));
        ctx.record("probe.slice_zero_limits", 0, &obs, || serde_json::to_value(&c).unwrap());
        ctx.probe_finding("probe.slice_zero_limits", SLICE_ZERO, r.err().map(|f| f.message), serde_json::to_value(&c).unwrap());
        return;
    }
    for k in 0..4 {
        let mut svc = SvcCfg { max_pubs: 1, max_subs: 1, max_buf: 1, hist: 0, max_borrow: 1, overflow: true, slice: true };
        match k {
            0 => svc.max_subs = 0,
            1 => svc.max_pubs = 0,
            2 => svc.max_buf = 0,
            _ => svc.max_borrow = 0,
        }
        let c = AdvCase { svc, policy: 2, pubs: vec![PubCfg { max_loans: 1, bp: Bp::Discard, max_slice: 4 }], sub: SubCfg { buffer: None, hist_req: None }, choices: vec![(0, 0); 12], teardown: 0, excluded: false };
        let mut obs = Obs::default();
        let r = Ctx::guarded(|| run(Variant::Local, &c, &mut obs));
        ctx.record("probe.slice_zero_limits", k, &obs, || serde_json::to_value(&c).unwrap());
        ctx.probe_finding("probe.slice_zero_limits", SLICE_ZERO, r.err().map(|f| f.message), serde_json::to_value(&c).unwrap());
    }
}

fn body(ctx: &mut Ctx) {
    checks_ice::silence_iceoryx_log();
    if !logcap::install() {
        ctx.note("capturing logger could not be installed: only API return values are observed");
    }
    probe_slice_zero(ctx);
    let exclude = ctx.is_open_finding(SLICE_ZERO);
    let excluded = std::cell::Cell::new(0u64);
    let steps = ctx.scale(120, 300);
    for (policy, name) in [(0u8, "saturate.local"), (1, "churn.local"), (2, "random.local")] {
        let n = ctx.scale([3_000, 2_000, 3_000][policy as usize], 120_000);
        let strat = adv_strategy(steps, exclude).prop_map(move |mut c| {
            c.policy = policy;
            c
        });
        ctx.proptest(name, cases(n), strat, |c, obs| {
            if c.excluded {
                excluded.set(excluded.get() + 1);
            }
            run(Variant::Local, c, obs)
        });
    }
    let n = ctx.scale(800, 25_000);
    ctx.proptest("adversary.ipc", cases(n), adv_strategy(steps, exclude), |c, obs| {
        if c.excluded {
            excluded.set(excluded.get() + 1);
        }
        run(Variant::Ipc, c, obs)
    });
    for _ in 0..excluded.get() {
        ctx.count_excluded(SLICE_ZERO);
    }
    logcap::uninstall_level();
    checks_ice::reqres::c08_parts(ctx);
    checks_ice::limits::c08_parts(ctx);
}

fn main() {
    vcore::main(SPEC, body);
}
