//! Stand-alone build of the C06 participant process:
//!
//!   c06_child <ctrl file> <index> <root> <prefix> <service name> <case json>
//!
//! joins the domain `(prefix, root)`, maps the shared control file (stamp counter, barrier,
//! abort flag, survivor counts), runs program `index` of the case for every repetition and prints
//! one `REC <json>` line per call (begin / end stamp, result, snapshot of the obtained handle)
//! followed by `DONE`, or `FAIL <reason>`. The check itself re-executes its own binary with
//! `--c06-child` (same code, see `c06/conc.rs::child_main`), so that the child is always built
//! from the tree under test; this binary exists for running a participant by hand.
#![allow(dead_code)]
extern crate iceoryx2_bb_loggers;

#[path = "c06/conc.rs"]
mod conc;
#[path = "c06/model.rs"]
mod model;
#[path = "c06/sut.rs"]
mod sut;

pub const CHILD_FLAG: &str = "--c06-child";

fn main() {
    let argv: Vec<String> = std::env::args().collect();
    std::process::exit(conc::child_main(&argv[1..]));
}
