//! C20 — WaitSet dispatch is exact: every ready attachment reported, nothing else.
//!
//! * `waitset.exhaustive` — every op sequence of a fixed length over a reduced alphabet (one wait
//!   set, two sources, far deadline, both drop orders, draining / non-draining processing), for
//!   socket sources and listeners of local / ipc services, on the epoll and the select() reactor.
//! * `waitset.random` — proptest histories of up to 60 ops: 1..4 sources (listeners on 1..2 event
//!   services, socket pairs), 1..2 wait sets, notification / deadline / interval attachments with
//!   1 ms ("short") and 1 h ("far") periods, guard drops, single and service-wide notifications,
//!   notifications from inside the callback, processing with or without draining.
//! * `reactor.random` — the same idea one layer down on `reactor::epoll` and `reactor::posix_select`.
//! * `capacity.*` — attach beyond the capacity: `FD_SETSIZE` descriptors on the select() reactor,
//!   and on a `WaitSet` whose service type uses that reactor (interval attachments fill the
//!   attachment counter without consuming a descriptor).
extern crate iceoryx2_bb_loggers;

mod capacity;
mod gens;
mod model;
mod reactor;
mod select_svc;

use model::{Case, Counters};
use vcore::{Ctx, Spec};

const SPEC: Spec = Spec {
    prop: "C20",
    level: "exploration",
    rule: "histories of attach (notification, deadline, interval) / guard drop / notify (one source, whole service, from inside the callback, unattached source) / drain / zero-timeout processing over 1..4 sources and 1..2 wait sets, bounded-exhaustive over a reduced alphabet and proptest-random up to 60 ops; oracle = reference model (live attachments, pending flag per source, short timers must be reported after a 5 ms pause, far timers never) compared after every processing call through has_event_from / has_missed_deadline against the live guards, attach / run error values, len(); non-trivial = a guard was dropped and a later attachment reused its descriptor (same source attached again) or followed a dropped timer, and one processing call reported two or more attachments; distinct = hash of the case",
    assumptions: &[
        "time enters the oracle in two directions only: a 1 ms deadline / interval must be reported by a processing call that starts after a 5 ms sleep, a 1 h one never; without the sleep a short timer may or may not be reported",
        "a short deadline whose source is pending in the same call may or may not be reported as missed (the wait set resets the deadline before it checks it); counted as ambiguous_deadline_rounds",
        "the wait set is level-triggered (rustdoc of wait_and_process_once): a source that was not drained is demanded again from the next call",
        "each attachment is expected at most once per processing call",
        "the callback always returns Continue; no signals are delivered (signal handling mode Disabled)",
        "WaitSet capacity overflow is unreachable with epoll (capacity = max_user_watches); it is exercised with a service type that differs from local::Service only in using the select() reactor, which is the default reactor on the non-Linux platforms",
    ],
    watchdog_quick_s: 1200,
    watchdog_thorough_s: 7200,
};

fn body(ctx: &mut Ctx) {
    checks_ice::silence_iceoryx_log();
    let k = Counters::default();

    // (svc, source kinds, sequence length quick / thorough)
    let alphabet = gens::alphabet();
    let grid: [(u8, [u8; 2], usize, usize); 5] = [(1, [0, 0], 6, 7), (2, [0, 0], 6, 7), (1, [1, 1], 5, 6), (1, [1, 2], 5, 6), (0, [1, 2], 4, 5)];
    let grid: Vec<(u8, [u8; 2], usize)> = grid.iter().map(|(svc, kinds, lq, lt)| (*svc, *kinds, ctx.scale(*lq, *lt))).collect();
    let cases = grid.iter().flat_map(|(svc, kinds, len)| gens::sequences(&alphabet, *len).map(move |ops| Case { svc: *svc, sources: kinds.to_vec(), waitsets: 1, ops }));
    let dim = format!("all op sequences over the {}-op reduced alphabet, every prefix checked; (service variant, sources, length): {grid:?}", alphabet.len());
    ctx.enumerate("waitset.exhaustive", &dim, cases, |c, obs| model::run_case(c, obs, &k));

    ctx.proptest("waitset.random", ctx.scale(3_000, 75_000), gens::case_strategy(60), |c, obs| model::run_case(c, obs, &k));

    ctx.proptest("reactor.random", ctx.scale(40_000, 1_000_000), reactor::strategy(), |c, obs| reactor::run_case(c, obs));

    let cap_grid = capacity::grid(!ctx.quick());
    ctx.enumerate("capacity.select_reactor", "FD_SETSIZE descriptors on reactor::posix_select, one more refused, detach / re-attach at every sampled position, dispatch with all descriptors ready", cap_grid.clone().into_iter().filter(|c| c.flavour == 0), |c, obs| capacity::run_reactor(c, obs));
    ctx.enumerate("capacity.waitset_intervals", "WaitSet on the select() reactor filled to capacity() with interval attachments (descriptor held by nothing / a notification / a far deadline), every attachment kind refused, guard dropped at every sampled position and replaced", cap_grid.clone().into_iter(), |c, obs| capacity::run_intervals(c, obs));
    let known = ctx.is_open_finding("waitset.capacity.error_value");
    if known {
        ctx.count_excluded("waitset.capacity.error_value");
    }
    ctx.enumerate("capacity.waitset_descriptors", "WaitSet on the select() reactor filled to capacity() with descriptors (notifications, every 2nd / 7th a far deadline), every attachment kind refused, dispatch with all descriptors ready", cap_grid.into_iter(), |c, obs| capacity::run_descriptors(c, obs, known));

    ctx.class("process_calls", k.process_calls.get());
    ctx.class("callback_invocations", k.reports.get());
    ctx.class("ambiguous_deadline_rounds", k.ambiguous_deadline_rounds.get());
    ctx.class("short_timer_reported_after_sleep (count)", k.short_timer_must.get());
    ctx.class("short_timer_reported_without_sleep (allowed)", k.short_timer_may_reported.get());
}

fn main() {
    vcore::main(SPEC, body);
}
