//! A service variant that is `local::Service` in every building block except the reactor, which is
//! the `select()`-based one (`iceoryx2_cal::reactor::posix_select`). That reactor is what
//! `ipc::Service` / `local::Service` use on every platform but Linux; with it `WaitSet::capacity()`
//! is `FD_SETSIZE` instead of epoll's `max_user_watches` (14 M here), so the capacity paths of the
//! wait set become reachable. The `Service` trait and `internal::ServiceInternal` are public
//! (doc-hidden), so nothing of /repo has to change for this.
use core::fmt::Debug;
use iceoryx2_bb_elementary_traits::testing::abandonable::Abandonable;
use iceoryx2_bb_elementary_traits::zero_copy_send::ZeroCopySend;
use iceoryx2_bb_posix::file_descriptor::{FileDescriptor, FileDescriptorBased};
use iceoryx2_bb_posix::file_descriptor_set::SynchronousMultiplexing;
use iceoryx2_cal::shm_allocator::bump_allocator::BumpAllocator;
use iceoryx2_cal::shm_allocator::pool_allocator::PoolAllocator;
use iceoryx2_cal::*;

#[derive(Debug, Clone)]
pub struct SelectSvc {}

impl iceoryx2::service::Service for SelectSvc {
    type StaticStorage = static_storage::recommended::Local;
    type ConfigSerializer = serialize::recommended::Recommended;
    type PersistentDynamicStorage<T: Debug + Send + Sync + ZeroCopySend + 'static> = dynamic_storage::recommended::PersistentLocal<T>;
    type DynamicStorage<T: Debug + Send + Sync + ZeroCopySend + 'static> = dynamic_storage::recommended::Local<T>;
    type ServiceNameHasher = hash::recommended::Recommended;
    type SharedMemory = shared_memory::recommended::Local<PoolAllocator>;
    type ResizableSharedMemory = resizable_shared_memory::recommended::Local<PoolAllocator>;
    type Connection = zero_copy_connection::recommended::Local;
    type Event = event::recommended::Local;
    type Monitoring = monitoring::recommended::Local;
    type Reactor = reactor::posix_select::Reactor;
    type ArcThreadSafetyPolicy<T: Send + Debug + Abandonable> = arc_sync_policy::single_threaded::SingleThreaded<T>;
    type BlackboardMgmt<KeyType: Send + Sync + Debug + ZeroCopySend + 'static> = dynamic_storage::recommended::Local<KeyType>;
    type BlackboardPayload = shared_memory::recommended::Local<BumpAllocator>;
}

impl iceoryx2::service::internal::ServiceInternal<SelectSvc> for SelectSvc {}

/// Any descriptor number as an attachable object (the C and Python bindings attach descriptors the
/// same way: a thin `SynchronousMultiplexing` wrapper around a non-owning `FileDescriptor`).
#[derive(Debug)]
pub struct RawFd(pub FileDescriptor);

impl RawFd {
    pub fn new(n: i32) -> Option<RawFd> {
        FileDescriptor::non_owning_new(n).map(RawFd)
    }
}

impl FileDescriptorBased for RawFd {
    fn file_descriptor(&self) -> &FileDescriptor {
        &self.0
    }
}

impl SynchronousMultiplexing for RawFd {}
