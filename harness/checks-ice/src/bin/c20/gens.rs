//! Generators of the wait-set level parts: the reduced alphabet of the bounded-exhaustive part and
//! the proptest strategy of the random part.
use crate::model::{Case, Op};
use proptest::prelude::*;

/// Reduced alphabet: one wait set, two sources A (0) and B (1), no short timers (nothing sleeps).
/// The far deadline keeps the deadline maps in play; dropping the oldest / newest live guard gives
/// every detach order for up to two guards.
pub fn alphabet() -> Vec<Op> {
    let all = 0xff;
    vec![
        Op::AttachNotification { ws: 0, src: 0 },
        Op::AttachNotification { ws: 0, src: 1 },
        Op::AttachDeadline { ws: 0, src: 0, far: true },
        Op::DropGuard { g: 0 },
        Op::DropGuard { g: u16::MAX },
        Op::Notify { src: 0, id: 1 },
        Op::Notify { src: 1, id: 2 },
        Op::NotifyEvery { id: 3 },
        Op::Process { ws: 0, sleep: false, drain: all, renotify: 0, cb_notify: None },
        Op::Process { ws: 0, sleep: false, drain: 0, renotify: 0, cb_notify: None },
    ]
}

/// All sequences of exactly `len` ops over `alphabet` (the interpreter checks every prefix on the way).
pub fn sequences(alphabet: &[Op], len: usize) -> impl Iterator<Item = Vec<Op>> + '_ {
    let n = alphabet.len();
    let total = (n as u64).pow(len as u32);
    (0..total).map(move |mut i| {
        let mut v = Vec::with_capacity(len);
        for _ in 0..len {
            v.push(alphabet[(i % n as u64) as usize].clone());
            i /= n as u64;
        }
        v
    })
}

fn op_strategy() -> impl Strategy<Value = Op> {
    let ws = || prop_oneof![3 => Just(0u8), 1 => Just(1u8)];
    let src = || 0u8..4;
    prop_oneof![
        4 => (ws(), src()).prop_map(|(ws, src)| Op::AttachNotification { ws, src }),
        2 => (ws(), src()).prop_map(|(ws, src)| Op::AttachDeadline { ws, src, far: true }),
        1 => (ws(), src()).prop_map(|(ws, src)| Op::AttachDeadline { ws, src, far: false }),
        1 => ws().prop_map(|ws| Op::AttachInterval { ws, far: true }),
        1 => ws().prop_map(|ws| Op::AttachInterval { ws, far: false }),
        4 => any::<u16>().prop_map(|g| Op::DropGuard { g }),
        5 => (src(), 0u8..5).prop_map(|(src, id)| Op::Notify { src, id }),
        2 => (src(), 0u8..5).prop_map(|(src, id)| Op::NotifyAll { src, id }),
        1 => (0u8..5).prop_map(|id| Op::NotifyEvery { id }),
        1 => src().prop_map(|src| Op::Drain { src }),
        7 => (ws(), prop_oneof![5 => Just(false), 1 => Just(true)], prop_oneof![2 => Just(0xffu8), 1 => Just(0u8), 1 => any::<u8>()], prop_oneof![3 => Just(0u8), 1 => any::<u8>()], prop_oneof![3 => Just(None), 1 => src().prop_map(Some)])
            .prop_map(|(ws, sleep, drain, renotify, cb_notify)| Op::Process { ws, sleep, drain, renotify, cb_notify }),
    ]
}

/// `svcs`: the service variants to draw from
pub fn case_strategy(max_ops: usize) -> impl Strategy<Value = Case> {
    (
        prop_oneof![3 => Just(0u8), 3 => Just(1u8), 2 => Just(2u8)],
        proptest::collection::vec(prop_oneof![1 => Just(0u8), 2 => Just(1u8), 1 => Just(2u8)], 1..=4),
        prop_oneof![3 => Just(1u8), 1 => Just(2u8)],
        proptest::collection::vec(op_strategy(), 0..=max_ops),
    )
        .prop_map(|(svc, sources, waitsets, ops)| Case { svc, sources, waitsets, ops })
}
