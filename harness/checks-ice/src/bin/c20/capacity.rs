//! Attaching beyond the capacity.
//!
//! `capacity.select_reactor`: `reactor::posix_select` holds at most `FD_SETSIZE` descriptors and
//! `select()` can only represent descriptor numbers below `FD_SETSIZE`. The case therefore makes
//! the process own *every* descriptor number below `FD_SETSIZE` (duplicates of one socket fill the
//! gaps), attaches all of them, and then tries one more.
//!
//! `capacity.waitset_intervals` / `capacity.waitset_descriptors`: the same limit seen through a
//! `WaitSet` whose service type uses that reactor (`SelectSvc`). Interval attachments count
//! against `WaitSet::capacity()` without consuming a descriptor, so the wait set's own capacity
//! check (`InsufficientCapacity`) is reached with an empty reactor; with descriptors only, the
//! reactor's limit is reached first.
use crate::model::{FAR, SETTLE, SHORT};
use crate::select_svc::{RawFd, SelectSvc};
use iceoryx2::prelude::*;
use iceoryx2::waitset::{WaitSetAttachmentError, WaitSetRunError, WaitSetRunResult};
use iceoryx2_bb_posix::file_descriptor::FileDescriptorBased;
use iceoryx2_bb_posix::socket_pair::StreamingSocket;
use iceoryx2_cal::reactor::{Reactor, ReactorAttachError, ReactorBuilder};
use serde::{Deserialize, Serialize};
use std::collections::BTreeSet;
use std::time::Duration;
use vcore::util::idx;
use vcore::{Failure, Obs, ensure, fail};

const CAP: usize = libc::FD_SETSIZE;

#[derive(Clone, Debug, Serialize, Deserialize)]
pub struct CapCase {
    /// position (monotone index mapping) of the guard that is dropped and replaced at full capacity
    pub drop_at: u16,
    /// intervals part: what holds the descriptor `rx` while the intervals fill the wait set
    /// (0 nothing, 1 notification, 2 far deadline); descriptors part: every n-th descriptor is
    /// attached as far deadline instead of notification (0 = none)
    pub flavour: u8,
}

pub fn grid(thorough: bool) -> Vec<CapCase> {
    let drops: Vec<u16> = if thorough { (0..24).map(|i| (i * 2849) as u16).chain([u16::MAX]).collect() } else { vec![0, 21_845, u16::MAX] };
    let mut v = vec![];
    for flavour in 0..3 {
        for d in &drops {
            v.push(CapCase { drop_at: *d, flavour });
        }
    }
    v
}

/// Owns every descriptor number below `FD_SETSIZE` that was free, plus two numbers above.
struct FdFill {
    rx: StreamingSocket,
    tx: StreamingSocket,
    dups: Vec<i32>,
    /// descriptor numbers below `FD_SETSIZE` that refer to `rx`'s socket
    own: BTreeSet<i32>,
    extra: Vec<i32>,
}

impl FdFill {
    fn new() -> Result<FdFill, Failure> {
        let (rx, tx) = StreamingSocket::create_pair().map_err(|e| Failure::new("setup", format!("socket pair: {e:?}")))?;
        let base = unsafe { rx.file_descriptor().native_handle() };
        let mut f = FdFill { rx, tx, dups: vec![], own: BTreeSet::new(), extra: vec![] };
        ensure!((base as usize) < CAP, "setup", "descriptor numbers already above FD_SETSIZE");
        f.own.insert(base);
        while f.extra.len() < 2 {
            let d = unsafe { libc::dup(base) };
            ensure!(d >= 0, "setup", "dup failed: {}", std::io::Error::last_os_error());
            f.dups.push(d);
            if (d as usize) < CAP {
                f.own.insert(d);
            } else {
                f.extra.push(d);
            }
        }
        Ok(f)
    }
}

impl Drop for FdFill {
    fn drop(&mut self) {
        for d in &self.dups {
            unsafe { libc::close(*d) };
        }
    }
}

/// every descriptor number below `FD_SETSIZE` as an attachable object; `None` if some other part of
/// the process closed one in the meantime (the case is discarded then)
fn all_descriptors() -> Option<Vec<RawFd>> {
    (0..CAP as i32).map(RawFd::new).collect()
}

pub fn run_reactor(c: &CapCase, obs: &mut Obs) -> Result<(), Failure> {
    if c.flavour != 0 {
        return Ok(());
    }
    let fill = FdFill::new()?;
    let Some(objs) = all_descriptors() else {
        obs.discarded = true;
        return Ok(());
    };
    let extra: Vec<RawFd> = fill.extra.iter().filter_map(|d| RawFd::new(*d)).collect();
    ensure!(extra.len() == 2, "setup", "extra descriptors");
    let reactor = <iceoryx2_cal::reactor::posix_select::ReactorBuilder as ReactorBuilder<iceoryx2_cal::reactor::posix_select::Reactor>>::new()
        .create()
        .map_err(|e| Failure::new("setup", format!("reactor: {e:?}")))?;
    ensure!(reactor.capacity() == CAP, "reactor.capacity", "posix_select capacity() = {}, FD_SETSIZE = {CAP}", reactor.capacity());
    let mut guards = vec![];
    for (n, o) in objs.iter().enumerate() {
        match reactor.attach(o) {
            Ok(g) => guards.push(Some(g)),
            Err(e) => fail!("reactor.capacity.attach_below", "attaching descriptor {n} with {n} attached (capacity {CAP}) failed: {e:?}"),
        }
        ensure!(reactor.len() == n + 1, "reactor.len", "len() = {} after {} attachments", reactor.len(), n + 1);
    }
    let beyond = |what: &str| -> Result<(), Failure> {
        for e in &extra {
            let r = reactor.attach(e);
            ensure!(matches!(r, Err(ReactorAttachError::CapacityExceeded)), "reactor.capacity.beyond", "{what}: attaching descriptor number {} to a full reactor returned {:?}", unsafe { e.0.native_handle() }, r.as_ref().map(|_| "a guard"));
            ensure!(reactor.len() == CAP, "reactor.capacity.beyond", "{what}: refused attach changed len() to {}", reactor.len());
        }
        Ok(())
    };
    beyond("full")?;
    let p = idx(c.drop_at, CAP);
    // the same object again while full: refused either way
    let r = reactor.attach(&objs[p]);
    ensure!(matches!(r, Err(ReactorAttachError::CapacityExceeded) | Err(ReactorAttachError::AlreadyAttached)), "reactor.capacity.beyond", "re-attaching an attached descriptor to a full reactor returned {:?}", r.as_ref().map(|_| "a guard"));
    drop(r);
    guards[p] = None;
    ensure!(reactor.len() == CAP - 1, "reactor.len", "len() = {} after one detach from a full reactor", reactor.len());
    match reactor.attach(&objs[p]) {
        Ok(g) => guards[p] = Some(g),
        Err(e) => fail!("reactor.capacity.reuse", "descriptor {p} detached from a full reactor cannot be attached again: {e:?}"),
    }
    beyond("full again")?;
    obs.class("reactor_filled_to_FD_SETSIZE");

    // dispatch at full scale: keep only our own descriptors (all of them refer to one socket)
    for n in 0..CAP {
        if !fill.own.contains(&(n as i32)) {
            guards[n] = None;
        }
    }
    ensure!(reactor.len() == fill.own.len(), "reactor.len", "len() = {} with {} attached", reactor.len(), fill.own.len());
    let wait = || -> Result<(Vec<i32>, usize), Failure> {
        let mut got = vec![];
        let r = reactor.try_wait(|fd| got.push(unsafe { fd.native_handle() }));
        match r {
            Ok(n) => Ok((got, n)),
            Err(e) => fail!("reactor.wait", "try_wait with {} descriptors failed: {e:?}", fill.own.len()),
        }
    };
    let (got, n) = wait()?;
    ensure!(got.is_empty() && n == 0, "reactor.wait.phantom", "nothing sent, reported {got:?}");
    ensure!(fill.tx.try_send(&[1]) == Ok(1), "setup", "send");
    let (got, n) = wait()?;
    let set: BTreeSet<i32> = got.iter().copied().collect();
    ensure!(set.len() == got.len(), "reactor.wait.duplicate", "a descriptor was reported twice");
    ensure!(set == fill.own && n == set.len(), "reactor.wait.missing", "{} descriptors of the readable socket attached, {} reported (count {n}); missing {:?}, foreign {:?}", fill.own.len(), set.len(), fill.own.difference(&set).collect::<Vec<_>>(), set.difference(&fill.own).collect::<Vec<_>>());
    let mut b = [0u8; 4];
    ensure!(fill.rx.try_receive(&mut b) == Ok(1), "setup", "receive");
    let (got, n) = wait()?;
    ensure!(got.is_empty() && n == 0, "reactor.wait.phantom", "socket drained, reported {got:?}");
    obs.nontrivial = true;
    drop(guards);
    Ok(())
}

#[derive(Clone, Copy, PartialEq, Debug)]
enum What {
    Event,
    Missed,
}

type Guard<'w, 'a> = WaitSetGuard<'w, 'a, SelectSvc>;
type Id = WaitSetAttachmentId<SelectSvc>;

/// one zero-timeout processing call; the ids it handed to the callback
fn process(ws: &WaitSet<SelectSvc>, sleep: bool) -> Result<Vec<Id>, Failure> {
    if sleep {
        std::thread::sleep(SETTLE);
    }
    let mut ids = vec![];
    let r = ws.wait_and_process_once_with_timeout(
        |id| {
            ids.push(id);
            CallbackProgression::Continue
        },
        Duration::ZERO,
    );
    ensure!(r == Ok(WaitSetRunResult::AllEventsHandled), "waitset.run_result", "processing returned {r:?}");
    Ok(ids)
}

/// `named`: the live guards that may legitimately be reported, `silent`: live guards that must stay
/// silent (far intervals, descriptors without data); `must` / `may` refer to `named` by name
fn check_round(tag: &str, ids: &[Id], named: &[(&str, &Guard)], silent: &[Option<Guard>], must: &[(&str, What)], may: &[(&str, What)]) -> Result<(), Failure> {
    let mut seen: Vec<(&str, What)> = vec![];
    for id in ids {
        let mut m = vec![];
        for (name, g) in named {
            if id.has_event_from(g) {
                m.push((*name, What::Event));
            }
            if id.has_missed_deadline(g) {
                m.push((*name, What::Missed));
            }
        }
        if m.is_empty() {
            if silent.iter().flatten().any(|g| id.has_event_from(g) || id.has_missed_deadline(g)) {
                fail!("waitset.capacity.silent_attachment_reported", "{tag}: {id:?} belongs to an attachment with a one-hour period or without data");
            }
            fail!("waitset.capacity.unattached_id", "{tag}: callback got {id:?}, which matches no live guard");
        }
        ensure!(m.len() == 1, "waitset.dispatch.id_matches_several", "{tag}: {id:?} matches {m:?}");
        ensure!(!seen.contains(&m[0]), "waitset.dispatch.duplicate", "{tag}: {:?} reported twice", m[0]);
        ensure!(must.contains(&m[0]) || may.contains(&m[0]), "waitset.capacity.unexpected_report", "{tag}: {:?} reported; expected {must:?}, allowed {may:?}", m[0]);
        seen.push(m[0]);
    }
    for x in must {
        ensure!(seen.contains(x), "waitset.capacity.missing_report", "{tag}: {x:?} not reported (reported: {seen:?})");
    }
    Ok(())
}

fn waitset() -> Result<WaitSet<SelectSvc>, Failure> {
    let ws = WaitSetBuilder::new().signal_handling_mode(SignalHandlingMode::Disabled).create::<SelectSvc>().map_err(|e| Failure::new("setup", format!("wait set: {e:?}")))?;
    ensure!(ws.capacity() == CAP, "waitset.capacity", "capacity() = {} with the select() reactor, FD_SETSIZE = {CAP}", ws.capacity());
    Ok(ws)
}

fn refused<T>(what: &str, r: Result<T, WaitSetAttachmentError>, ws: &WaitSet<SelectSvc>, len: usize) -> Result<(), Failure> {
    let r = r.map(|_| "a guard");
    // rustdoc: InsufficientCapacity = "The WaitSets capacity is exceeded."
    ensure!(r.is_err(), "waitset.capacity.not_refused", "{what} with len() == capacity() succeeded");
    ensure!(ws.len() == len, "waitset.capacity.len", "{what}: refused attachment left len() = {}, was {len}", ws.len());
    ensure!(r == Err(WaitSetAttachmentError::InsufficientCapacity), "waitset.capacity.error_value", "{what} with len() == capacity() == {len} returned {r:?}; the object was not attached before, the documented error for an exceeded capacity is InsufficientCapacity");
    Ok(())
}

/// DESIGN §6 row 4: the wait set's own capacity check, reached with interval attachments
pub fn run_intervals(c: &CapCase, obs: &mut Obs) -> Result<(), Failure> {
    let (rx, tx) = StreamingSocket::create_pair().map_err(|e| Failure::new("setup", format!("socket pair: {e:?}")))?;
    let (rx2, tx2) = StreamingSocket::create_pair().map_err(|e| Failure::new("setup", format!("socket pair: {e:?}")))?;
    let ws = waitset()?;
    let held = match c.flavour {
        0 => None,
        1 => Some(ws.attach_notification(&rx).map_err(|e| Failure::new("waitset.attach", format!("{e:?}")))?),
        _ => Some(ws.attach_deadline(&rx, FAR).map_err(|e| Failure::new("waitset.attach", format!("{e:?}")))?),
    };
    let mut intervals: Vec<Option<Guard>> = vec![];
    while ws.len() < CAP {
        match ws.attach_interval(FAR) {
            Ok(g) => intervals.push(Some(g)),
            Err(e) => fail!("waitset.capacity.attach_below", "attach_interval with len() = {} < capacity() failed: {e:?}", ws.len()),
        }
    }
    ensure!(intervals.len() + held.iter().count() == CAP, "waitset.len", "len() = {CAP} after {} attachments", intervals.len() + held.iter().count());
    obs.class("waitset_filled_with_intervals");

    // three kinds of attachment beyond the capacity, each refused without side effects
    refused("attach_interval", ws.attach_interval(FAR), &ws, CAP)?;
    refused("attach_notification", ws.attach_notification(&rx2), &ws, CAP)?;
    refused("attach_deadline (1 ms)", ws.attach_deadline(&rx2, SHORT), &ws, CAP)?;
    obs.class("attach_deadline_refused_after_map_registration (row 4)");

    // neither the refused descriptor nor a remnant of the refused 1 ms deadline may show up
    ensure!(tx2.try_send(&[1]) == Ok(1), "setup", "send");
    let held_named: Vec<(&str, &Guard)> = held.iter().map(|g| ("rx", g)).collect();
    let ids = process(&ws, true)?;
    check_round("after the refused attachments", &ids, &held_named, &intervals, &[], &[])?;
    if held.is_some() {
        ensure!(tx.try_send(&[1]) == Ok(1), "setup", "send");
        let ids = process(&ws, true)?;
        check_round("rx notified", &ids, &held_named, &intervals, &[("rx", What::Event)], &[])?;
        let mut b = [0u8; 4];
        ensure!(rx.try_receive(&mut b) == Ok(1), "setup", "receive");
    }

    // make room, attach what was refused
    let p = idx(c.drop_at, intervals.len());
    intervals[p] = None;
    ensure!(ws.len() == CAP - 1, "waitset.len", "len() = {} after one guard drop at capacity", ws.len());
    let d = match ws.attach_deadline(&rx2, SHORT) {
        Ok(g) => g,
        Err(e) => fail!("waitset.capacity.reuse", "attach_deadline after a guard drop at capacity failed: {e:?} (the same call was refused before: leftover registration?)"),
    };
    ensure!(ws.len() == CAP, "waitset.len", "len() = {}", ws.len());
    refused("attach_interval (full again)", ws.attach_interval(SHORT), &ws, CAP)?;
    {
        let mut named = held_named.clone();
        named.push(("rx2", &d));
        // rx2 still holds its byte: event must, missed deadline may (reset before check)
        let ids = process(&ws, true)?;
        check_round("rx2 attached as 1 ms deadline, pending", &ids, &named, &intervals, &[("rx2", What::Event)], &[("rx2", What::Missed)])?;
        let mut b = [0u8; 4];
        ensure!(rx2.try_receive(&mut b) == Ok(1), "setup", "receive");
        let ids = process(&ws, true)?;
        check_round("rx2 attached as 1 ms deadline, drained", &ids, &named, &intervals, &[("rx2", What::Missed)], &[])?;
    }
    drop(d);
    ensure!(ws.len() == CAP - 1, "waitset.len", "len() = {}", ws.len());
    let n = match ws.attach_notification(&rx2) {
        Ok(g) => g,
        Err(e) => fail!("waitset.capacity.reuse", "attach_notification of a descriptor that was a deadline before failed: {e:?}"),
    };
    {
        let mut named = held_named.clone();
        named.push(("rx2", &n));
        let ids = process(&ws, true)?;
        check_round("rx2 as notification, nothing pending", &ids, &named, &intervals, &[], &[])?;
        ensure!(tx2.try_send(&[1]) == Ok(1), "setup", "send");
        let ids = process(&ws, true)?;
        check_round("rx2 as notification, pending", &ids, &named, &intervals, &[("rx2", What::Event)], &[])?;
    }
    obs.nontrivial = true;
    drop(n);
    drop(held_named);
    drop(held);
    drop(intervals);
    ensure!(ws.len() == 0, "waitset.len", "len() = {} after every guard was dropped", ws.len());
    let r = ws.wait_and_process_once_with_timeout(|_| CallbackProgression::Continue, Duration::ZERO);
    ensure!(r == Err(WaitSetRunError::NoAttachments), "waitset.no_attachments", "empty wait set: {r:?}");
    Ok(())
}

/// the reactor's limit seen through the wait set: `FD_SETSIZE` descriptors attached, one more
pub fn run_descriptors(c: &CapCase, obs: &mut Obs, error_value_is_known: bool) -> Result<(), Failure> {
    let fill = FdFill::new()?;
    let Some(objs) = all_descriptors() else {
        obs.discarded = true;
        return Ok(());
    };
    let extra: Vec<RawFd> = fill.extra.iter().filter_map(|d| RawFd::new(*d)).collect();
    ensure!(extra.len() == 2, "setup", "extra descriptors");
    let ws = waitset()?;
    let every = match c.flavour {
        0 => 0,
        1 => 2,
        _ => 7,
    };
    let is_deadline = |n: usize| every != 0 && n % every == 0;
    let mut guards: Vec<Option<Guard>> = vec![];
    for (n, o) in objs.iter().enumerate() {
        let r = if is_deadline(n) { ws.attach_deadline(o, FAR) } else { ws.attach_notification(o) };
        match r {
            Ok(g) => guards.push(Some(g)),
            Err(e) => fail!("waitset.capacity.attach_below", "attaching descriptor {n} with len() = {n} < capacity() failed: {e:?}"),
        }
    }
    ensure!(ws.len() == CAP, "waitset.len", "len() = {} after {CAP} attachments", ws.len());
    obs.class("waitset_filled_with_descriptors");
    let beyond = |what: &str| -> Result<(), Failure> {
        let checks: [(&str, Result<(), Failure>); 3] = [
            ("attach_notification", refused(&format!("{what}: attach_notification"), ws.attach_notification(&extra[0]), &ws, CAP)),
            ("attach_deadline", refused(&format!("{what}: attach_deadline"), ws.attach_deadline(&extra[1], SHORT), &ws, CAP)),
            ("attach_interval", refused(&format!("{what}: attach_interval"), ws.attach_interval(SHORT), &ws, CAP)),
        ];
        for (_, r) in checks {
            match r {
                // the generator continues behind the known wrong error value: everything else
                // (refusal, len(), later dispatch) is still checked
                Err(f) if f.signature == "waitset.capacity.error_value" && error_value_is_known => {}
                other => other?,
            }
        }
        Ok(())
    };
    beyond("full")?;
    let p = idx(c.drop_at, CAP);
    guards[p] = None;
    ensure!(ws.len() == CAP - 1, "waitset.len", "len() = {} after one guard drop at capacity", ws.len());
    let r = if is_deadline(p) { ws.attach_notification(&objs[p]) } else { ws.attach_deadline(&objs[p], FAR) };
    match r {
        Ok(g) => guards[p] = Some(g),
        Err(e) => fail!("waitset.capacity.reuse", "descriptor {p} detached at capacity cannot be attached again: {e:?}"),
    }
    beyond("full again")?;

    // dispatch at full scale on our own descriptors (all refer to one socket)
    for n in 0..CAP {
        if !fill.own.contains(&(n as i32)) {
            guards[n] = None;
        }
    }
    ensure!(ws.len() == fill.own.len(), "waitset.len", "len() = {} with {} live guards", ws.len(), fill.own.len());
    let round = |tag: &str, pending: bool| -> Result<(), Failure> {
        let ids = process(&ws, true)?;
        let mut seen = BTreeSet::new();
        for id in &ids {
            let m: Vec<usize> = (0..CAP).filter(|n| guards[*n].as_ref().is_some_and(|g| id.has_event_from(g))).collect();
            let missed = guards.iter().flatten().any(|g| id.has_missed_deadline(g));
            ensure!(!missed, "waitset.dispatch.far_timer", "{tag}: {id:?} is a missed deadline, all deadlines are one hour");
            ensure!(m.len() == 1, "waitset.capacity.unattached_id", "{tag}: {id:?} matches the live guards {m:?}");
            ensure!(seen.insert(m[0]), "waitset.dispatch.duplicate", "{tag}: descriptor {} reported twice", m[0]);
        }
        if pending {
            let want: BTreeSet<usize> = fill.own.iter().map(|d| *d as usize).collect();
            ensure!(seen == want, "waitset.dispatch.missing_event", "{tag}: {} attached descriptors of the readable socket, {} reported", want.len(), seen.len());
        } else {
            ensure!(seen.is_empty(), "waitset.dispatch.phantom_event", "{tag}: nothing pending, reported {seen:?}");
        }
        Ok(())
    };
    round("nothing sent", false)?;
    ensure!(fill.tx.try_send(&[1]) == Ok(1), "setup", "send");
    round("one byte sent", true)?;
    round("not drained: reported again", true)?;
    let mut b = [0u8; 4];
    ensure!(fill.rx.try_receive(&mut b) == Ok(1), "setup", "receive");
    round("drained", false)?;
    obs.nontrivial = true;
    drop(guards);
    ensure!(ws.len() == 0, "waitset.len", "len() = {} after every guard was dropped", ws.len());
    Ok(())
}
