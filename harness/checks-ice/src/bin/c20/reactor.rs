//! One layer down: `iceoryx2_cal::reactor::{epoll, posix_select}` under histories of
//! attach / detach / send / receive-one-byte / wait over up to six socket pairs. Model: a descriptor
//! is ready while unread bytes remain (both reactors are level-triggered); every wait call must
//! hand the callback exactly the attached and ready descriptors, each once, and return their number.
use iceoryx2_bb_posix::file_descriptor::FileDescriptorBased;
use iceoryx2_bb_posix::socket_pair::StreamingSocket;
use iceoryx2_cal::reactor::{Reactor, ReactorAttachError, ReactorBuilder, ReactorGuard};
use proptest::prelude::*;
use serde::{Deserialize, Serialize};
use std::collections::BTreeSet;
use std::time::Duration;
use vcore::{Failure, Obs, ensure, fail};

#[derive(Clone, Debug, Serialize, Deserialize)]
pub enum ROp {
    Attach(u8),
    Detach(u8),
    Send(u8),
    /// reads one byte (a partial drain when more were sent)
    RecvOne(u8),
    /// 0 = try_wait, 1 = timed_wait(ZERO)
    Wait(u8),
}

/// `kind`: 0 epoll, 1 posix_select
#[derive(Clone, Debug, Serialize, Deserialize)]
pub struct RCase {
    pub kind: u8,
    pub sockets: u8,
    pub ops: Vec<ROp>,
}

pub fn strategy() -> impl Strategy<Value = RCase> {
    let s = || 0u8..6;
    let op = prop_oneof![
        4 => s().prop_map(ROp::Attach),
        3 => s().prop_map(ROp::Detach),
        4 => s().prop_map(ROp::Send),
        3 => s().prop_map(ROp::RecvOne),
        5 => (0u8..2).prop_map(ROp::Wait),
    ];
    (0u8..2, 1u8..=6, proptest::collection::vec(op, 0..=80)).prop_map(|(kind, sockets, ops)| RCase { kind, sockets, ops })
}

pub fn run_case(c: &RCase, obs: &mut Obs) -> Result<(), Failure> {
    match c.kind {
        0 => {
            obs.class("reactor.epoll");
            run::<iceoryx2_cal::reactor::epoll::Epoll>(c, obs)
        }
        _ => {
            obs.class("reactor.posix_select");
            run::<iceoryx2_cal::reactor::posix_select::Reactor>(c, obs)
        }
    }
}

fn run<R: Reactor>(c: &RCase, obs: &mut Obs) -> Result<(), Failure> {
    let n = c.sockets.clamp(1, 6) as usize;
    let mut socks = vec![];
    for _ in 0..n {
        socks.push(StreamingSocket::create_pair().map_err(|e| Failure::new("setup", format!("socket pair: {e:?}")))?);
    }
    let fd_of = |i: usize| unsafe { socks[i].0.file_descriptor().native_handle() };
    let reactor = <R::Builder as ReactorBuilder<R>>::new().create().map_err(|e| Failure::new("setup", format!("reactor: {e:?}")))?;
    let mut guards: Vec<Option<R::Guard<'_, '_>>> = (0..n).map(|_| None).collect();
    let mut unread = vec![0usize; n];
    let mut detached_once = vec![false; n];
    let (mut reused, mut multi) = (false, false);
    let sx = |s: u8| (s as usize).min(n - 1);
    for (step, op) in c.ops.iter().enumerate() {
        match op {
            ROp::Attach(s) => {
                let s = sx(*s);
                let before = reactor.len();
                let r = reactor.attach(&socks[s].0);
                if guards[s].is_some() {
                    ensure!(matches!(r, Err(ReactorAttachError::AlreadyAttached)), "reactor.attach_twice", "step {step}: second attach of socket {s} returned {:?}", r.as_ref().map(|_| "a guard"));
                    ensure!(reactor.len() == before, "reactor.attach_twice", "step {step}: refused attach changed len()");
                    obs.class("reactor.already_attached_refused");
                } else {
                    match r {
                        Ok(g) => {
                            ensure!(unsafe { g.file_descriptor().native_handle() } == fd_of(s), "reactor.guard_fd", "step {step}: guard carries another descriptor");
                            if detached_once[s] {
                                reused = true;
                            }
                            guards[s] = Some(g);
                        }
                        Err(e) => fail!("reactor.attach", "step {step}: attach of unattached socket {s} failed: {e:?}"),
                    }
                }
            }
            ROp::Detach(s) => {
                let s = sx(*s);
                if guards[s].take().is_some() {
                    detached_once[s] = true;
                }
            }
            ROp::Send(s) => {
                let s = sx(*s);
                if unread[s] < 32 {
                    let r = socks[s].1.try_send(&[7]);
                    ensure!(r == Ok(1), "setup", "send: {r:?}");
                    unread[s] += 1;
                }
            }
            ROp::RecvOne(s) => {
                let s = sx(*s);
                let mut b = [0u8; 1];
                let r = socks[s].0.try_receive(&mut b);
                ensure!(r == Ok(unread[s].min(1)), "setup", "receive: {r:?} with {} unread", unread[s]);
                unread[s] -= unread[s].min(1);
            }
            ROp::Wait(mode) => {
                let mut got = vec![];
                let cb = |fd: &iceoryx2_bb_posix::file_descriptor::FileDescriptor| got.push(unsafe { fd.native_handle() });
                let r = if *mode == 0 { reactor.try_wait(cb) } else { reactor.timed_wait(cb, Duration::ZERO) };
                let want: BTreeSet<i32> = (0..n).filter(|i| guards[*i].is_some() && unread[*i] > 0).map(fd_of).collect();
                let got_set: BTreeSet<i32> = got.iter().copied().collect();
                ensure!(got_set.len() == got.len(), "reactor.wait.duplicate", "step {step}: descriptors {got:?} reported, one of them twice");
                for fd in &got_set {
                    if !want.contains(fd) {
                        let attached = (0..n).any(|i| guards[i].is_some() && fd_of(i) == *fd);
                        if attached {
                            fail!("reactor.wait.phantom", "step {step}: descriptor {fd} reported without unread data");
                        }
                        fail!("reactor.wait.detached", "step {step}: descriptor {fd} reported but it is not attached (attached: {:?})", (0..n).filter(|i| guards[*i].is_some()).map(fd_of).collect::<Vec<_>>());
                    }
                }
                ensure!(got_set == want, "reactor.wait.missing", "step {step}: ready and attached {want:?}, reported {got_set:?}");
                ensure!(r == Ok(want.len()), "reactor.wait.count", "step {step}: wait returned {r:?}, {} descriptors were ready", want.len());
                if want.len() >= 2 {
                    multi = true;
                }
                if (0..n).any(|i| guards[i].is_none() && unread[i] > 0) {
                    obs.class("reactor.unattached_ready_descriptor_ignored");
                }
            }
        }
        let live = guards.iter().filter(|g| g.is_some()).count();
        ensure!(reactor.len() == live && reactor.is_empty() == (live == 0), "reactor.len", "step {step} ({op:?}): len() = {}, attached = {live}", reactor.len());
        ensure!(reactor.capacity() >= live, "reactor.len", "capacity below len");
    }
    obs.nontrivial = reused && multi;
    drop(guards);
    ensure!(reactor.len() == 0, "reactor.len", "len() = {} after all guards were dropped", reactor.len());
    Ok(())
}
