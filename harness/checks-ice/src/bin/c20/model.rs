//! Wait-set level: op alphabet, reference model and interpreter.
//!
//! Sources of events are listeners of event services (notified through their service's notifier,
//! singly via `for_each_listener` or all at once via `notify`) and plain socket pairs (the
//! conformance tests attach those as well). A source is *pending* from a notification until it is
//! drained (`Listener::try_wait` / reading the socket empty); the wait set is level-triggered by
//! its rustdoc ("does not consume the notification ... the attachment remains ready"), so a
//! pending source must be reported by every processing call of every wait set it is attached to.
use crate::select_svc::SelectSvc;
use checks_ice::domain::Domain;
use iceoryx2::node::Node;
use iceoryx2::port::listener::Listener;
use iceoryx2::port::notifier::Notifier;
use iceoryx2::prelude::*;
use iceoryx2::service::port_factory::event::PortFactory;
use iceoryx2::waitset::{WaitSetAttachmentError, WaitSetRunError, WaitSetRunResult};
use iceoryx2_bb_lock_free::mpmc::counting_bit_set::RelocatableCountingBitSet;
use iceoryx2_bb_posix::socket_pair::StreamingSocket;
use iceoryx2_cal::event::{Event, EventId};
use serde::{Deserialize, Serialize};
use std::cell::Cell;
use std::collections::BTreeSet;
use std::time::Duration;
use vcore::util::idx;
use vcore::{Ctx, Failure, Obs, ensure, fail};

pub const SHORT: Duration = Duration::from_millis(1);
pub const FAR: Duration = Duration::from_secs(3600);
pub const SETTLE: Duration = Duration::from_millis(5);

#[derive(Clone, Debug, PartialEq, Serialize, Deserialize)]
pub enum Op {
    AttachNotification { ws: u8, src: u8 },
    AttachDeadline { ws: u8, src: u8, far: bool },
    AttachInterval { ws: u8, far: bool },
    /// drops the g-th live guard (creation order, monotone index mapping)
    DropGuard { g: u16 },
    /// notifies exactly this source
    Notify { src: u8, id: u8 },
    /// `Notifier::notify_with_custom_event_id`: every listener of the source's service
    NotifyAll { src: u8, id: u8 },
    /// notifies every source, one after the other
    NotifyEvery { id: u8 },
    /// drains the source outside of any callback
    Drain { src: u8 },
    /// `wait_and_process_once_with_timeout(cb, ZERO)`; `sleep`: 5 ms pause first (short timers must
    /// have expired afterwards); `drain` / `renotify`: bit per source, applied by the callback when
    /// it is told about an event of that source; `cb_notify`: the first callback invocation
    /// notifies this source
    Process { ws: u8, sleep: bool, drain: u8, renotify: u8, cb_notify: Option<u8> },
}

/// `svc`: 0 ipc, 1 local, 2 local with the select() reactor. `sources[i]`: 0 socket pair,
/// 1 listener on service 0, 2 listener on service 1.
#[derive(Clone, Debug, Serialize, Deserialize)]
pub struct Case {
    pub svc: u8,
    pub sources: Vec<u8>,
    pub waitsets: u8,
    pub ops: Vec<Op>,
}

#[derive(Default)]
pub struct Counters {
    pub process_calls: Cell<u64>,
    pub reports: Cell<u64>,
    pub ambiguous_deadline_rounds: Cell<u64>,
    pub short_timer_must: Cell<u64>,
    pub short_timer_may_reported: Cell<u64>,
}

fn bump(c: &Cell<u64>) {
    c.set(c.get() + 1);
}

pub enum Source<S: Service> {
    Listener { l: Listener<S>, service: usize },
    Socket { rx: StreamingSocket, tx: StreamingSocket },
}

/// drop order = declaration order: ports, then services, then the node
pub struct World<S: Service> {
    pub sources: Vec<Source<S>>,
    pub notifiers: Vec<Notifier<S>>,
    pub services: Vec<PortFactory<S>>,
    pub node: Option<Node<S>>,
}

macro_rules! must {
    ($e:expr, $what:expr) => {
        match $e {
            Ok(v) => v,
            Err(e) => return Err(Failure::new("setup", format!("{}: {:?}", $what, e))),
        }
    };
}

impl<S: Service> World<S> {
    pub fn new(domain: Option<&Domain>, kinds: &[u8]) -> Result<Self, Failure> {
        let nservices = kinds.iter().map(|k| *k as usize).max().unwrap_or(0).min(2);
        let mut w = World { sources: vec![], notifiers: vec![], services: vec![], node: None };
        if nservices > 0 {
            let domain = domain.expect("a domain for cases with listeners");
            let node = must!(NodeBuilder::new().config(&domain.config).create::<S>(), "node");
            for s in 0..nservices {
                let name = must!(ServiceName::new(&format!("c20/ev{s}")), "service name");
                let svc = must!(
                    node.service_builder(&name)
                        .event()
                        .max_listeners(4)
                        .max_notifiers(1)
                        .event_id_max_value(7)
                        .disable_notifier_created_event()
                        .disable_notifier_dropped_event()
                        .disable_notifier_dead_event()
                        .create(),
                    "event service"
                );
                w.notifiers.push(must!(svc.notifier_builder().create(), "notifier"));
                w.services.push(svc);
            }
            w.node = Some(node);
        }
        for k in kinds {
            match (*k).min(2) {
                0 => {
                    let (rx, tx) = must!(StreamingSocket::create_pair(), "socket pair");
                    w.sources.push(Source::Socket { rx, tx });
                }
                k => {
                    let service = k as usize - 1;
                    let l = must!(w.services[service].listener_builder().create(), "listener");
                    w.sources.push(Source::Listener { l, service });
                }
            }
        }
        Ok(w)
    }

    fn listeners_on(&self, service: usize) -> Vec<usize> {
        (0..self.sources.len()).filter(|i| matches!(&self.sources[*i], Source::Listener { service: s, .. } if *s == service)).collect()
    }
}

/// model state of the sources
pub struct Pend {
    pub pending: Vec<bool>,
    pub ids: Vec<BTreeSet<u8>>,
}

fn notify_one<S: Service>(w: &World<S>, p: &mut Pend, src: usize, id: u8) -> Result<(), Failure> {
    match &w.sources[src] {
        Source::Socket { tx, .. } => {
            let n = tx.try_send(&[id]);
            ensure!(n == Ok(1), "setup.notify", "socket send returned {n:?}");
        }
        Source::Listener { l, service } => {
            let target = l.id();
            let mut r = None;
            w.notifiers[*service].for_each_listener(|m, d| {
                if d.listener_id == target {
                    r = Some(m.notify_with_custom_event_id(EventId::new(id as usize)));
                    CallbackProgression::Stop
                } else {
                    CallbackProgression::Continue
                }
            });
            ensure!(r == Some(Ok(())), "setup.notify", "notifying listener {src} alone returned {r:?}");
        }
    }
    p.pending[src] = true;
    p.ids[src].insert(id);
    Ok(())
}

fn notify_all<S: Service>(w: &World<S>, p: &mut Pend, src: usize, id: u8) -> Result<(), Failure> {
    match &w.sources[src] {
        Source::Socket { .. } => notify_one(w, p, src, id),
        Source::Listener { service, .. } => {
            let all = w.listeners_on(*service);
            let r = w.notifiers[*service].notify_with_custom_event_id(EventId::new(id as usize));
            ensure!(r == Ok(all.len()), "setup.notify", "notify on service {service} with {} listeners returned {r:?}", all.len());
            for s in all {
                p.pending[s] = true;
                p.ids[s].insert(id);
            }
            Ok(())
        }
    }
}

fn drain<S: Service>(w: &World<S>, p: &mut Pend, src: usize) -> Result<(), Failure> {
    let mut got = BTreeSet::new();
    match &w.sources[src] {
        Source::Socket { rx, .. } => {
            let mut buf = [0u8; 64];
            loop {
                match rx.try_receive(&mut buf) {
                    Ok(0) => break,
                    Ok(n) => got.extend(buf[..n].iter().copied()),
                    Err(e) => fail!("setup.drain", "socket receive failed: {e:?}"),
                }
            }
        }
        Source::Listener { l, .. } => {
            let r = l.try_wait(|a| {
                got.insert(a.id.as_value() as u8);
            });
            ensure!(r.is_ok(), "setup.drain", "Listener::try_wait failed: {r:?}");
        }
    }
    // single-threaded: what was notified since the last drain is what the drain delivers
    ensure!(got == p.ids[src], "source.drain_ids", "source {src}: drained event ids {got:?}, notified since the last drain {:?}", p.ids[src]);
    p.pending[src] = false;
    p.ids[src].clear();
    Ok(())
}

#[derive(Clone, Copy, Debug, PartialEq)]
pub enum Kind {
    Notification(usize),
    Deadline(usize, bool),
    Interval(bool),
}

impl Kind {
    fn source(&self) -> Option<usize> {
        match self {
            Kind::Notification(s) | Kind::Deadline(s, _) => Some(*s),
            Kind::Interval(_) => None,
        }
    }
}

/// `WaitSetGuard` is invariant in the lifetime of the attached object (it holds a GAT of the
/// reactor), and `attach_interval` returns a guard for `'static`: the two cannot share a type
pub enum AnyGuard<'w, 'a, S: Service + 'static> {
    Object(WaitSetGuard<'w, 'a, S>),
    Interval(WaitSetGuard<'w, 'static, S>),
}

pub struct Live<'w, 'a, S: Service + 'static> {
    pub guard: AnyGuard<'w, 'a, S>,
    pub ws: usize,
    pub kind: Kind,
}

impl<S: Service + 'static> Live<'_, '_, S> {
    fn has_event(&self, id: &WaitSetAttachmentId<S>) -> bool {
        match &self.guard {
            AnyGuard::Object(g) => id.has_event_from(g),
            AnyGuard::Interval(g) => id.has_event_from(g),
        }
    }

    fn has_missed(&self, id: &WaitSetAttachmentId<S>) -> bool {
        match &self.guard {
            AnyGuard::Object(g) => id.has_missed_deadline(g),
            AnyGuard::Interval(g) => id.has_missed_deadline(g),
        }
    }

    fn id(&self) -> WaitSetAttachmentId<S> {
        match &self.guard {
            AnyGuard::Object(g) => WaitSetAttachmentId::from_guard(g),
            AnyGuard::Interval(g) => WaitSetAttachmentId::from_guard(g),
        }
    }
}

#[derive(Clone, Copy, Debug, PartialEq, Eq, PartialOrd, Ord)]
enum What {
    /// `has_event_from` (notification / deadline event, interval tick)
    Event,
    /// `has_missed_deadline`
    Missed,
}

#[derive(Clone, Copy, PartialEq, Debug)]
enum Exp {
    Must,
    May,
    Never,
}

fn attach_n<'w, 'a, S: Service>(ws: &'w WaitSet<S>, s: &'a Source<S>) -> Result<WaitSetGuard<'w, 'a, S>, WaitSetAttachmentError>
where
    <S::Event as Event<RelocatableCountingBitSet>>::Listener: SynchronousMultiplexing,
{
    match s {
        Source::Listener { l, .. } => ws.attach_notification(l),
        Source::Socket { rx, .. } => ws.attach_notification(rx),
    }
}

fn attach_d<'w, 'a, S: Service>(ws: &'w WaitSet<S>, s: &'a Source<S>, d: Duration) -> Result<WaitSetGuard<'w, 'a, S>, WaitSetAttachmentError>
where
    <S::Event as Event<RelocatableCountingBitSet>>::Listener: SynchronousMultiplexing,
{
    match s {
        Source::Listener { l, .. } => ws.attach_deadline(l, d),
        Source::Socket { rx, .. } => ws.attach_deadline(rx, d),
    }
}

pub fn run_case(c: &Case, obs: &mut Obs, k: &Counters) -> Result<(), Failure> {
    match c.svc {
        0 => {
            obs.class("svc.ipc");
            run::<ipc::Service>(c, obs, k)
        }
        1 => {
            obs.class("svc.local");
            run::<local::Service>(c, obs, k)
        }
        _ => {
            obs.class("svc.local_with_select_reactor");
            run::<SelectSvc>(c, obs, k)
        }
    }
}

fn run<S: Service + 'static>(c: &Case, obs: &mut Obs, k: &Counters) -> Result<(), Failure>
where
    <S::Event as Event<RelocatableCountingBitSet>>::Listener: SynchronousMultiplexing,
{
    // socket-only cases need no iceoryx2 domain at all
    if c.sources.iter().all(|k| *k == 0) {
        return interpret::<S>(c, obs, k, None);
    }
    let domain = Domain::new();
    let r = Ctx::guarded(|| interpret::<S>(c, obs, k, Some(&domain)));
    if r.is_ok() {
        // after an orderly end only the domain-wide segment and the directories remain; the full
        // `cleanup()` lists /dev/shm, which is expensive on a shared machine
        unsafe {
            let _ = iceoryx2::testing::remove_global_mgmt_segment::<S>(&domain.config);
        }
        let _ = std::fs::remove_dir_all(&domain.root);
    } else {
        domain.cleanup();
    }
    r
}

fn count_on<S: Service + 'static>(guards: &[Live<'_, '_, S>], w: usize) -> usize {
    guards.iter().filter(|g| g.ws == w).count()
}

fn attached<S: Service + 'static>(guards: &[Live<'_, '_, S>], w: usize, s: usize) -> bool {
    guards.iter().any(|g| g.ws == w && g.kind.source() == Some(s))
}

fn dur(far: bool) -> Duration {
    if far { FAR } else { SHORT }
}

fn interpret<S: Service + 'static>(c: &Case, obs: &mut Obs, k: &Counters, domain: Option<&Domain>) -> Result<(), Failure>
where
    <S::Event as Event<RelocatableCountingBitSet>>::Listener: SynchronousMultiplexing,
{
    ensure!(!c.sources.is_empty() && c.sources.len() <= 8, "setup", "1..8 sources");
    let world = World::<S>::new(domain, &c.sources)?;
    let nsrc = world.sources.len();
    let nws = c.waitsets.clamp(1, 2) as usize;
    let mut waitsets = vec![];
    for _ in 0..nws {
        waitsets.push(must!(WaitSetBuilder::new().signal_handling_mode(SignalHandlingMode::Disabled).create::<S>(), "wait set"));
    }
    let mut pend = Pend { pending: vec![false; nsrc], ids: vec![BTreeSet::new(); nsrc] };
    let mut guards: Vec<Live<'_, '_, S>> = vec![];
    // evidence bookkeeping
    let mut fd_detached = vec![vec![false; nsrc]; nws];
    let mut timer_detached = vec![false; nws];
    let mut reused = false;
    let mut multi_report = false;
    let mut reported_undrained = vec![false; nsrc];
    let mut notified_in_cb = vec![false; nsrc];

    let sx = |s: u8| (s as usize).min(nsrc - 1);
    let wx = |w: u8| (w as usize).min(nws - 1);

    for (step, op) in c.ops.iter().enumerate() {
        match op {
            Op::AttachNotification { ws, src } | Op::AttachDeadline { ws, src, .. } => {
                let (w, s) = (wx(*ws), sx(*src));
                let before = waitsets[w].len();
                let (r, kind) = match op {
                    Op::AttachDeadline { far, .. } => (attach_d(&waitsets[w], &world.sources[s], dur(*far)), Kind::Deadline(s, *far)),
                    _ => (attach_n(&waitsets[w], &world.sources[s]), Kind::Notification(s)),
                };
                if attached(&guards, w, s) {
                    ensure!(
                        matches!(r, Err(WaitSetAttachmentError::AlreadyAttached)),
                        "waitset.attach_twice",
                        "step {step}: {op:?} on a source that is attached to this wait set returned {:?}",
                        r.as_ref().map(|_| "a guard")
                    );
                    ensure!(waitsets[w].len() == before, "waitset.attach_twice.len", "step {step}: refused attachment changed len() from {before} to {}", waitsets[w].len());
                    obs.class("already_attached_refused");
                } else {
                    match r {
                        Ok(guard) => {
                            if fd_detached[w][s] {
                                reused = true;
                                obs.class("source_reattached_after_guard_drop");
                            }
                            if matches!(kind, Kind::Deadline(..)) && timer_detached[w] {
                                reused = true;
                                obs.class("timer_attached_after_timer_drop");
                            }
                            if guards.iter().any(|g| g.ws != w && g.kind.source() == Some(s)) {
                                obs.class("source_on_two_waitsets");
                            }
                            guards.push(Live { guard: AnyGuard::Object(guard), ws: w, kind });
                        }
                        Err(e) => fail!("waitset.attach", "step {step}: {op:?} on an unattached source failed with {e:?}"),
                    }
                }
            }
            Op::AttachInterval { ws, far } => {
                let w = wx(*ws);
                match waitsets[w].attach_interval(dur(*far)) {
                    Ok(guard) => {
                        if timer_detached[w] {
                            reused = true;
                            obs.class("timer_attached_after_timer_drop");
                        }
                        guards.push(Live { guard: AnyGuard::Interval(guard), ws: w, kind: Kind::Interval(*far) });
                    }
                    Err(e) => fail!("waitset.attach", "step {step}: {op:?} failed with {e:?}"),
                }
            }
            Op::DropGuard { g } => {
                if !guards.is_empty() {
                    let lg = guards.remove(idx(*g, guards.len()));
                    if let Some(s) = lg.kind.source() {
                        fd_detached[lg.ws][s] = true;
                    }
                    if !matches!(lg.kind, Kind::Notification(_)) {
                        timer_detached[lg.ws] = true;
                    }
                    drop(lg);
                }
            }
            Op::Notify { src, id } => {
                let s = sx(*src);
                if !guards.iter().any(|g| g.kind.source() == Some(s)) {
                    obs.class("notify_unattached_source");
                }
                notify_one(&world, &mut pend, s, (*id).min(7))?;
            }
            Op::NotifyAll { src, id } => notify_all(&world, &mut pend, sx(*src), (*id).min(7))?,
            Op::NotifyEvery { id } => {
                for s in 0..nsrc {
                    notify_one(&world, &mut pend, s, (*id).min(7))?;
                }
            }
            Op::Drain { src } => {
                let s = sx(*src);
                drain(&world, &mut pend, s)?;
                reported_undrained[s] = false;
            }
            Op::Process { ws, sleep, drain: drain_mask, renotify, cb_notify } => {
                let w = wx(*ws);
                if *sleep {
                    std::thread::sleep(SETTLE);
                }
                let pre = pend.pending.clone();
                // (position in `guards`, what) per callback invocation, plus the id for messages
                let mut reports: Vec<(String, Vec<(usize, What)>)> = vec![];
                let mut cb_failure: Option<Failure> = None;
                let mut first = true;
                let result = waitsets[w].wait_and_process_once_with_timeout(
                    |id| {
                        let mut m = vec![];
                        for (gi, lg) in guards.iter().enumerate() {
                            let ev = lg.has_event(&id);
                            let missed = lg.has_missed(&id);
                            if ev {
                                m.push((gi, What::Event));
                            }
                            if missed {
                                m.push((gi, What::Missed));
                            }
                            // the documented BTreeMap approach: the id of a notification / interval
                            // guard is the id its events arrive with; the id of a deadline guard is
                            // the id of its missed deadline
                            let same = id == lg.id();
                            let want = match lg.kind {
                                Kind::Deadline(..) => missed,
                                _ => ev,
                            };
                            if same != want && cb_failure.is_none() {
                                cb_failure = Some(Failure::new(
                                    "waitset.id_vs_from_guard",
                                    format!("step {step}: {id:?} == from_guard({:?} guard) is {same}, has_event_from={ev}, has_missed_deadline={missed}", lg.kind),
                                ));
                            }
                        }
                        let mut act = || -> Result<(), Failure> {
                            if first {
                                first = false;
                                if let Some(x) = cb_notify {
                                    let x = sx(*x);
                                    if !pre[x] && !pend.pending[x] {
                                        notified_in_cb[x] = true;
                                    }
                                    notify_one(&world, &mut pend, x, 6)?;
                                }
                            }
                            if let [(gi, What::Event)] = m[..] {
                                if let Some(s) = guards[gi].kind.source() {
                                    if (*drain_mask >> s) & 1 == 1 && pend.pending[s] {
                                        drain(&world, &mut pend, s)?;
                                        reported_undrained[s] = false;
                                        if (*renotify >> s) & 1 == 1 {
                                            notify_one(&world, &mut pend, s, 5)?;
                                            obs.class("renotified_inside_callback_after_drain");
                                        }
                                    }
                                }
                            }
                            Ok(())
                        };
                        if let Err(f) = act() {
                            cb_failure.get_or_insert(f);
                        }
                        reports.push((format!("{id:?}"), m));
                        CallbackProgression::Continue
                    },
                    Duration::ZERO,
                );
                bump(&k.process_calls);
                if let Some(f) = cb_failure {
                    return Err(f);
                }
                let on_w = count_on(&guards, w);
                if on_w == 0 {
                    ensure!(
                        result == Err(WaitSetRunError::NoAttachments),
                        "waitset.no_attachments",
                        "step {step}: processing a wait set without attachments returned {result:?}"
                    );
                    ensure!(reports.is_empty(), "waitset.no_attachments", "step {step}: callback called for an empty wait set: {reports:?}");
                    obs.class("no_attachments_refused");
                    continue;
                }
                if result == Ok(WaitSetRunResult::Interrupt) {
                    obs.discarded = true;
                    return Ok(());
                }
                ensure!(result == Ok(WaitSetRunResult::AllEventsHandled), "waitset.run_result", "step {step}: {op:?} returned {result:?}");

                // every reported id belongs to exactly one live attachment of this wait set, once
                let mut seen: BTreeSet<(usize, What)> = BTreeSet::new();
                for (id, m) in &reports {
                    ensure!(!m.is_empty(), "waitset.dispatch.unattached_id", "step {step}: callback got {id}, which matches no live guard (live: {:?})", guards.iter().map(|g| (g.ws, g.kind)).collect::<Vec<_>>());
                    ensure!(m.len() == 1, "waitset.dispatch.id_matches_several", "step {step}: {id} matches {:?}", m.iter().map(|(g, wh)| (guards[*g].ws, guards[*g].kind, *wh)).collect::<Vec<_>>());
                    let (gi, what) = m[0];
                    ensure!(guards[gi].ws == w, "waitset.dispatch.foreign_waitset", "step {step}: wait set {w} reported {id}, which matches a guard of wait set {}", guards[gi].ws);
                    ensure!(seen.insert((gi, what)), "waitset.dispatch.duplicate", "step {step}: {id} ({:?} {what:?}) reported twice in one call", guards[gi].kind);
                }
                k.reports.set(k.reports.get() + reports.len() as u64);
                if seen.len() >= 2 {
                    multi_report = true;
                    obs.class("process_reported_two_or_more");
                }

                // exactness
                for (gi, lg) in guards.iter().enumerate() {
                    if lg.ws != w {
                        continue;
                    }
                    let (ev, missed) = match lg.kind {
                        Kind::Notification(s) => (if pre[s] { Exp::Must } else { Exp::Never }, Exp::Never),
                        Kind::Deadline(s, far) => {
                            let ev = if pre[s] { Exp::Must } else { Exp::Never };
                            let missed = if far {
                                Exp::Never
                            } else if pre[s] {
                                // the deadline is reset before it is checked
                                if *sleep {
                                    bump(&k.ambiguous_deadline_rounds);
                                    obs.class("ambiguous_deadline_round");
                                }
                                Exp::May
                            } else if *sleep {
                                Exp::Must
                            } else {
                                Exp::May
                            };
                            (ev, missed)
                        }
                        Kind::Interval(far) => (if far { Exp::Never } else if *sleep { Exp::Must } else { Exp::May }, Exp::Never),
                    };
                    for (what, exp) in [(What::Event, ev), (What::Missed, missed)] {
                        let got = seen.contains(&(gi, what));
                        match (exp, got) {
                            (Exp::Must, false) => {
                                let timer = what == What::Missed || matches!(lg.kind, Kind::Interval(_));
                                if timer {
                                    fail!("waitset.dispatch.missing_timer", "step {step}: {:?} {what:?} not reported although 5 ms passed since anything touched the 1 ms timer; reported: {reports:?}", lg.kind);
                                }
                                fail!("waitset.dispatch.missing_event", "step {step}: {:?} has a pending source but was not reported; reported: {reports:?}", lg.kind);
                            }
                            (Exp::Never, true) => {
                                let timer = what == What::Missed || matches!(lg.kind, Kind::Interval(_));
                                if timer {
                                    fail!("waitset.dispatch.far_timer", "step {step}: {:?} {what:?} reported, its period is one hour", lg.kind);
                                }
                                fail!("waitset.dispatch.phantom_event", "step {step}: {:?} reported but its source had nothing pending when the call started", lg.kind);
                            }
                            (Exp::Must, true) if matches!(lg.kind, Kind::Interval(_)) || what == What::Missed => {
                                bump(&k.short_timer_must);
                                obs.class("short_timer_reported_after_sleep");
                            }
                            (Exp::May, true) => bump(&k.short_timer_may_reported),
                            _ => {}
                        }
                        if got && what == What::Event {
                            if let Some(s) = lg.kind.source() {
                                if reported_undrained[s] {
                                    obs.class("undrained_source_reported_again");
                                }
                                if notified_in_cb[s] {
                                    notified_in_cb[s] = false;
                                    obs.class("notified_in_callback_reported_by_later_call");
                                }
                            }
                        }
                    }
                }
                for s in 0..nsrc {
                    if pre[s] && pend.pending[s] && attached(&guards, w, s) {
                        reported_undrained[s] = true;
                    }
                }
            }
        }
        for (w, ws) in waitsets.iter().enumerate() {
            let n = count_on(&guards, w);
            ensure!(ws.len() == n, "waitset.len", "step {step} ({op:?}): wait set {w} len() = {}, live guards = {n}", ws.len());
            ensure!(ws.is_empty() == (n == 0), "waitset.len", "step {step}: is_empty() = {} with {n} live guards", ws.is_empty());
            ensure!(ws.capacity() >= n, "waitset.len", "step {step}: capacity() = {} below len", ws.capacity());
        }
    }

    // end: guards first (any order the generator produced is over; drop the rest oldest first)
    while !guards.is_empty() {
        drop(guards.remove(0));
    }
    for (w, ws) in waitsets.iter().enumerate() {
        ensure!(ws.len() == 0, "waitset.len", "wait set {w}: len() = {} after every guard was dropped", ws.len());
        let mut called = false;
        let r = ws.wait_and_process_once_with_timeout(
            |_| {
                called = true;
                CallbackProgression::Continue
            },
            Duration::ZERO,
        );
        ensure!(r == Err(WaitSetRunError::NoAttachments) && !called, "waitset.no_attachments", "wait set {w} after every guard was dropped: {r:?}, callback called: {called}");
    }
    obs.nontrivial = reused && multi_report;
    drop(guards);
    drop(waitsets);
    drop(world);
    Ok(())
}
