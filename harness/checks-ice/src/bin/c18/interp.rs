//! Interpreter: runs one program against one executor configuration and returns the normalised
//! trace (one `Out` per call, then the end-of-program probes and the teardown).
use crate::api::*;
use crate::prog::{Op, Program};
use crate::{alloc, c_exec, rust_exec};
use iceoryx2::service::{ipc_threadsafe, local_threadsafe};
use vice::domain::Domain;

pub const MAX_NODES: usize = 2;
pub const MAX_SVCS: usize = 3;
pub const MAX_PORTS: usize = 4;
pub const MAX_LOANS: usize = 8;
pub const MAX_SAMPLES: usize = 12;

/// which API a node (and everything made from it) uses: index = number of the `NodeNew` call mod 2
#[derive(Clone, Copy, Debug, PartialEq)]
pub struct Sides(pub [Side; 2]);

#[derive(Clone, Debug, PartialEq)]
pub struct Rx {
    pub number_of_elements: u64,
    pub number_of_bytes: usize,
    pub payload: Vec<u8>,
    pub user_header: Vec<u8>,
    /// serial number of the publisher the header names (None: unknown id)
    pub origin: Option<usize>,
    pub payload_aligned: bool,
    pub header_aligned: bool,
}

#[derive(Clone, Debug, PartialEq)]
pub enum Out {
    /// the call had no target (nothing alive to apply it to) or no free slot
    Skip,
    Unit,
    Err(i32),
    Count(usize),
    Bool(bool),
    PsService(Box<PsStatic>),
    EvService(Box<EvStatic>),
    Publisher { initial_max_slice_len: usize },
    Subscriber { buffer_size: usize },
    Loan { number_of_elements: u64, number_of_bytes: usize, payload_aligned: bool, header_aligned: bool },
    Bytes(Vec<u8>),
    Recv(Option<Box<Rx>>),
    Events { total: u64, ids: Vec<(usize, u64)> },
    Probe(Vec<Out>),
    Leftovers(Vec<String>),
}

pub struct Entry {
    /// call kind (op kind or probe name): part of failure signatures
    pub kind: &'static str,
    pub what: String,
    pub out: Out,
    /// Rust side only: the error value behind `Out::Err`
    pub err_name: Option<String>,
    /// the call involved objects of both sides (a delivery between them)
    pub cross: bool,
}

struct PsMeta {
    spec: usize,
}

struct PubMeta {
    spec: usize,
    msl: usize,
}

struct LoanMeta {
    spec: usize,
    written: bool,
}

struct St<'a> {
    prog: &'a Program,
    domain: &'a Domain,
    sides: Sides,
    node_calls: usize,
    nodes: Vec<Box<dyn Node>>,
    ps: Vec<(Box<dyn PsSvc>, PsMeta)>,
    evs: Vec<Box<dyn EvSvc>>,
    pubs: Vec<(Box<dyn Publisher>, PubMeta)>,
    subs: Vec<(Box<dyn Subscriber>, usize)>,
    loans: Vec<(Box<dyn Loan>, LoanMeta)>,
    /// (sample, spec, side of the subscriber)
    samples: Vec<(Box<dyn Sample>, usize, Side)>,
    notifiers: Vec<Box<dyn Notifier>>,
    listeners: Vec<Box<dyn Listener>>,
    /// publisher id -> serial number (kept after the publisher is gone)
    pub_ids: Vec<(u128, usize, Side)>,
    pub_serial: usize,
    /// summary for the non-triviality rule
    big_aligned_delivered: bool,
    cross_deliveries: usize,
    deliveries: usize,
    /// sides whose notifiers have reached at least one listener
    notified_from: Vec<Side>,
}

fn pick(sel: u8, len: usize) -> Option<usize> {
    if len == 0 { None } else { Some(sel as usize * len / 256) }
}

pub fn pattern(seed: usize, len: usize) -> Vec<u8> {
    (0..len).map(|i| (seed.wrapping_mul(31).wrapping_add(i.wrapping_mul(7)).wrapping_add(i >> 8).wrapping_add(1)) as u8).collect()
}

fn aligned(addr: usize, align: usize) -> bool {
    align == 0 || addr % align == 0
}

impl<'a> St<'a> {
    fn spec(&self, i: usize) -> &'a PsSpec {
        &self.prog.ps[i]
    }

    fn hdr_len(&self, spec: usize) -> usize {
        self.spec(spec).user_header.as_ref().map(|h| h.size).unwrap_or(0)
    }

    fn hdr_align(&self, spec: usize) -> usize {
        self.spec(spec).user_header.as_ref().map(|h| h.align).unwrap_or(1)
    }

    fn create_node(&mut self) -> R<Box<dyn Node>> {
        let side = self.sides.0[self.node_calls % 2];
        self.node_calls += 1;
        match (side, self.prog.local) {
            (Side::Rust, false) => rust_exec::create_node::<ipc_threadsafe::Service>(&self.domain.config),
            (Side::Rust, true) => rust_exec::create_node::<local_threadsafe::Service>(&self.domain.config),
            (Side::C, local) => c_exec::create_node(&self.domain.config, local),
        }
    }

    fn loan_out(&mut self, idx: usize) -> Out {
        let (l, m) = &mut self.loans[idx];
        let i = l.info();
        let spec = &self.prog.ps[m.spec];
        let ha = spec.user_header.as_ref().map(|h| h.align).unwrap_or(1);
        Out::Loan { number_of_elements: i.number_of_elements, number_of_bytes: i.number_of_bytes, payload_aligned: aligned(i.payload_addr, spec.payload.align), header_aligned: aligned(i.header_addr, ha) }
    }

    fn rx(&mut self, s: &dyn Sample, spec: usize, sub_side: Side) -> (Rx, bool) {
        let i = s.info();
        let sp = self.spec(spec);
        let origin = self.pub_ids.iter().find(|(id, _, _)| *id == i.origin).map(|(_, n, side)| (*n, *side));
        let cross = origin.map(|(_, side)| side != sub_side).unwrap_or(false);
        self.deliveries += 1;
        if cross {
            self.cross_deliveries += 1;
        }
        if i.number_of_bytes > 8 && sp.payload.align > 8 {
            self.big_aligned_delivered = true;
        }
        // `send_copy` cannot write the user header: for such samples its bytes are whatever the chunk
        // held before (heap garbage for local services) and are not part of the comparison. A sample
        // that went through loan + write carries the header pattern that belongs to its payload
        // pattern (the pattern seed, mod 256, is recoverable from the first payload byte).
        let mut user_header = i.user_header;
        if !user_header.is_empty() {
            let seed8 = i.payload.first().map(|b| (b.wrapping_sub(1).wrapping_mul(223)) as usize).unwrap_or(0); // 31 * 223 = 1 (mod 256)
            if user_header != pattern(seed8 ^ 0x5a, user_header.len()) {
                user_header = b"<not written by the sender>".to_vec();
            }
        }
        (
            Rx {
                number_of_elements: i.number_of_elements,
                number_of_bytes: i.number_of_bytes,
                payload_aligned: aligned(i.payload_addr, sp.payload.align),
                header_aligned: aligned(i.header_addr, self.hdr_align(spec)),
                payload: i.payload,
                user_header,
                origin: origin.map(|(n, _)| n),
            },
            cross,
        )
    }

    fn do_write(&mut self, idx: usize, seed: usize) {
        let hdr = self.hdr_len(self.loans[idx].1.spec);
        let (l, m) = &mut self.loans[idx];
        let len = l.info().number_of_bytes;
        l.write(&pattern(seed, len), &pattern(seed ^ 0x5a, hdr));
        m.written = true;
    }

    fn step(&mut self, step: usize, op: &Op) -> (Out, Option<String>, bool) {
        let mut cross = false;
        let r: R<Out> = (|| -> R<Out> {
            Ok(match op {
                Op::NodeNew => {
                    if self.nodes.len() >= MAX_NODES {
                        // the side counter advances only for attempted creations
                        return Ok(Out::Skip);
                    }
                    let n = self.create_node()?;
                    self.nodes.push(n);
                    Out::Unit
                }
                Op::NodeDrop(s) => match pick(*s, self.nodes.len()) {
                    Some(i) => {
                        drop(self.nodes.remove(i));
                        Out::Unit
                    }
                    None => Out::Skip,
                },
                Op::PsNew { node, spec, how } => {
                    let (Some(n), true) = (pick(*node, self.nodes.len()), self.ps.len() < MAX_SVCS) else { return Ok(Out::Skip) };
                    let si = *spec as usize % self.prog.ps.len();
                    let svc = self.nodes[n].ps(&self.prog.ps[si], *how)?;
                    let st = svc.static_config();
                    self.ps.push((svc, PsMeta { spec: si }));
                    Out::PsService(Box::new(st))
                }
                Op::PsDrop(s) => match pick(*s, self.ps.len()) {
                    Some(i) => {
                        drop(self.ps.remove(i));
                        Out::Unit
                    }
                    None => Out::Skip,
                },
                Op::PubNew { svc, cfg } => {
                    let (Some(i), true) = (pick(*svc, self.ps.len()), self.pubs.len() < MAX_PORTS) else { return Ok(Out::Skip) };
                    let p = self.ps[i].0.publisher(cfg)?;
                    let msl = p.initial_max_slice_len();
                    let serial = self.pub_serial;
                    self.pub_serial += 1;
                    self.pub_ids.push((p.id(), serial, p.side()));
                    self.pubs.push((p, PubMeta { spec: self.ps[i].1.spec, msl }));
                    Out::Publisher { initial_max_slice_len: msl }
                }
                Op::PubDrop(s) => match pick(*s, self.pubs.len()) {
                    Some(i) => {
                        drop(self.pubs.remove(i));
                        Out::Unit
                    }
                    None => Out::Skip,
                },
                Op::SubNew { svc, cfg } => {
                    let (Some(i), true) = (pick(*svc, self.ps.len()), self.subs.len() < MAX_PORTS) else { return Ok(Out::Skip) };
                    let s = self.ps[i].0.subscriber(cfg)?;
                    let b = s.buffer_size();
                    self.subs.push((s, self.ps[i].1.spec));
                    Out::Subscriber { buffer_size: b }
                }
                Op::SubDrop(s) => match pick(*s, self.subs.len()) {
                    Some(i) => {
                        drop(self.subs.remove(i));
                        Out::Unit
                    }
                    None => Out::Skip,
                },
                Op::Loan { p, n } => {
                    let (Some(i), true) = (pick(*p, self.pubs.len()), self.loans.len() < MAX_LOANS) else { return Ok(Out::Skip) };
                    let m = &self.pubs[i].1;
                    // slice_len != 1 only for dynamic payloads (documented precondition of the custom loan)
                    let n = if self.spec(m.spec).dynamic { 1 + (*n as usize) % (m.msl + 1) } else { 1 };
                    let spec = m.spec;
                    let l = self.pubs[i].0.loan(n)?;
                    self.loans.push((l, LoanMeta { spec, written: false }));
                    let idx = self.loans.len() - 1;
                    self.loan_out(idx)
                }
                Op::Write { l, seed } => match pick(*l, self.loans.len()) {
                    Some(i) => {
                        self.do_write(i, *seed as usize);
                        Out::Bytes(self.loans[i].0.read_back())
                    }
                    None => Out::Skip,
                },
                Op::Send { l } => match pick(*l, self.loans.len()) {
                    Some(i) => {
                        if !self.loans[i].1.written {
                            // never publish uninitialised memory
                            self.do_write(i, 1000 + step);
                        }
                        let (l, _) = self.loans.remove(i);
                        Out::Count(l.send()?)
                    }
                    None => Out::Skip,
                },
                Op::LoanDrop(s) => match pick(*s, self.loans.len()) {
                    Some(i) => {
                        drop(self.loans.remove(i));
                        Out::Unit
                    }
                    None => Out::Skip,
                },
                Op::SendCopy { p, n, seed } => {
                    let Some(i) = pick(*p, self.pubs.len()) else { return Ok(Out::Skip) };
                    let m = &self.pubs[i].1;
                    let sp = self.spec(m.spec);
                    let n = if sp.dynamic { 1 + (*n as usize) % (m.msl + 1) } else { 1 };
                    let bytes = pattern(*seed as usize + 7, n * sp.payload.size);
                    Out::Count(self.pubs[i].0.send_copy(&bytes, sp.payload.size, n, sp.dynamic)?)
                }
                Op::Recv { s } => {
                    let (Some(i), true) = (pick(*s, self.subs.len()), self.samples.len() < MAX_SAMPLES) else { return Ok(Out::Skip) };
                    match self.subs[i].0.receive()? {
                        Some(x) => {
                            let spec = self.subs[i].1;
                            let side = self.subs[i].0.side();
                            let (rx, c) = self.rx(x.as_ref(), spec, side);
                            cross = c;
                            self.samples.push((x, spec, side));
                            Out::Recv(Some(Box::new(rx)))
                        }
                        None => Out::Recv(None),
                    }
                }
                Op::Read { x } => match pick(*x, self.samples.len()) {
                    Some(i) => {
                        let (s, spec, side) = self.samples.remove(i);
                        let (before_d, before_c) = (self.deliveries, self.cross_deliveries);
                        let (rx, _) = self.rx(s.as_ref(), spec, side);
                        (self.deliveries, self.cross_deliveries) = (before_d, before_c);
                        self.samples.insert(i, (s, spec, side));
                        Out::Recv(Some(Box::new(rx)))
                    }
                    None => Out::Skip,
                },
                Op::SampleDrop(s) => match pick(*s, self.samples.len()) {
                    Some(i) => {
                        drop(self.samples.remove(i));
                        Out::Unit
                    }
                    None => Out::Skip,
                },
                Op::HasSamples(s) => match pick(*s, self.subs.len()) {
                    Some(i) => Out::Bool(self.subs[i].0.has_samples()?),
                    None => Out::Skip,
                },
                Op::UpdateConnections(s) => match pick(*s, self.pubs.len()) {
                    Some(i) => {
                        self.pubs[i].0.update_connections()?;
                        Out::Unit
                    }
                    None => Out::Skip,
                },
                Op::EvNew { node, spec, how } => {
                    let (Some(n), true) = (pick(*node, self.nodes.len()), self.evs.len() < MAX_SVCS) else { return Ok(Out::Skip) };
                    let si = *spec as usize % self.prog.ev.len();
                    let svc = self.nodes[n].ev(&self.prog.ev[si], *how)?;
                    let st = svc.static_config();
                    self.evs.push(svc);
                    Out::EvService(Box::new(st))
                }
                Op::EvDrop(s) => match pick(*s, self.evs.len()) {
                    Some(i) => {
                        drop(self.evs.remove(i));
                        Out::Unit
                    }
                    None => Out::Skip,
                },
                Op::NotifierNew { svc, default_id } => {
                    let (Some(i), true) = (pick(*svc, self.evs.len()), self.notifiers.len() < MAX_PORTS) else { return Ok(Out::Skip) };
                    let n = self.evs[i].notifier(default_id.map(|v| v as usize))?;
                    self.notifiers.push(n);
                    Out::Unit
                }
                Op::NotifierDrop(s) => match pick(*s, self.notifiers.len()) {
                    Some(i) => {
                        drop(self.notifiers.remove(i));
                        Out::Unit
                    }
                    None => Out::Skip,
                },
                Op::ListenerNew { svc } => {
                    let (Some(i), true) = (pick(*svc, self.evs.len()), self.listeners.len() < MAX_PORTS) else { return Ok(Out::Skip) };
                    let l = self.evs[i].listener()?;
                    self.listeners.push(l);
                    Out::Unit
                }
                Op::ListenerDrop(s) => match pick(*s, self.listeners.len()) {
                    Some(i) => {
                        drop(self.listeners.remove(i));
                        Out::Unit
                    }
                    None => Out::Skip,
                },
                Op::Notify(s) => match pick(*s, self.notifiers.len()) {
                    Some(i) => {
                        let c = self.notifiers[i].notify()?;
                        if c > 0 && !self.notified_from.contains(&self.notifiers[i].side()) {
                            self.notified_from.push(self.notifiers[i].side());
                        }
                        Out::Count(c)
                    }
                    None => Out::Skip,
                },
                Op::NotifyId { n, id } => match pick(*n, self.notifiers.len()) {
                    Some(i) => {
                        let c = self.notifiers[i].notify_id(*id as usize)?;
                        if c > 0 && !self.notified_from.contains(&self.notifiers[i].side()) {
                            self.notified_from.push(self.notifiers[i].side());
                        }
                        Out::Count(c)
                    }
                    None => Out::Skip,
                },
                Op::TryWait(s) => match pick(*s, self.listeners.len()) {
                    Some(i) => {
                        let (total, ids) = self.listeners[i].try_wait()?;
                        if !ids.is_empty() {
                            self.deliveries += 1;
                            let me = self.listeners[i].side();
                            if self.notified_from.iter().any(|s| *s != me) {
                                cross = true;
                                self.cross_deliveries += 1;
                            }
                        }
                        Out::Events { total, ids }
                    }
                    None => Out::Skip,
                },
            })
        })();
        match r {
            Ok(o) => (o, None, cross),
            Err(f) => (Out::Err(f.code), Some(f.name), false),
        }
    }
}

pub struct RunResult {
    pub entries: Vec<Entry>,
    pub big_aligned_delivered: bool,
    pub cross_deliveries: usize,
    pub deliveries: usize,
    /// handle accounting problems of the C side (signature, message)
    pub problems: Vec<(String, String)>,
    /// a block released twice inside the run (address, size)
    pub double_free: Option<(usize, usize)>,
}

fn normalise_leftover(name: &str, prefix: &str) -> String {
    let n = name.replace(prefix, "<prefix>");
    let mut out = String::new();
    let mut in_digits = false;
    for c in n.chars() {
        if c.is_ascii_digit() {
            if !in_digits {
                out.push('#');
            }
            in_digits = true;
        } else {
            in_digits = false;
            out.push(c);
        }
    }
    out
}

impl<'a> St<'a> {
    fn push(entries: &mut Vec<Entry>, kind: &'static str, what: String, r: R<Out>) {
        match r {
            Ok(out) => entries.push(Entry { kind, what, out, err_name: None, cross: false }),
            Err(f) => entries.push(Entry { kind, what, out: Out::Err(f.code), err_name: Some(f.name), cross: false }),
        }
    }

    /// end-of-program probes (part of the trace) and the orderly teardown
    fn finish(&mut self, entries: &mut Vec<Entry>) {
        // 1. everything the program still holds is released through the executor's drop path
        while let Some(x) = self.samples.pop() {
            drop(x);
        }
        while let Some(l) = self.loans.pop() {
            drop(l);
        }
        // 2. loan to exhaustion: a loan leaked by a drop shows as a smaller count
        for i in 0..self.pubs.len() {
            let mut held = vec![];
            let mut last = Out::Skip;
            for _ in 0..16 {
                match self.pubs[i].0.loan(1) {
                    Ok(l) => held.push(l),
                    Err(f) => {
                        last = Out::Err(f.code);
                        break;
                    }
                }
            }
            let n = held.len();
            while let Some(l) = held.pop() {
                drop(l);
            }
            entries.push(Entry { kind: "probe.loan_exhaustion", what: format!("probe.loan_exhaustion[pub {i}]"), out: Out::Probe(vec![Out::Count(n), last]), err_name: None, cross: false });
        }
        // 3. deliveries after the program: every publisher sends twice, every subscriber takes all
        for i in 0..self.pubs.len() {
            let sp = self.spec(self.pubs[i].1.spec);
            for k in 0..2usize {
                let bytes = pattern(200 + 16 * i + k, sp.payload.size);
                let r = self.pubs[i].0.send_copy(&bytes, sp.payload.size, 1, sp.dynamic).map(Out::Count);
                Self::push(entries, "probe.send_copy", format!("probe.send_copy[pub {i} #{k}]"), r);
            }
        }
        for i in 0..self.subs.len() {
            let mut held = vec![];
            let spec = self.subs[i].1;
            let side = self.subs[i].0.side();
            for k in 0..MAX_SAMPLES {
                match self.subs[i].0.receive() {
                    Ok(Some(x)) => {
                        let (rx, cross) = self.rx(x.as_ref(), spec, side);
                        held.push(x);
                        entries.push(Entry { kind: "probe.receive", what: format!("probe.receive[sub {i} #{k}]"), out: Out::Recv(Some(Box::new(rx))), err_name: None, cross });
                    }
                    Ok(None) => {
                        entries.push(Entry { kind: "probe.receive", what: format!("probe.receive[sub {i} #{k}]"), out: Out::Recv(None), err_name: None, cross: false });
                        break;
                    }
                    Err(f) => {
                        entries.push(Entry { kind: "probe.receive", what: format!("probe.receive[sub {i} #{k}]"), out: Out::Err(f.code), err_name: Some(f.name), cross: false });
                        break;
                    }
                }
            }
            while let Some(x) = held.pop() {
                drop(x);
            }
        }
        // 4. one round of events
        for i in 0..self.notifiers.len() {
            let r = self.notifiers[i].notify().map(Out::Count);
            Self::push(entries, "probe.notify", format!("probe.notify[notifier {i}]"), r);
        }
        for i in 0..self.listeners.len() {
            let r = self.listeners[i].try_wait().map(|(total, ids)| Out::Events { total, ids });
            Self::push(entries, "probe.try_wait", format!("probe.try_wait[listener {i}]"), r);
        }
        // 5. port counts as the services see them
        for i in 0..self.ps.len() {
            let (a, b) = self.ps[i].0.counts();
            entries.push(Entry { kind: "probe.counts", what: format!("probe.counts[pub-sub service {i}]"), out: Out::Probe(vec![Out::Count(a), Out::Count(b)]), err_name: None, cross: false });
        }
        for i in 0..self.evs.len() {
            let (a, b) = self.evs[i].counts();
            entries.push(Entry { kind: "probe.counts", what: format!("probe.counts[event service {i}]"), out: Out::Probe(vec![Out::Count(a), Out::Count(b)]), err_name: None, cross: false });
        }
        // 6. teardown: ports, services, nodes
        self.pubs.clear();
        self.subs.clear();
        self.notifiers.clear();
        self.listeners.clear();
        self.ps.clear();
        self.evs.clear();
        self.nodes.clear();
    }
}

pub fn run(prog: &Program, sides: Sides) -> RunResult {
    let mut domain = Domain::new();
    // a full subscriber buffer must not block the (single-threaded) program
    domain.config.defaults.publish_subscribe.backpressure_strategy = iceoryx2::prelude::BackpressureStrategy::DiscardData;
    let track = sides.0.contains(&Side::C);
    let _ = c_exec::take_problems();
    if track {
        alloc::begin();
    }
    let mut entries = vec![];
    let mut st = St {
        prog,
        domain: &domain,
        sides,
        node_calls: 0,
        nodes: vec![],
        ps: vec![],
        evs: vec![],
        pubs: vec![],
        subs: vec![],
        loans: vec![],
        samples: vec![],
        notifiers: vec![],
        listeners: vec![],
        pub_ids: vec![],
        pub_serial: 0,
        big_aligned_delivered: false,
        cross_deliveries: 0,
        deliveries: 0,
        notified_from: vec![],
    };
    for (i, op) in prog.ops.iter().enumerate() {
        let (out, err_name, cross) = st.step(i, op);
        entries.push(Entry { kind: op.kind(), what: format!("#{i} {op:?}"), out, err_name, cross });
    }
    st.finish(&mut entries);
    let (big_aligned_delivered, cross_deliveries, deliveries) = (st.big_aligned_delivered, st.cross_deliveries, st.deliveries);
    drop(st);
    let double_free = if track { alloc::end() } else { None };
    let left: Vec<String> = domain.leftovers().iter().map(|n| normalise_leftover(n, &domain.prefix)).collect();
    entries.push(Entry { kind: "leftovers", what: "leftovers after dropping every handle".into(), out: Out::Leftovers(left), err_name: None, cross: false });
    domain.cleanup();
    RunResult { entries, big_aligned_delivered, cross_deliveries, deliveries, problems: c_exec::take_problems(), double_free }
}
