//! The object model both executors implement. A program is interpreted against `Box<dyn ...>`
//! objects; which side (Rust API / C API) an object lives on is decided when its node is created,
//! everything made from a node inherits the side. Dropping the box releases the object.
use serde::{Deserialize, Serialize};

/// A failed call: the C return code (C side) or `__verif_into_c_int(error)` (Rust side).
#[derive(Clone, Debug, PartialEq)]
pub struct Fail {
    pub code: i32,
    /// Rust side: `{:?}` of the error value, prefixed with the enum name; C side: empty
    pub name: String,
}

pub type R<T> = Result<T, Fail>;

#[derive(Clone, Debug, Serialize, Deserialize, PartialEq)]
pub struct TypeDet {
    /// distinguishes type names ("verif_t<name>")
    pub name: u8,
    pub size: usize,
    pub align: usize,
}

#[derive(Clone, Debug, Serialize, Deserialize, PartialEq)]
pub struct PsSpec {
    /// service name index
    pub name: u8,
    /// slice (TypeVariant::Dynamic) payload
    pub dynamic: bool,
    pub payload: TypeDet,
    pub user_header: Option<TypeDet>,
    pub max_publishers: Option<usize>,
    pub max_subscribers: Option<usize>,
    pub max_nodes: Option<usize>,
    pub history_size: Option<usize>,
    pub sub_max_buffer: Option<usize>,
    pub sub_max_borrowed: Option<usize>,
    pub safe_overflow: Option<bool>,
    pub payload_alignment: Option<usize>,
}

#[derive(Clone, Debug, Serialize, Deserialize, PartialEq)]
pub struct EvSpec {
    pub name: u8,
    pub max_notifiers: Option<usize>,
    pub max_listeners: Option<usize>,
    pub max_nodes: Option<usize>,
    pub event_id_max: Option<usize>,
    pub notifier_created: Option<usize>,
    pub notifier_dropped: Option<usize>,
    pub notifier_dead: Option<usize>,
}

#[derive(Clone, Copy, Debug, Serialize, Deserialize, PartialEq)]
pub enum How {
    Create,
    Open,
    OpenOrCreate,
}

#[derive(Clone, Debug, Serialize, Deserialize, PartialEq)]
pub struct PubCfg {
    pub max_loans: Option<usize>,
    pub max_slice_len: Option<usize>,
    /// 0 static, 1 best fit, 2 power of two
    pub alloc: Option<u8>,
    /// set the backpressure strategy to DiscardData explicitly (it is the default of the domains
    /// the programs run in: a single-threaded program must never block in send)
    #[serde(default)]
    pub discard: bool,
}

#[derive(Clone, Debug, Serialize, Deserialize, PartialEq)]
pub struct SubCfg {
    pub buffer: Option<usize>,
    pub history_request: Option<usize>,
}

/// static configuration read back after create / open
#[derive(Clone, Debug, PartialEq)]
pub struct PsStatic {
    pub max_subscribers: usize,
    pub max_publishers: usize,
    pub max_nodes: usize,
    pub history_size: usize,
    pub sub_max_buffer: usize,
    pub sub_max_borrowed: usize,
    pub safe_overflow: bool,
    /// (variant is dynamic, name, size, alignment) of header / user header / payload
    pub types: [(bool, String, usize, usize); 3],
}

#[derive(Clone, Debug, PartialEq)]
pub struct EvStatic {
    pub max_notifiers: usize,
    pub max_listeners: usize,
    pub max_nodes: usize,
    pub event_id_max: usize,
    pub created: Option<usize>,
    pub dropped: Option<usize>,
    pub dead: Option<usize>,
    pub deadline: Option<(u64, u32)>,
}

#[derive(Clone, Debug, PartialEq)]
pub struct LoanInfo {
    pub number_of_elements: u64,
    pub number_of_bytes: usize,
    pub payload_addr: usize,
    pub header_addr: usize,
}

#[derive(Clone, Debug, PartialEq)]
pub struct SampleInfo {
    pub number_of_elements: u64,
    pub number_of_bytes: usize,
    pub payload: Vec<u8>,
    pub user_header: Vec<u8>,
    pub origin: u128,
    pub payload_addr: usize,
    pub header_addr: usize,
}

pub trait Node {
    fn side(&self) -> Side;
    fn ps(&self, spec: &PsSpec, how: How) -> R<Box<dyn PsSvc>>;
    fn ev(&self, spec: &EvSpec, how: How) -> R<Box<dyn EvSvc>>;
}

pub trait PsSvc {
    fn side(&self) -> Side;
    fn static_config(&self) -> PsStatic;
    /// (publishers, subscribers) of the dynamic config
    fn counts(&self) -> (usize, usize);
    fn publisher(&self, cfg: &PubCfg) -> R<Box<dyn Publisher>>;
    fn subscriber(&self, cfg: &SubCfg) -> R<Box<dyn Subscriber>>;
}

pub trait Publisher {
    fn side(&self) -> Side;
    fn id(&self) -> u128;
    fn initial_max_slice_len(&self) -> usize;
    fn loan(&self, n: usize) -> R<Box<dyn Loan>>;
    /// `bytes.len() == n * elem_size`; fixed-size services use n == 1
    fn send_copy(&self, bytes: &[u8], elem_size: usize, n: usize, dynamic: bool) -> R<usize>;
    fn update_connections(&self) -> R<()>;
}

pub trait Loan {
    fn side(&self) -> Side;
    fn info(&mut self) -> LoanInfo;
    /// writes the whole payload and the whole user header
    fn write(&mut self, payload: &[u8], user_header: &[u8]);
    /// payload as seen through the read accessor of the loan
    fn read_back(&mut self) -> Vec<u8>;
    fn send(self: Box<Self>) -> R<usize>;
}

pub trait Subscriber {
    fn side(&self) -> Side;
    fn buffer_size(&self) -> usize;
    fn receive(&self) -> R<Option<Box<dyn Sample>>>;
    fn has_samples(&self) -> R<bool>;
}

pub trait Sample {
    fn side(&self) -> Side;
    fn info(&self) -> SampleInfo;
}

pub trait EvSvc {
    fn side(&self) -> Side;
    fn static_config(&self) -> EvStatic;
    /// (notifiers, listeners)
    fn counts(&self) -> (usize, usize);
    fn notifier(&self, default_id: Option<usize>) -> R<Box<dyn Notifier>>;
    fn listener(&self) -> R<Box<dyn Listener>>;
}

pub trait Notifier {
    fn side(&self) -> Side;
    fn notify(&self) -> R<usize>;
    fn notify_id(&self, id: usize) -> R<usize>;
}

pub trait Listener {
    fn side(&self) -> Side;
    /// (return value, activations in callback order)
    fn try_wait(&self) -> R<(u64, Vec<(usize, u64)>)>;
}

#[derive(Clone, Copy, Debug, PartialEq, Eq)]
pub enum Side {
    Rust,
    C,
}

pub fn type_name(t: &TypeDet) -> String {
    format!("verif_t{}", t.name)
}

pub fn service_name(pattern: &str, n: u8) -> String {
    // one name space for both patterns on purpose: opening a service of the other pattern is one
    // of the failing calls
    let _ = pattern;
    format!("c18/svc/{n}")
}
