//! The generated program: service specifications plus a sequence of calls. Selectors (`u8`) are
//! resolved by the interpreter against the objects that are alive at that point (monotone mapping
//! `sel * len / 256`), so most generated calls have a target and shrinking stays effective.
use crate::api::*;
use proptest::prelude::*;
use serde::{Deserialize, Serialize};

#[derive(Clone, Debug, Serialize, Deserialize, PartialEq)]
pub enum Op {
    NodeNew,
    NodeDrop(u8),
    PsNew { node: u8, spec: u8, how: How },
    PsDrop(u8),
    PubNew { svc: u8, cfg: PubCfg },
    PubDrop(u8),
    SubNew { svc: u8, cfg: SubCfg },
    SubDrop(u8),
    Loan { p: u8, n: u8 },
    Write { l: u8, seed: u8 },
    Send { l: u8 },
    LoanDrop(u8),
    SendCopy { p: u8, n: u8, seed: u8 },
    Recv { s: u8 },
    Read { x: u8 },
    SampleDrop(u8),
    HasSamples(u8),
    UpdateConnections(u8),
    EvNew { node: u8, spec: u8, how: How },
    EvDrop(u8),
    NotifierNew { svc: u8, default_id: Option<u8> },
    NotifierDrop(u8),
    ListenerNew { svc: u8 },
    ListenerDrop(u8),
    Notify(u8),
    NotifyId { n: u8, id: u8 },
    TryWait(u8),
}

impl Op {
    pub fn kind(&self) -> &'static str {
        match self {
            Op::NodeNew => "NodeNew",
            Op::NodeDrop(_) => "NodeDrop",
            Op::PsNew { how: How::Create, .. } => "PsCreate",
            Op::PsNew { how: How::Open, .. } => "PsOpen",
            Op::PsNew { how: How::OpenOrCreate, .. } => "PsOpenOrCreate",
            Op::PsDrop(_) => "PsDrop",
            Op::PubNew { .. } => "PubNew",
            Op::PubDrop(_) => "PubDrop",
            Op::SubNew { .. } => "SubNew",
            Op::SubDrop(_) => "SubDrop",
            Op::Loan { .. } => "Loan",
            Op::Write { .. } => "Write",
            Op::Send { .. } => "Send",
            Op::LoanDrop(_) => "LoanDrop",
            Op::SendCopy { .. } => "SendCopy",
            Op::Recv { .. } => "Recv",
            Op::Read { .. } => "Read",
            Op::SampleDrop(_) => "SampleDrop",
            Op::HasSamples(_) => "HasSamples",
            Op::UpdateConnections(_) => "UpdateConnections",
            Op::EvNew { how: How::Create, .. } => "EvCreate",
            Op::EvNew { how: How::Open, .. } => "EvOpen",
            Op::EvNew { how: How::OpenOrCreate, .. } => "EvOpenOrCreate",
            Op::EvDrop(_) => "EvDrop",
            Op::NotifierNew { .. } => "NotifierNew",
            Op::NotifierDrop(_) => "NotifierDrop",
            Op::ListenerNew { .. } => "ListenerNew",
            Op::ListenerDrop(_) => "ListenerDrop",
            Op::Notify(_) => "Notify",
            Op::NotifyId { .. } => "NotifyId",
            Op::TryWait(_) => "TryWait",
        }
    }
}

#[derive(Clone, Debug, Serialize, Deserialize, PartialEq)]
pub struct Program {
    /// 0: all-C against all-Rust; 1: mixed, first node C, second Rust; 2: mixed, first node Rust
    pub mode: u8,
    /// local instead of ipc service type
    pub local: bool,
    pub ps: Vec<PsSpec>,
    pub ev: Vec<EvSpec>,
    pub ops: Vec<Op>,
}

fn opt<T: std::fmt::Debug + Clone + 'static>(s: impl Strategy<Value = T> + 'static) -> BoxedStrategy<Option<T>> {
    prop_oneof![2 => Just(None), 3 => s.prop_map(Some)].boxed()
}

/// size 1..=256, alignment 2^0..2^6; mostly a multiple of the alignment as for every real C / Rust
/// type, sometimes not (accepted by the binding: it only demands a valid `Layout`)
fn type_det(max_align_log2: u32) -> impl Strategy<Value = TypeDet> {
    (0u8..3, 0u32..=max_align_log2, 1usize..=256, prop::bool::weighted(0.88)).prop_map(|(name, al, raw, multiple)| {
        let align = 1usize << al;
        let size = if multiple { (raw.div_ceil(align) * align).clamp(align, 256) } else { raw };
        TypeDet { name, size, align }
    })
}

fn ps_spec() -> impl Strategy<Value = PsSpec> {
    (
        (0u8..3, prop::bool::weighted(0.5), type_det(6), opt(type_det(4))),
        (opt(1usize..=3), opt(1usize..=3), opt(1usize..=4), opt(0usize..=3), opt(1usize..=4), opt(1usize..=3), opt(any::<bool>()), opt((0u32..=7).prop_map(|k| 1usize << k))),
    )
        .prop_map(|((name, dynamic, payload, user_header), (max_publishers, max_subscribers, max_nodes, history_size, sub_max_buffer, sub_max_borrowed, safe_overflow, payload_alignment))| PsSpec {
            name,
            dynamic,
            payload,
            user_header,
            max_publishers,
            max_subscribers,
            max_nodes,
            history_size,
            sub_max_buffer,
            sub_max_borrowed,
            safe_overflow,
            payload_alignment,
        })
}

/// a spec that differs from `base` in one respect (to provoke refused opens), or not at all
fn ps_variant(base: PsSpec) -> impl Strategy<Value = PsSpec> {
    (0u8..10, type_det(6), 1usize..=5, any::<bool>()).prop_map(move |(what, t, v, flag)| {
        let mut s = base.clone();
        match what {
            0 => s.payload.size = t.size,
            1 => s.payload.align = t.align,
            2 => s.payload.name = (s.payload.name + 1) % 3,
            3 => s.dynamic = !s.dynamic,
            4 => s.user_header = if s.user_header.is_some() { None } else { Some(TypeDet { name: t.name, size: t.size.min(64), align: t.align.min(16) }) },
            5 => s.max_publishers = Some(v),
            6 => s.sub_max_buffer = Some(v),
            7 => s.safe_overflow = Some(flag),
            8 => s.name = (s.name + 1) % 3,
            _ => {}
        }
        s
    })
}

fn ev_spec() -> impl Strategy<Value = EvSpec> {
    (0u8..3, opt(1usize..=3), opt(1usize..=3), opt(1usize..=4), opt(0usize..=20), opt(0usize..=24), opt(0usize..=24), opt(0usize..=24)).prop_map(
        |(name, max_notifiers, max_listeners, max_nodes, event_id_max, notifier_created, notifier_dropped, notifier_dead)| EvSpec {
            name,
            max_notifiers,
            max_listeners,
            max_nodes,
            event_id_max,
            notifier_created,
            notifier_dropped,
            notifier_dead,
        },
    )
}

fn ev_variant(base: EvSpec) -> impl Strategy<Value = EvSpec> {
    (0u8..7, 1usize..=5, 0usize..=24).prop_map(move |(what, v, id)| {
        let mut s = base.clone();
        match what {
            0 => s.max_notifiers = Some(v),
            1 => s.max_listeners = Some(v),
            2 => s.event_id_max = Some(id),
            3 => s.notifier_created = Some(id),
            4 => s.name = (s.name + 1) % 3,
            5 => s.max_nodes = Some(v),
            _ => {}
        }
        s
    })
}

fn how() -> impl Strategy<Value = How> {
    prop_oneof![3 => Just(How::Create), 3 => Just(How::Open), 2 => Just(How::OpenOrCreate)]
}

fn pub_cfg() -> impl Strategy<Value = PubCfg> {
    (opt(1usize..=3), opt(1usize..=5), opt(0u8..3), prop::bool::weighted(0.3)).prop_map(|(max_loans, max_slice_len, alloc, discard)| PubCfg { max_loans, max_slice_len, alloc, discard })
}

fn sub_cfg() -> impl Strategy<Value = SubCfg> {
    (opt(1usize..=5), opt(0usize..=4)).prop_map(|(buffer, history_request)| SubCfg { buffer, history_request })
}

fn op() -> impl Strategy<Value = Op> {
    let s = any::<u8>();
    prop_oneof![
        2 => Just(Op::NodeNew),
        1 => s.prop_map(Op::NodeDrop),
        4 => (s, 0u8..3, how()).prop_map(|(node, spec, how)| Op::PsNew { node, spec, how }),
        1 => s.prop_map(Op::PsDrop),
        4 => (s, pub_cfg()).prop_map(|(svc, cfg)| Op::PubNew { svc, cfg }),
        1 => s.prop_map(Op::PubDrop),
        4 => (s, sub_cfg()).prop_map(|(svc, cfg)| Op::SubNew { svc, cfg }),
        1 => s.prop_map(Op::SubDrop),
        10 => (s, any::<u8>()).prop_map(|(p, n)| Op::Loan { p, n }),
        4 => (s, any::<u8>()).prop_map(|(l, seed)| Op::Write { l, seed }),
        8 => s.prop_map(|l| Op::Send { l }),
        2 => s.prop_map(Op::LoanDrop),
        5 => (s, any::<u8>(), any::<u8>()).prop_map(|(p, n, seed)| Op::SendCopy { p, n, seed }),
        12 => s.prop_map(|s| Op::Recv { s }),
        2 => s.prop_map(|x| Op::Read { x }),
        4 => s.prop_map(Op::SampleDrop),
        2 => s.prop_map(Op::HasSamples),
        1 => s.prop_map(Op::UpdateConnections),
        3 => (s, 0u8..2, how()).prop_map(|(node, spec, how)| Op::EvNew { node, spec, how }),
        1 => s.prop_map(Op::EvDrop),
        3 => (s, opt(0u8..26)).prop_map(|(svc, default_id)| Op::NotifierNew { svc, default_id }),
        1 => s.prop_map(Op::NotifierDrop),
        3 => s.prop_map(|svc| Op::ListenerNew { svc }),
        1 => s.prop_map(Op::ListenerDrop),
        4 => s.prop_map(Op::Notify),
        5 => (s, 0u8..26).prop_map(|(n, id)| Op::NotifyId { n, id }),
        5 => s.prop_map(Op::TryWait),
    ]
}

/// start-up sequences that make the interesting states likely: two nodes (the two sides in mixed
/// mode), one creates and the other opens the first service, ports on both
pub fn prelude(kind: u8) -> Vec<Op> {
    let pc = PubCfg { max_loans: None, max_slice_len: None, alloc: None, discard: false };
    let sc = SubCfg { buffer: None, history_request: None };
    let mut v = vec![];
    if kind == 0 {
        return v;
    }
    v.push(Op::NodeNew);
    v.push(Op::NodeNew);
    if kind & 1 != 0 {
        v.push(Op::PsNew { node: 0, spec: 0, how: How::Create });
        v.push(Op::PsNew { node: 255, spec: 0, how: How::Open });
        v.push(Op::PubNew { svc: 0, cfg: pc.clone() });
        v.push(Op::SubNew { svc: 255, cfg: sc.clone() });
        v.push(Op::PubNew { svc: 255, cfg: pc });
        v.push(Op::SubNew { svc: 0, cfg: sc });
    }
    if kind & 2 != 0 {
        v.push(Op::EvNew { node: 0, spec: 0, how: How::Create });
        v.push(Op::EvNew { node: 255, spec: 0, how: How::Open });
        v.push(Op::NotifierNew { svc: 0, default_id: None });
        v.push(Op::ListenerNew { svc: 255 });
        v.push(Op::NotifierNew { svc: 255, default_id: None });
        v.push(Op::ListenerNew { svc: 0 });
    }
    v
}

pub fn program(max_ops: usize) -> impl Strategy<Value = Program> {
    (ps_spec(), ev_spec())
        .prop_flat_map(|(p, e)| (Just(p.clone()), ps_variant(p.clone()), ps_variant(p), Just(e.clone()), ev_variant(e)))
        .prop_flat_map(move |(p0, p1, p2, e0, e1)| {
            (
                Just(vec![p0, p1, p2]),
                Just(vec![e0, e1]),
                prop_oneof![2 => Just(0u8), 1 => Just(1u8), 1 => Just(2u8)],
                prop::bool::weighted(0.3),
                prop_oneof![1 => Just(0u8), 4 => Just(1u8), 2 => Just(2u8), 2 => Just(3u8)],
                proptest::collection::vec(op(), 0..max_ops),
            )
        })
        .prop_map(|(ps, ev, mode, local, pre, ops)| {
            let mut all = prelude(pre);
            all.extend(ops);
            Program { mode, local, ps, ev, ops: all }
        })
}
