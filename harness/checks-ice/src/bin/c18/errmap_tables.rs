// included by errmap.rs: the harness's own table `Rust value => C enumerator that names it`.

pub fn tables() -> Vec<Table> {
    let mut v: Vec<Table> = vec![];
    tables_nodes_and_ports(&mut v);
    tables_send_receive(&mut v);
    tables_services(&mut v);
    tables_builders(&mut v);
    tables_misc(&mut v);
    v
}

fn tables_nodes_and_ports(v: &mut Vec<Table>) {
    table!(v; "SemanticStringError": SemanticStringError => iox2_semantic_string_error_e, error = true, strfn = true, |e| unsafe { iox2_semantic_string_error_string(e) };
        rust { SemanticStringError::InvalidContent => INVALID_CONTENT, SemanticStringError::ExceedsMaximumLength => EXCEEDS_MAXIMUM_LENGTH }
        c { INVALID_CONTENT, EXCEEDS_MAXIMUM_LENGTH });
    table!(v; "ServiceNameError": ServiceNameError => iox2_service_name_error_e, error = true, strfn = false, |e: iox2_service_name_error_e| e.as_const_cstr().as_ptr();
        rust { ServiceNameError::InvalidContent => INVALID_CONTENT, ServiceNameError::ExceedsMaximumLength => EXCEEDS_MAXIMUM_LENGTH }
        c { INVALID_CONTENT, EXCEEDS_MAXIMUM_LENGTH });
    table!(v; "NodeCreationFailure": NodeCreationFailure => iox2_node_creation_failure_e, error = true, strfn = true, |e| unsafe { iox2_node_creation_failure_string(e) };
        rust { NodeCreationFailure::InsufficientPermissions => INSUFFICIENT_PERMISSIONS, NodeCreationFailure::InternalError => INTERNAL_ERROR, NodeCreationFailure::SystemCorrupted => SYSTEM_CORRUPTED }
        c { INSUFFICIENT_PERMISSIONS, INTERNAL_ERROR, SYSTEM_CORRUPTED });
    table!(v; "NodeListFailure": NodeListFailure => iox2_node_list_failure_e, error = true, strfn = true, |e| unsafe { iox2_node_list_failure_string(e) };
        rust { NodeListFailure::InsufficientPermissions => INSUFFICIENT_PERMISSIONS, NodeListFailure::Interrupt => INTERRUPT, NodeListFailure::InternalError => INTERNAL_ERROR }
        c { INSUFFICIENT_PERMISSIONS, INTERRUPT, INTERNAL_ERROR });
    table!(v; "NodeWaitFailure": NodeWaitFailure => iox2_node_wait_failure_e, error = true, strfn = true, |e| unsafe { iox2_node_wait_failure_string(e) };
        rust { NodeWaitFailure::Interrupt => INTERRUPT, NodeWaitFailure::TerminationRequest => TERMINATION_REQUEST }
        c { INTERRUPT, TERMINATION_REQUEST });
    table!(v; "NodeCleanupFailure": NodeCleanupFailure => iox2_node_cleanup_failure_e, error = true, strfn = false, |e: iox2_node_cleanup_failure_e| e.as_const_cstr().as_ptr();
        rust {
            NodeCleanupFailure::Interrupt => INTERRUPT, NodeCleanupFailure::InternalError => INTERNAL_ERROR,
            NodeCleanupFailure::InsufficientPermissions => INSUFFICIENT_PERMISSIONS, NodeCleanupFailure::VersionMismatch => VERSION_MISMATCH,
            NodeCleanupFailure::ResourcesAlreadyCleanedUp => RESOURCES_ALREADY_CLEANED_UP,
            NodeCleanupFailure::AnotherInstanceIsCleaningUpTheNode => ANOTHER_INSTANCE_IS_CLEANING_UP_THE_NODE }
        c { INTERRUPT, INTERNAL_ERROR, INSUFFICIENT_PERMISSIONS, VERSION_MISMATCH, RESOURCES_ALREADY_CLEANED_UP, ANOTHER_INSTANCE_IS_CLEANING_UP_THE_NODE });
    table!(v; "ServiceRemoveError": ServiceRemoveError => iox2_service_remove_error_e, error = true, strfn = false, |e: iox2_service_remove_error_e| e.as_const_cstr().as_ptr();
        rust {
            ServiceRemoveError::Interrupt => INTERRUPT, ServiceRemoveError::VersionMismatch => VERSION_MISMATCH,
            ServiceRemoveError::InternalError => INTERNAL_ERROR, ServiceRemoveError::InsufficientPermissions => INSUFFICIENT_PERMISSIONS }
        c { INSUFFICIENT_PERMISSIONS, INTERRUPT, VERSION_MISMATCH, INTERNAL_ERROR });
    table!(v; "PublisherCreateError": PublisherCreateError => iox2_publisher_create_error_e, error = true, strfn = true, |e| unsafe { iox2_publisher_create_error_string(e) };
        rust {
            PublisherCreateError::ExceedsMaxSupportedPublishers => EXCEEDS_MAX_SUPPORTED_PUBLISHERS, PublisherCreateError::UnableToCreateDataSegment => UNABLE_TO_CREATE_DATA_SEGMENT,
            PublisherCreateError::FailedToDeployThreadsafetyPolicy => FAILED_TO_DEPLOY_THREAD_SAFETY_POLICY, PublisherCreateError::UnableToCreatePortTag => UNABLE_TO_CREATE_PORT_TAG }
        c { EXCEEDS_MAX_SUPPORTED_PUBLISHERS, UNABLE_TO_CREATE_DATA_SEGMENT, FAILED_TO_DEPLOY_THREAD_SAFETY_POLICY, UNABLE_TO_CREATE_PORT_TAG });
    table!(v; "SubscriberCreateError": SubscriberCreateError => iox2_subscriber_create_error_e, error = true, strfn = true, |e| unsafe { iox2_subscriber_create_error_string(e) };
        rust {
            SubscriberCreateError::ExceedsMaxSupportedSubscribers => EXCEEDS_MAX_SUPPORTED_SUBSCRIBERS,
            SubscriberCreateError::BufferSizeExceedsMaxSupportedBufferSizeOfService => BUFFER_SIZE_EXCEEDS_MAX_SUPPORTED_BUFFER_SIZE_OF_SERVICE,
            SubscriberCreateError::FailedToDeployThreadsafetyPolicy => FAILED_TO_DEPLOY_THREAD_SAFETY_POLICY,
            SubscriberCreateError::UnableToCreatePortTag => UNABLE_TO_CREATE_PORT_TAG,
            SubscriberCreateError::HistoryRequestExceedsHistorySizeOfService => HISTORY_REQUEST_EXCEEDS_HISTORY_SIZE_OF_SERVICE,
            SubscriberCreateError::HistoryRequestExceedsBufferSizeOfSubscriber => HISTORY_REQUEST_EXCEEDS_BUFFER_SIZE_OF_SUBSCRIBER }
        c { EXCEEDS_MAX_SUPPORTED_SUBSCRIBERS, BUFFER_SIZE_EXCEEDS_MAX_SUPPORTED_BUFFER_SIZE_OF_SERVICE, FAILED_TO_DEPLOY_THREAD_SAFETY_POLICY, UNABLE_TO_CREATE_PORT_TAG,
            HISTORY_REQUEST_EXCEEDS_HISTORY_SIZE_OF_SERVICE, HISTORY_REQUEST_EXCEEDS_BUFFER_SIZE_OF_SUBSCRIBER });
    table!(v; "NotifierCreateError": NotifierCreateError => iox2_notifier_create_error_e, error = true, strfn = true, |e| unsafe { iox2_notifier_create_error_string(e) };
        rust {
            NotifierCreateError::ExceedsMaxSupportedNotifiers => EXCEEDS_MAX_SUPPORTED_NOTIFIERS,
            NotifierCreateError::FailedToDeployThreadsafetyPolicy => FAILED_TO_DEPLOY_THREAD_SAFETY_POLICY, NotifierCreateError::UnableToCreatePortTag => UNABLE_TO_CREATE_PORT_TAG }
        c { EXCEEDS_MAX_SUPPORTED_NOTIFIERS, FAILED_TO_DEPLOY_THREAD_SAFETY_POLICY, UNABLE_TO_CREATE_PORT_TAG });
    table!(v; "ListenerCreateError": ListenerCreateError => iox2_listener_create_error_e, error = true, strfn = true, |e| unsafe { iox2_listener_create_error_string(e) };
        rust {
            ListenerCreateError::ExceedsMaxSupportedListeners => EXCEEDS_MAX_SUPPORTED_LISTENERS, ListenerCreateError::ResourceCreationFailed => RESOURCE_CREATION_FAILED,
            ListenerCreateError::FailedToDeployThreadsafetyPolicy => FAILED_TO_DEPLOY_THREAD_SAFETY_POLICY, ListenerCreateError::UnableToCreatePortTag => UNABLE_TO_CREATE_PORT_TAG }
        c { EXCEEDS_MAX_SUPPORTED_LISTENERS, RESOURCE_CREATION_FAILED, FAILED_TO_DEPLOY_THREAD_SAFETY_POLICY, UNABLE_TO_CREATE_PORT_TAG });
    table!(v; "ClientCreateError": ClientCreateError => iox2_client_create_error_e, error = true, strfn = true, |e| unsafe { iox2_client_create_error_string(e) };
        rust {
            ClientCreateError::UnableToCreateDataSegment => UNABLE_TO_CREATE_DATA_SEGMENT, ClientCreateError::ExceedsMaxSupportedClients => EXCEEDS_MAX_SUPPORTED_CLIENTS,
            ClientCreateError::FailedToDeployThreadsafetyPolicy => FAILED_TO_DEPLOY_THREAD_SAFETY_POLICY, ClientCreateError::UnableToCreatePortTag => UNABLE_TO_CREATE_PORT_TAG,
            ClientCreateError::MaxActiveRequestsExceedsMaxSupportedActiveRequestsOfService => MAX_ACTIVE_REQUESTS_EXCEEDS_MAX_SUPPORTED_ACTIVE_REQUESTS_OF_SERVICE }
        c { UNABLE_TO_CREATE_DATA_SEGMENT, EXCEEDS_MAX_SUPPORTED_CLIENTS, FAILED_TO_DEPLOY_THREAD_SAFETY_POLICY, UNABLE_TO_CREATE_PORT_TAG,
            MAX_ACTIVE_REQUESTS_EXCEEDS_MAX_SUPPORTED_ACTIVE_REQUESTS_OF_SERVICE });
    table!(v; "ServerCreateError": ServerCreateError => iox2_server_create_error_e, error = true, strfn = true, |e| unsafe { iox2_server_create_error_string(e) };
        rust {
            ServerCreateError::ExceedsMaxSupportedServers => EXCEEDS_MAX_SUPPORTED_SERVERS, ServerCreateError::UnableToCreateDataSegment => UNABLE_TO_CREATE_DATA_SEGMENT,
            ServerCreateError::FailedToDeployThreadsafetyPolicy => FAILED_TO_DEPLOY_THREAD_SAFETY_POLICY, ServerCreateError::UnableToCreatePortTag => UNABLE_TO_CREATE_PORT_TAG }
        c { EXCEEDS_MAX_SUPPORTED_SERVERS, UNABLE_TO_CREATE_DATA_SEGMENT, FAILED_TO_DEPLOY_THREAD_SAFETY_POLICY, UNABLE_TO_CREATE_PORT_TAG });
    table!(v; "ReaderCreateError": ReaderCreateError => iox2_reader_create_error_e, error = true, strfn = true, |e| unsafe { iox2_reader_create_error_string(e) };
        rust {
            ReaderCreateError::ExceedsMaxSupportedReaders => EXCEEDS_MAX_SUPPORTED_READERS,
            ReaderCreateError::FailedToDeployThreadsafetyPolicy => FAILED_TO_DEPLOY_THREADSAFETY_POLICY, ReaderCreateError::UnableToCreatePortTag => UNABLE_TO_CREATE_PORT_TAG }
        c { EXCEEDS_MAX_SUPPORTED_READERS, FAILED_TO_DEPLOY_THREADSAFETY_POLICY, UNABLE_TO_CREATE_PORT_TAG });
    table!(v; "WriterCreateError": WriterCreateError => iox2_writer_create_error_e, error = true, strfn = true, |e| unsafe { iox2_writer_create_error_string(e) };
        rust {
            WriterCreateError::ExceedsMaxSupportedWriters => EXCEEDS_MAX_SUPPORTED_WRITERS, WriterCreateError::InternalFailure => INTERNAL_FAILURE,
            WriterCreateError::FailedToDeployThreadsafetyPolicy => FAILED_TO_DEPLOY_THREADSAFETY_POLICY, WriterCreateError::UnableToCreatePortTag => UNABLE_TO_CREATE_PORT_TAG }
        c { EXCEEDS_MAX_SUPPORTED_WRITERS, INTERNAL_FAILURE, FAILED_TO_DEPLOY_THREADSAFETY_POLICY, UNABLE_TO_CREATE_PORT_TAG });
    table!(v; "EntryHandleError": EntryHandleError => iox2_entry_handle_error_e, error = true, strfn = true, |e| unsafe { iox2_entry_handle_error_string(e) };
        rust { EntryHandleError::EntryDoesNotExist => ENTRY_DOES_NOT_EXIST }
        c { ENTRY_DOES_NOT_EXIST });
    table!(v; "EntryHandleMutError": EntryHandleMutError => iox2_entry_handle_mut_error_e, error = true, strfn = true, |e| unsafe { iox2_entry_handle_mut_error_string(e) };
        rust { EntryHandleMutError::EntryDoesNotExist => ENTRY_DOES_NOT_EXIST, EntryHandleMutError::HandleAlreadyExists => HANDLE_ALREADY_EXISTS }
        c { ENTRY_DOES_NOT_EXIST, HANDLE_ALREADY_EXISTS });
    table!(v; "NotifierNotifyError": NotifierNotifyError => iox2_notifier_notify_error_e, error = true, strfn = true, |e| unsafe { iox2_notifier_notify_error_string(e) };
        rust {
            NotifierNotifyError::EventIdOutOfBounds => EVENT_ID_OUT_OF_BOUNDS, NotifierNotifyError::MissedDeadline => MISSED_DEADLINE,
            NotifierNotifyError::UnableToAcquireElapsedTime => UNABLE_TO_ACQUIRE_ELAPSED_TIME, NotifierNotifyError::InvalidListenerKey => INVALID_LISTENER_KEY }
        c { EVENT_ID_OUT_OF_BOUNDS, MISSED_DEADLINE, UNABLE_TO_ACQUIRE_ELAPSED_TIME, INVALID_LISTENER_KEY });
    table!(v; "ListenerWaitError": ListenerWaitError => iox2_listener_wait_error_e, error = true, strfn = true, |e| unsafe { iox2_listener_wait_error_string(e) };
        rust { ListenerWaitError::ContractViolation => CONTRACT_VIOLATION, ListenerWaitError::InternalFailure => INTERNAL_FAILURE, ListenerWaitError::InterruptSignal => INTERRUPT_SIGNAL }
        c { CONTRACT_VIOLATION, INTERNAL_FAILURE, INTERRUPT_SIGNAL });
}

fn row(name: String, key: &str, sig: &str, eval: Box<dyn Fn() -> c_int>, expect: c_int, expect_name: &'static str) -> Row {
    Row { name, key: key.to_string(), sig: sig.to_string(), eval, expect, expect_name }
}

fn tables_send_receive(v: &mut Vec<Table>) {
    table!(v; "LoanError": LoanError => iox2_loan_error_e, error = true, strfn = true, |e| unsafe { iox2_loan_error_string(e) };
        rust {
            LoanError::OutOfMemory => OUT_OF_MEMORY, LoanError::ExceedsMaxLoans => EXCEEDS_MAX_LOANED_SAMPLES,
            LoanError::ExceedsMaxLoanSize => EXCEEDS_MAX_LOAN_SIZE, LoanError::InternalFailure => INTERNAL_FAILURE }
        c { OUT_OF_MEMORY, EXCEEDS_MAX_LOANED_SAMPLES, EXCEEDS_MAX_LOAN_SIZE, INTERNAL_FAILURE });

    // SendError: ConnectionError(_) collapses its payload on purpose
    {
        #[allow(dead_code)]
        fn exhaustive(v: &SendError) {
            match v {
                SendError::ConnectionBrokenSinceSenderNoLongerExists | SendError::ConnectionCorrupted | SendError::LoanError(LoanError::OutOfMemory)
                | SendError::LoanError(LoanError::ExceedsMaxLoans) | SendError::LoanError(LoanError::ExceedsMaxLoanSize) | SendError::LoanError(LoanError::InternalFailure)
                | SendError::ConnectionError(_) | SendError::UnableToDeliver | SendError::InternalError => {}
            }
        }
        let mut t = Table { rust_enum: "SendError", c_enum: "iox2_send_error_e", is_error: true, has_string_fn: true, rows: vec![], cvars: vec![] };
        use iox2_send_error_e as C;
        for (e, n, c, cn) in send_errors_plain() {
            t.rows.push(row(format!("SendError::{n}"), &format!("SendError::{n}"), &format!("SendError::{n}"), Box::new(move || __verif_into_c_int(e)), c as c_int, cn));
        }
        for (cf, _) in connection_failures() {
            t.rows.push(row(format!("SendError::ConnectionError({cf:?})"), "SendError::ConnectionError", "SendError::ConnectionError",
                Box::new(move || __verif_into_c_int(SendError::ConnectionError(cf))), C::CONNECTION_ERROR as c_int, "CONNECTION_ERROR"));
        }
        cvars!(t, iox2_send_error_e, |e| unsafe { iox2_send_error_string(e) };
            CONNECTION_BROKEN_SINCE_SENDER_NO_LONGER_EXISTS, CONNECTION_CORRUPTED, LOAN_ERROR_OUT_OF_MEMORY, LOAN_ERROR_EXCEEDS_MAX_LOANS,
            LOAN_ERROR_EXCEEDS_MAX_LOAN_SIZE, LOAN_ERROR_INTERNAL_FAILURE, CONNECTION_ERROR, UNABLE_TO_DELIVER, INTERNAL_ERROR);
        v.push(t);
    }

    // RequestSendError wraps SendError
    {
        #[allow(dead_code)]
        fn exhaustive(v: &RequestSendError) {
            match v {
                RequestSendError::ExceedsMaxActiveRequests | RequestSendError::SendError(_) => {}
            }
        }
        let mut t = Table { rust_enum: "RequestSendError", c_enum: "iox2_request_send_error_e", is_error: true, has_string_fn: true, rows: vec![], cvars: vec![] };
        use iox2_request_send_error_e as C;
        t.rows.push(row("RequestSendError::ExceedsMaxActiveRequests".into(), "RequestSendError::ExceedsMaxActiveRequests", "RequestSendError::ExceedsMaxActiveRequests",
            Box::new(|| __verif_into_c_int(RequestSendError::ExceedsMaxActiveRequests)), C::EXCEEDS_MAX_ACTIVE_REQUESTS as c_int, "EXCEEDS_MAX_ACTIVE_REQUESTS"));
        for (e, n, _, cn) in send_errors_plain() {
            let expect = match cn {
                "CONNECTION_BROKEN_SINCE_SENDER_NO_LONGER_EXISTS" => C::CONNECTION_BROKEN_SINCE_SENDER_NO_LONGER_EXISTS,
                "CONNECTION_CORRUPTED" => C::CONNECTION_CORRUPTED,
                "LOAN_ERROR_OUT_OF_MEMORY" => C::LOAN_ERROR_OUT_OF_MEMORY,
                "LOAN_ERROR_EXCEEDS_MAX_LOANS" => C::LOAN_ERROR_EXCEEDS_MAX_LOANS,
                "LOAN_ERROR_EXCEEDS_MAX_LOAN_SIZE" => C::LOAN_ERROR_EXCEEDS_MAX_LOAN_SIZE,
                "LOAN_ERROR_INTERNAL_FAILURE" => C::LOAN_ERROR_INTERNAL_FAILURE,
                "UNABLE_TO_DELIVER" => C::UNABLE_TO_DELIVER,
                "INTERNAL_ERROR" => C::INTERNAL_ERROR,
                other => unreachable!("{other}"),
            };
            let nm = format!("RequestSendError::SendError(SendError::{n})");
            t.rows.push(row(nm.clone(), &nm, &nm, Box::new(move || __verif_into_c_int(RequestSendError::SendError(e))), expect as c_int, cn));
        }
        for (cf, _) in connection_failures() {
            t.rows.push(row(format!("RequestSendError::SendError(SendError::ConnectionError({cf:?}))"), "RequestSendError::SendError(SendError::ConnectionError)",
                "RequestSendError::SendError(SendError::ConnectionError)",
                Box::new(move || __verif_into_c_int(RequestSendError::SendError(SendError::ConnectionError(cf)))), C::CONNECTION_ERROR as c_int, "CONNECTION_ERROR"));
        }
        cvars!(t, iox2_request_send_error_e, |e| unsafe { iox2_request_send_error_string(e) };
            CONNECTION_BROKEN_SINCE_SENDER_NO_LONGER_EXISTS, CONNECTION_CORRUPTED, LOAN_ERROR_OUT_OF_MEMORY, LOAN_ERROR_EXCEEDS_MAX_LOANS,
            LOAN_ERROR_EXCEEDS_MAX_LOAN_SIZE, LOAN_ERROR_INTERNAL_FAILURE, CONNECTION_ERROR, EXCEEDS_MAX_ACTIVE_REQUESTS, UNABLE_TO_DELIVER, INTERNAL_ERROR);
        v.push(t);
    }

    // ConnectionFailure: each variant collapses its payload
    {
        let mut t = Table { rust_enum: "ConnectionFailure", c_enum: "iox2_connection_failure_e", is_error: true, has_string_fn: true, rows: vec![], cvars: vec![] };
        use iox2_connection_failure_e as C;
        for (cf, k) in connection_failures() {
            let (expect, en) = match k {
                "FailedToEstablishConnection" => (C::FAILED_TO_ESTABLISH_CONNECTION, "FAILED_TO_ESTABLISH_CONNECTION"),
                _ => (C::UNABLE_TO_MAP_SENDERS_DATA_SEGMENT, "UNABLE_TO_MAP_SENDERS_DATA_SEGMENT"),
            };
            let key = format!("ConnectionFailure::{k}");
            t.rows.push(row(format!("{cf:?}"), &key, &key, Box::new(move || __verif_into_c_int(cf)), expect as c_int, en));
        }
        cvars!(t, iox2_connection_failure_e, |e| unsafe { iox2_connection_failure_string(e) }; FAILED_TO_ESTABLISH_CONNECTION, UNABLE_TO_MAP_SENDERS_DATA_SEGMENT);
        v.push(t);
    }

    // ReceiveError
    {
        #[allow(dead_code)]
        fn exhaustive(v: &ReceiveError) {
            match v {
                ReceiveError::ExceedsMaxBorrows | ReceiveError::ConnectionFailure(_) => {}
            }
        }
        let mut t = Table { rust_enum: "ReceiveError", c_enum: "iox2_receive_error_e", is_error: true, has_string_fn: true, rows: vec![], cvars: vec![] };
        use iox2_receive_error_e as C;
        t.rows.push(row("ReceiveError::ExceedsMaxBorrows".into(), "ReceiveError::ExceedsMaxBorrows", "ReceiveError::ExceedsMaxBorrows",
            Box::new(|| __verif_into_c_int(ReceiveError::ExceedsMaxBorrows)), C::EXCEEDS_MAX_BORROWS as c_int, "EXCEEDS_MAX_BORROWS"));
        for (cf, k) in connection_failures() {
            let (expect, en) = match k {
                "FailedToEstablishConnection" => (C::FAILED_TO_ESTABLISH_CONNECTION, "FAILED_TO_ESTABLISH_CONNECTION"),
                _ => (C::UNABLE_TO_MAP_SENDERS_DATA_SEGMENT, "UNABLE_TO_MAP_SENDERS_DATA_SEGMENT"),
            };
            let key = format!("ReceiveError::ConnectionFailure({k})");
            t.rows.push(row(format!("ReceiveError::ConnectionFailure({cf:?})"), &key, &key, Box::new(move || __verif_into_c_int(ReceiveError::ConnectionFailure(cf))), expect as c_int, en));
        }
        cvars!(t, iox2_receive_error_e, |e| unsafe { iox2_receive_error_string(e) }; EXCEEDS_MAX_BORROWS, FAILED_TO_ESTABLISH_CONNECTION, UNABLE_TO_MAP_SENDERS_DATA_SEGMENT);
        v.push(t);
    }
}

/// the SendError values without a connection failure payload, with the send-error enumerator
fn send_errors_plain() -> Vec<(SendError, &'static str, iox2_send_error_e, &'static str)> {
    use iox2_send_error_e as C;
    vec![
        (SendError::ConnectionBrokenSinceSenderNoLongerExists, "ConnectionBrokenSinceSenderNoLongerExists", C::CONNECTION_BROKEN_SINCE_SENDER_NO_LONGER_EXISTS, "CONNECTION_BROKEN_SINCE_SENDER_NO_LONGER_EXISTS"),
        (SendError::ConnectionCorrupted, "ConnectionCorrupted", C::CONNECTION_CORRUPTED, "CONNECTION_CORRUPTED"),
        (SendError::LoanError(LoanError::OutOfMemory), "LoanError(LoanError::OutOfMemory)", C::LOAN_ERROR_OUT_OF_MEMORY, "LOAN_ERROR_OUT_OF_MEMORY"),
        (SendError::LoanError(LoanError::ExceedsMaxLoans), "LoanError(LoanError::ExceedsMaxLoans)", C::LOAN_ERROR_EXCEEDS_MAX_LOANS, "LOAN_ERROR_EXCEEDS_MAX_LOANS"),
        (SendError::LoanError(LoanError::ExceedsMaxLoanSize), "LoanError(LoanError::ExceedsMaxLoanSize)", C::LOAN_ERROR_EXCEEDS_MAX_LOAN_SIZE, "LOAN_ERROR_EXCEEDS_MAX_LOAN_SIZE"),
        (SendError::LoanError(LoanError::InternalFailure), "LoanError(LoanError::InternalFailure)", C::LOAN_ERROR_INTERNAL_FAILURE, "LOAN_ERROR_INTERNAL_FAILURE"),
        (SendError::UnableToDeliver, "UnableToDeliver", C::UNABLE_TO_DELIVER, "UNABLE_TO_DELIVER"),
        (SendError::InternalError, "InternalError", C::INTERNAL_ERROR, "INTERNAL_ERROR"),
    ]
}

fn tables_services(v: &mut Vec<Table>) {
    table!(v; "ServiceDetailsError": ServiceDetailsError => iox2_service_details_error_e, error = true, strfn = true, |e| unsafe { iox2_service_details_error_string(e) };
        rust {
            ServiceDetailsError::Interrupt => INTERRUPT, ServiceDetailsError::InsufficientPermissions => INSUFFICIENT_PERMISSIONS,
            ServiceDetailsError::FailedToOpenStaticServiceInfo => FAILED_TO_OPEN_STATIC_SERVICE_INFO, ServiceDetailsError::FailedToReadStaticServiceInfo => FAILED_TO_READ_STATIC_SERVICE_INFO,
            ServiceDetailsError::FailedToDeserializeStaticServiceInfo => FAILED_TO_DESERIALIZE_STATIC_SERVICE_INFO,
            ServiceDetailsError::ServiceInInconsistentState => SERVICE_IN_INCONSISTENT_STATE, ServiceDetailsError::VersionMismatch => VERSION_MISMATCH,
            ServiceDetailsError::InternalError => INTERNAL_ERROR, ServiceDetailsError::FailedToAcquireNodeState => FAILED_TO_ACQUIRE_NODE_STATE }
        c { FAILED_TO_OPEN_STATIC_SERVICE_INFO, FAILED_TO_READ_STATIC_SERVICE_INFO, FAILED_TO_DESERIALIZE_STATIC_SERVICE_INFO, SERVICE_IN_INCONSISTENT_STATE, VERSION_MISMATCH,
            INTERNAL_ERROR, FAILED_TO_ACQUIRE_NODE_STATE, INTERRUPT, INSUFFICIENT_PERMISSIONS });
    table!(v; "ServiceListError": ServiceListError => iox2_service_list_error_e, error = true, strfn = true, |e| unsafe { iox2_service_list_error_string(e) };
        rust { ServiceListError::InsufficientPermissions => INSUFFICIENT_PERMISSIONS, ServiceListError::InternalError => INTERNAL_ERROR }
        c { INSUFFICIENT_PERMISSIONS, INTERNAL_ERROR });
    table!(v; "ConfigCreationError": ConfigCreationError => iox2_config_creation_error_e, error = true, strfn = true, |e| unsafe { iox2_config_creation_error_string(e) };
        rust {
            ConfigCreationError::FailedToReadConfigFileContents => FAILED_TO_READ_CONFIG_FILE_CONTENTS, ConfigCreationError::UnableToDeserializeContents => UNABLE_TO_DESERIALIZE_CONTENTS,
            ConfigCreationError::InsufficientPermissions => INSUFFICIENT_PERMISSIONS, ConfigCreationError::ConfigFileDoesNotExist => CONFIG_FILE_DOES_NOT_EXIST,
            ConfigCreationError::UnableToOpenConfigFile => UNABLE_TO_OPEN_CONFIG_FILE }
        c { FAILED_TO_READ_CONFIG_FILE_CONTENTS, UNABLE_TO_DESERIALIZE_CONTENTS, INSUFFICIENT_PERMISSIONS, CONFIG_FILE_DOES_NOT_EXIST, UNABLE_TO_OPEN_CONFIG_FILE, INVALID_FILE_PATH });
    table!(v; "AttributeDefinitionError": AttributeDefinitionError => iox2_attribute_definition_error_e, error = true, strfn = true, |e| unsafe { iox2_attribute_definition_error_create_error_string(e) };
        rust { AttributeDefinitionError::ExceedsMaxSupportedAttributes => EXCEEDS_MAX_SUPPORTED_ATTRIBUTES }
        c { EXCEEDS_MAX_SUPPORTED_ATTRIBUTES });
    // AttributeVerificationError carries the offending key / attribute
    {
        #[allow(dead_code)]
        fn exhaustive(v: &AttributeVerificationError) {
            match v {
                AttributeVerificationError::NonExistingKey(_) | AttributeVerificationError::IncompatibleAttribute(_) => {}
            }
        }
        let mut t = Table { rust_enum: "AttributeVerificationError", c_enum: "iox2_attribute_verification_error_e", is_error: true, has_string_fn: true, rows: vec![], cvars: vec![] };
        use iox2_attribute_verification_error_e as C;
        for k in ["k", "some/longer key with spaces"] {
            let key = AttributeKey::new(k.as_bytes()).expect("attribute key");
            let val = AttributeValue::new(b"v").expect("attribute value");
            t.rows.push(row(format!("AttributeVerificationError::NonExistingKey({k:?})"), "AttributeVerificationError::NonExistingKey", "AttributeVerificationError::NonExistingKey",
                Box::new(move || __verif_into_c_int(AttributeVerificationError::NonExistingKey(key))), C::NON_EXISTING_KEY as c_int, "NON_EXISTING_KEY"));
            t.rows.push(row(format!("AttributeVerificationError::IncompatibleAttribute(({k:?},\"v\"))"), "AttributeVerificationError::IncompatibleAttribute", "AttributeVerificationError::IncompatibleAttribute",
                Box::new(move || __verif_into_c_int(AttributeVerificationError::IncompatibleAttribute((key, val)))), C::INCOMPATIBLE_ATTRIBUTE as c_int, "INCOMPATIBLE_ATTRIBUTE"));
        }
        cvars!(t, iox2_attribute_verification_error_e, |e| unsafe { iox2_attribute_verification_error_create_error_string(e) }; NON_EXISTING_KEY, INCOMPATIBLE_ATTRIBUTE);
        v.push(t);
    }
}

fn tables_misc(v: &mut Vec<Table>) {
    table!(v; "WaitSetRunError": WaitSetRunError => iox2_waitset_run_error_e, error = true, strfn = true, |e| unsafe { iox2_waitset_run_error_string(e) };
        rust { WaitSetRunError::InsufficientPermissions => INSUFFICIENT_PERMISSIONS, WaitSetRunError::InternalError => INTERNAL_ERROR, WaitSetRunError::NoAttachments => NO_ATTACHMENTS }
        c { INSUFFICIENT_PERMISSIONS, INTERNAL_ERROR, NO_ATTACHMENTS, TERMINATION_REQUEST, INTERRUPT });
    table!(v; "WaitSetRunResult": WaitSetRunResult => iox2_waitset_run_result_e, error = false, strfn = false, |e: iox2_waitset_run_result_e| e.as_const_cstr().as_ptr();
        rust {
            WaitSetRunResult::TerminationRequest => TERMINATION_REQUEST, WaitSetRunResult::Interrupt => INTERRUPT,
            WaitSetRunResult::StopRequest => STOP_REQUEST, WaitSetRunResult::AllEventsHandled => ALL_EVENTS_HANDLED }
        c { TERMINATION_REQUEST, INTERRUPT, STOP_REQUEST, ALL_EVENTS_HANDLED });
    table!(v; "WaitSetAttachmentError": WaitSetAttachmentError => iox2_waitset_attachment_error_e, error = true, strfn = true, |e| unsafe { iox2_waitset_attachment_error_string(e) };
        rust {
            WaitSetAttachmentError::InsufficientCapacity => INSUFFICIENT_CAPACITY, WaitSetAttachmentError::AlreadyAttached => ALREADY_ATTACHED,
            WaitSetAttachmentError::InternalError => INTERNAL_ERROR, WaitSetAttachmentError::InsufficientResources => INSUFFICIENT_RESOURCES }
        c { INSUFFICIENT_CAPACITY, ALREADY_ATTACHED, INTERNAL_ERROR, INSUFFICIENT_RESOURCES });
    table!(v; "WaitSetCreateError": WaitSetCreateError => iox2_waitset_create_error_e, error = true, strfn = true, |e| unsafe { iox2_waitset_create_error_string(e) };
        rust { WaitSetCreateError::InternalError => INTERNAL_ERROR, WaitSetCreateError::InsufficientResources => INSUFFICIENT_RESOURCES }
        c { INTERNAL_ERROR, INSUFFICIENT_RESOURCES });
    table!(v; "AllocationGrowError": AllocationGrowError => iox2_allocation_grow_error_e, error = true, strfn = false, |e: iox2_allocation_grow_error_e| e.as_const_cstr().as_ptr();
        rust {
            AllocationGrowError::GrowWouldShrink => GROW_WOULD_SHRINK, AllocationGrowError::SizeIsZero => SIZE_IS_ZERO, AllocationGrowError::OutOfMemory => OUT_OF_MEMORY,
            AllocationGrowError::AlignmentFailure => ALIGNMENT_FAILURE, AllocationGrowError::InternalError => INTERNAL_ERROR }
        c { GROW_WOULD_SHRINK, SIZE_IS_ZERO, OUT_OF_MEMORY, ALIGNMENT_FAILURE, INTERNAL_ERROR });
    // value conversions (not errors): no string function, zero is a legal value
    {
        #[allow(dead_code)]
        fn exhaustive(v: &BackpressureStrategy, c: &iox2_backpressure_strategy_e) {
            match v {
                BackpressureStrategy::RetryUntilDelivered | BackpressureStrategy::DiscardData => {}
            }
            match c {
                iox2_backpressure_strategy_e::RETRY_UNTIL_DELIVERED | iox2_backpressure_strategy_e::DISCARD_DATA => {}
            }
        }
        let mut t = Table { rust_enum: "BackpressureStrategy", c_enum: "iox2_backpressure_strategy_e", is_error: false, has_string_fn: false, rows: vec![], cvars: vec![] };
        use iox2_backpressure_strategy_e as C;
        t.rows.push(row("BackpressureStrategy::RetryUntilDelivered".into(), "RetryUntilDelivered", "BackpressureStrategy::RetryUntilDelivered",
            Box::new(|| __verif_into_c_int(BackpressureStrategy::RetryUntilDelivered)), C::RETRY_UNTIL_DELIVERED as c_int, "RETRY_UNTIL_DELIVERED"));
        t.rows.push(row("BackpressureStrategy::DiscardData".into(), "DiscardData", "BackpressureStrategy::DiscardData",
            Box::new(|| __verif_into_c_int(BackpressureStrategy::DiscardData)), C::DISCARD_DATA as c_int, "DISCARD_DATA"));
        t.cvars.push(CVar { name: "RETRY_UNTIL_DELIVERED", value: C::RETRY_UNTIL_DELIVERED as c_int, string: Some(b"retry until delivered".to_vec()) });
        t.cvars.push(CVar { name: "DISCARD_DATA", value: C::DISCARD_DATA as c_int, string: Some(b"discard data".to_vec()) });
        v.push(t);
    }
    {
        #[allow(dead_code)]
        fn exhaustive(v: &SignalHandlingMode, c: &iox2_signal_handling_mode_e) {
            match v {
                SignalHandlingMode::HandleTerminationRequests | SignalHandlingMode::Disabled => {}
            }
            match c {
                iox2_signal_handling_mode_e::HANDLE_TERMINATION_REQUESTS | iox2_signal_handling_mode_e::DISABLED => {}
            }
        }
        let mut t = Table { rust_enum: "SignalHandlingMode", c_enum: "iox2_signal_handling_mode_e", is_error: false, has_string_fn: false, rows: vec![], cvars: vec![] };
        use iox2_signal_handling_mode_e as C;
        t.rows.push(row("SignalHandlingMode::HandleTerminationRequests".into(), "HandleTerminationRequests", "SignalHandlingMode::HandleTerminationRequests",
            Box::new(|| __verif_into_c_int(SignalHandlingMode::HandleTerminationRequests)), C::HANDLE_TERMINATION_REQUESTS as c_int, "HANDLE_TERMINATION_REQUESTS"));
        t.rows.push(row("SignalHandlingMode::Disabled".into(), "Disabled", "SignalHandlingMode::Disabled",
            Box::new(|| __verif_into_c_int(SignalHandlingMode::Disabled)), C::DISABLED as c_int, "DISABLED"));
        t.cvars.push(CVar { name: "HANDLE_TERMINATION_REQUESTS", value: C::HANDLE_TERMINATION_REQUESTS as c_int, string: Some(b"handle termination requests".to_vec()) });
        t.cvars.push(CVar { name: "DISABLED", value: C::DISABLED as c_int, string: Some(b"disabled".to_vec()) });
        v.push(t);
    }
}

/// Open / Create / OpenOrCreate error enums of one messaging pattern share one C enum.
macro_rules! oc_tables {
    ($out:ident; $open:ident, $create:ident, $ooc:ident :: { $wopen:ident, $wcreate:ident } => $cty:ident, $sfn:expr;
     open { $( $ov:ident => $oc:ident ),* $(,)? }
     create { $( $cv:ident => $cc:ident ),* $(,)? }
     c { $( $call:ident ),* $(,)? }) => {{
        #[allow(dead_code)]
        fn exhaustive(o: &$open, c: &$create, oc: &$ooc, e: &$cty) {
            match o { $( $open::$ov )|* => {} }
            match c { $( $create::$cv )|* => {} }
            match oc { $ooc::$wopen(_) | $ooc::$wcreate(_) | $ooc::SystemInFlux => {} }
            match e { $( $cty::$call )|* => {} }
        }
        let mk = |name: &'static str| Table { rust_enum: name, c_enum: stringify!($cty), is_error: true, has_string_fn: true, rows: vec![], cvars: vec![] };
        let mut to = mk(stringify!($open));
        let mut tc = mk(stringify!($create));
        let mut tooc = mk(stringify!($ooc));
        $(
            let n = format!("{}::{}", stringify!($open), stringify!($ov));
            to.rows.push(row(n.clone(), &n, &n, Box::new(|| __verif_into_c_int($open::$ov)), $cty::$oc as c_int, stringify!($oc)));
            // (signature: the wrapped error; the wrapper delegates to its impl)
            let inner = format!("{}::{}", stringify!($open), stringify!($ov));
            let n = format!("{}::{}({}::{})", stringify!($ooc), stringify!($wopen), stringify!($open), stringify!($ov));
            tooc.rows.push(row(n.clone(), &n, &inner, Box::new(|| __verif_into_c_int($ooc::$wopen($open::$ov))), $cty::$oc as c_int, stringify!($oc)));
        )*
        $(
            let n = format!("{}::{}", stringify!($create), stringify!($cv));
            tc.rows.push(row(n.clone(), &n, &n, Box::new(|| __verif_into_c_int($create::$cv)), $cty::$cc as c_int, stringify!($cc)));
            let inner = format!("{}::{}", stringify!($create), stringify!($cv));
            let n = format!("{}::{}({}::{})", stringify!($ooc), stringify!($wcreate), stringify!($create), stringify!($cv));
            tooc.rows.push(row(n.clone(), &n, &inner, Box::new(|| __verif_into_c_int($ooc::$wcreate($create::$cv))), $cty::$cc as c_int, stringify!($cc)));
        )*
        let n = format!("{}::SystemInFlux", stringify!($ooc));
        tooc.rows.push(row(n.clone(), &n, &n, Box::new(|| __verif_into_c_int($ooc::SystemInFlux)), $cty::SYSTEM_IN_FLUX as c_int, "SYSTEM_IN_FLUX"));
        for t in [&mut to, &mut tc, &mut tooc] {
            $(
                #[allow(clippy::redundant_closure_call)]
                t.cvars.push(CVar { name: stringify!($call), value: $cty::$call as c_int, string: cstr(($sfn)($cty::$call)) });
            )*
        }
        $out.push(to);
        $out.push(tc);
        $out.push(tooc);
    }};
}

fn tables_builders(v: &mut Vec<Table>) {
    oc_tables!(v; EventOpenError, EventCreateError, EventOpenOrCreateError::{EventOpenError, EventCreateError} => iox2_event_open_or_create_error_e, |e| unsafe { iox2_event_open_or_create_error_string(e) };
        open {
            DoesNotExist => O_DOES_NOT_EXIST, InsufficientPermissions => O_INSUFFICIENT_PERMISSIONS, ServiceInCorruptedState => O_SERVICE_IN_CORRUPTED_STATE,
            IncompatibleMessagingPattern => O_INCOMPATIBLE_MESSAGING_PATTERN, IncompatibleAttributes => O_INCOMPATIBLE_ATTRIBUTES, IncompatibleDeadline => O_INCOMPATIBLE_DEADLINE,
            IncompatibleNotifierCreatedEvent => O_INCOMPATIBLE_NOTIFIER_CREATED_EVENT, IncompatibleNotifierDroppedEvent => O_INCOMPATIBLE_NOTIFIER_DROPPED_EVENT,
            IncompatibleNotifierDeadEvent => O_INCOMPATIBLE_NOTIFIER_DEAD_EVENT, InternalFailure => O_INTERNAL_FAILURE, UnableToCreateServiceTag => O_UNABLE_TO_CREATE_SERVICE_TAG,
            VersionMismatch => O_VERSION_MISMATCH, HangsInCreation => O_HANGS_IN_CREATION,
            DoesNotSupportRequestedAmountOfNotifiers => O_DOES_NOT_SUPPORT_REQUESTED_AMOUNT_OF_NOTIFIERS,
            DoesNotSupportRequestedAmountOfListeners => O_DOES_NOT_SUPPORT_REQUESTED_AMOUNT_OF_LISTENERS,
            DoesNotSupportRequestedMaxEventId => O_DOES_NOT_SUPPORT_REQUESTED_MAX_EVENT_ID,
            DoesNotSupportRequestedAmountOfNodes => O_DOES_NOT_SUPPORT_REQUESTED_AMOUNT_OF_NODES, ExceedsMaxNumberOfNodes => O_EXCEEDS_MAX_NUMBER_OF_NODES,
            IsMarkedForDestruction => O_IS_MARKED_FOR_DESTRUCTION, Interrupt => O_INTERRUPT }
        create {
            ServiceInCorruptedState => C_SERVICE_IN_CORRUPTED_STATE, InternalFailure => C_INTERNAL_FAILURE, IsBeingCreatedByAnotherInstance => C_IS_BEING_CREATED_BY_ANOTHER_INSTANCE,
            AlreadyExists => C_ALREADY_EXISTS, InsufficientPermissions => C_INSUFFICIENT_PERMISSIONS, UnableToCreateServiceTag => C_UNABLE_TO_CREATE_SERVICE_TAG,
            ServiceConfigCouldNotBeCreated => C_SERVICE_CONFIG_COULD_NOT_BE_CREATED, Interrupt => C_INTERRUPT }
        c { O_DOES_NOT_EXIST, O_INSUFFICIENT_PERMISSIONS, O_SERVICE_IN_CORRUPTED_STATE, O_INCOMPATIBLE_MESSAGING_PATTERN, O_INCOMPATIBLE_ATTRIBUTES, O_INCOMPATIBLE_DEADLINE,
            O_INCOMPATIBLE_NOTIFIER_CREATED_EVENT, O_INCOMPATIBLE_NOTIFIER_DROPPED_EVENT, O_INCOMPATIBLE_NOTIFIER_DEAD_EVENT, O_INTERNAL_FAILURE, O_UNABLE_TO_CREATE_SERVICE_TAG,
            O_VERSION_MISMATCH, O_HANGS_IN_CREATION, O_DOES_NOT_SUPPORT_REQUESTED_AMOUNT_OF_NOTIFIERS, O_DOES_NOT_SUPPORT_REQUESTED_AMOUNT_OF_LISTENERS,
            O_DOES_NOT_SUPPORT_REQUESTED_MAX_EVENT_ID, O_DOES_NOT_SUPPORT_REQUESTED_AMOUNT_OF_NODES, O_EXCEEDS_MAX_NUMBER_OF_NODES, O_IS_MARKED_FOR_DESTRUCTION, O_INTERRUPT,
            C_SERVICE_IN_CORRUPTED_STATE, C_INTERNAL_FAILURE, C_IS_BEING_CREATED_BY_ANOTHER_INSTANCE, C_ALREADY_EXISTS, C_INSUFFICIENT_PERMISSIONS, C_UNABLE_TO_CREATE_SERVICE_TAG,
            C_SERVICE_CONFIG_COULD_NOT_BE_CREATED, C_OLD_CONNECTION_STILL_ACTIVE, C_INTERRUPT, SYSTEM_IN_FLUX });

    oc_tables!(v; PublishSubscribeOpenError, PublishSubscribeCreateError, PublishSubscribeOpenOrCreateError::{PublishSubscribeOpenError, PublishSubscribeCreateError} => iox2_pub_sub_open_or_create_error_e,
        |e| unsafe { iox2_pub_sub_open_or_create_error_string(e) };
        open {
            DoesNotExist => O_DOES_NOT_EXIST, InternalFailure => O_INTERNAL_FAILURE, IncompatibleTypes => O_INCOMPATIBLE_TYPES, IncompatibleMessagingPattern => O_INCOMPATIBLE_MESSAGING_PATTERN,
            IncompatibleAttributes => O_INCOMPATIBLE_ATTRIBUTES, DoesNotSupportRequestedMinBufferSize => O_DOES_NOT_SUPPORT_REQUESTED_MIN_BUFFER_SIZE,
            DoesNotSupportRequestedMinHistorySize => O_DOES_NOT_SUPPORT_REQUESTED_MIN_HISTORY_SIZE,
            DoesNotSupportRequestedMinSubscriberBorrowedSamples => O_DOES_NOT_SUPPORT_REQUESTED_MIN_SUBSCRIBER_BORROWED_SAMPLES,
            DoesNotSupportRequestedAmountOfPublishers => O_DOES_NOT_SUPPORT_REQUESTED_AMOUNT_OF_PUBLISHERS,
            DoesNotSupportRequestedAmountOfSubscribers => O_DOES_NOT_SUPPORT_REQUESTED_AMOUNT_OF_SUBSCRIBERS,
            DoesNotSupportRequestedAmountOfNodes => O_DOES_NOT_SUPPORT_REQUESTED_AMOUNT_OF_NODES, IncompatibleOverflowBehavior => O_INCOMPATIBLE_OVERFLOW_BEHAVIOR,
            InsufficientPermissions => O_INSUFFICIENT_PERMISSIONS, ServiceInCorruptedState => O_SERVICE_IN_CORRUPTED_STATE, UnableToCreateServiceTag => O_UNABLE_TO_CREATE_SERVICE_TAG,
            VersionMismatch => O_VERSION_MISMATCH, HangsInCreation => O_HANGS_IN_CREATION, ExceedsMaxNumberOfNodes => O_EXCEEDS_MAX_NUMBER_OF_NODES,
            IsMarkedForDestruction => O_IS_MARKED_FOR_DESTRUCTION, Interrupt => O_INTERRUPT, UnableToAcquireTypeDefinition => O_UNABLE_TO_ACQUIRE_TYPE_DEFINITION }
        create {
            ServiceInCorruptedState => C_SERVICE_IN_CORRUPTED_STATE, SubscriberBufferMustBeLargerThanHistorySize => C_SUBSCRIBER_BUFFER_MUST_BE_LARGER_THAN_HISTORY_SIZE,
            AlreadyExists => C_ALREADY_EXISTS, InsufficientPermissions => C_INSUFFICIENT_PERMISSIONS, InternalFailure => C_INTERNAL_FAILURE,
            IsBeingCreatedByAnotherInstance => C_IS_BEING_CREATED_BY_ANOTHER_INSTANCE, HangsInCreation => C_HANGS_IN_CREATION, UnableToCreateServiceTag => C_UNABLE_TO_CREATE_SERVICE_TAG,
            ServiceConfigCouldNotBeCreated => C_SERVICE_CONFIG_COULD_NOT_BE_CREATED, Interrupt => C_INTERRUPT, UnableToAcquireTypeDefinition => C_UNABLE_TO_ACQUIRE_TYPE_DEFINITION }
        c { O_DOES_NOT_EXIST, O_INTERNAL_FAILURE, O_INCOMPATIBLE_TYPES, O_INCOMPATIBLE_MESSAGING_PATTERN, O_INCOMPATIBLE_ATTRIBUTES, O_DOES_NOT_SUPPORT_REQUESTED_MIN_BUFFER_SIZE,
            O_DOES_NOT_SUPPORT_REQUESTED_MIN_HISTORY_SIZE, O_DOES_NOT_SUPPORT_REQUESTED_MIN_SUBSCRIBER_BORROWED_SAMPLES, O_DOES_NOT_SUPPORT_REQUESTED_AMOUNT_OF_PUBLISHERS,
            O_DOES_NOT_SUPPORT_REQUESTED_AMOUNT_OF_SUBSCRIBERS, O_DOES_NOT_SUPPORT_REQUESTED_AMOUNT_OF_NODES, O_INCOMPATIBLE_OVERFLOW_BEHAVIOR, O_INSUFFICIENT_PERMISSIONS,
            O_SERVICE_IN_CORRUPTED_STATE, O_UNABLE_TO_CREATE_SERVICE_TAG, O_VERSION_MISMATCH, O_HANGS_IN_CREATION, O_EXCEEDS_MAX_NUMBER_OF_NODES, O_IS_MARKED_FOR_DESTRUCTION, O_INTERRUPT,
            O_UNABLE_TO_ACQUIRE_TYPE_DEFINITION, C_SERVICE_IN_CORRUPTED_STATE, C_SUBSCRIBER_BUFFER_MUST_BE_LARGER_THAN_HISTORY_SIZE, C_ALREADY_EXISTS, C_INSUFFICIENT_PERMISSIONS,
            C_INTERNAL_FAILURE, C_IS_BEING_CREATED_BY_ANOTHER_INSTANCE, C_HANGS_IN_CREATION, C_UNABLE_TO_CREATE_SERVICE_TAG, C_SERVICE_CONFIG_COULD_NOT_BE_CREATED, C_INTERRUPT,
            C_UNABLE_TO_ACQUIRE_TYPE_DEFINITION, SYSTEM_IN_FLUX });

    oc_tables!(v; RequestResponseOpenError, RequestResponseCreateError, RequestResponseOpenOrCreateError::{RequestResponseOpenError, RequestResponseCreateError} => iox2_request_response_open_or_create_error_e,
        |e| unsafe { iox2_request_response_open_or_create_error_string(e) };
        open {
            DoesNotExist => O_DOES_NOT_EXIST, DoesNotSupportRequestedAmountOfClientRequestLoans => O_DOES_NOT_SUPPORT_REQUESTED_AMOUNT_OF_CLIENT_REQUEST_LOANS,
            DoesNotSupportRequestedAmountOfActiveRequestsPerClient => O_DOES_NOT_SUPPORT_REQUESTED_AMOUNT_OF_ACTIVE_REQUESTS_PER_CLIENT,
            DoesNotSupportRequestedResponseBufferSize => O_DOES_NOT_SUPPORT_REQUESTED_RESPONSE_BUFFER_SIZE,
            DoesNotSupportRequestedAmountOfServers => O_DOES_NOT_SUPPORT_REQUESTED_AMOUNT_OF_SERVERS, DoesNotSupportRequestedAmountOfClients => O_DOES_NOT_SUPPORT_REQUESTED_AMOUNT_OF_CLIENTS,
            DoesNotSupportRequestedAmountOfNodes => O_DOES_NOT_SUPPORT_REQUESTED_AMOUNT_OF_NODES,
            DoesNotSupportRequestedAmountOfBorrowedResponsesPerPendingResponse => O_DOES_NOT_SUPPORT_REQUESTED_AMOUNT_OF_BORROWED_RESPONSES_PER_PENDING_RESPONSE,
            ExceedsMaxNumberOfNodes => O_EXCEEDS_MAX_NUMBER_OF_NODES, HangsInCreation => O_HANGS_IN_CREATION, IncompatibleRequestOrResponseType => O_INCOMPATIBLE_REQUEST_OR_RESPONSE_TYPE,
            IncompatibleAttributes => O_INCOMPATIBLE_ATTRIBUTES, IncompatibleMessagingPattern => O_INCOMPATIBLE_MESSAGING_PATTERN,
            IncompatibleOverflowBehaviorForRequests => O_INCOMPATIBLE_OVERFLOW_BEHAVIOR_FOR_REQUESTS, IncompatibleOverflowBehaviorForResponses => O_INCOMPATIBLE_OVERFLOW_BEHAVIOR_FOR_RESPONSES,
            IncompatibleBehaviorForFireAndForgetRequests => O_INCOMPATIBLE_BEHAVIOR_FOR_FIRE_AND_FORGET_REQUESTS, InsufficientPermissions => O_INSUFFICIENT_PERMISSIONS,
            UnableToCreateServiceTag => O_UNABLE_TO_CREATE_SERVICE_TAG, VersionMismatch => O_VERSION_MISMATCH, InternalFailure => O_INTERNAL_FAILURE,
            IsMarkedForDestruction => O_IS_MARKED_FOR_DESTRUCTION, ServiceInCorruptedState => O_SERVICE_IN_CORRUPTED_STATE, Interrupt => O_INTERRUPT,
            UnableToAcquireTypeDefinition => O_UNABLE_TO_ACQUIRE_TYPE_DEFINITION }
        create {
            AlreadyExists => C_ALREADY_EXISTS, InternalFailure => C_INTERNAL_FAILURE, IsBeingCreatedByAnotherInstance => C_IS_BEING_CREATED_BY_ANOTHER_INSTANCE,
            InsufficientPermissions => C_INSUFFICIENT_PERMISSIONS, HangsInCreation => C_HANGS_IN_CREATION, ServiceInCorruptedState => C_SERVICE_IN_CORRUPTED_STATE,
            UnableToCreateServiceTag => C_UNABLE_TO_CREATE_SERVICE_TAG, ServiceConfigCouldNotBeCreated => C_SERVICE_CONFIG_COULD_NOT_BE_CREATED, Interrupt => C_INTERRUPT,
            UnableToAcquireTypeDefinition => C_UNABLE_TO_ACQUIRE_TYPE_DEFINITION }
        c { O_DOES_NOT_EXIST, O_DOES_NOT_SUPPORT_REQUESTED_AMOUNT_OF_CLIENT_REQUEST_LOANS, O_DOES_NOT_SUPPORT_REQUESTED_AMOUNT_OF_ACTIVE_REQUESTS_PER_CLIENT,
            O_DOES_NOT_SUPPORT_REQUESTED_RESPONSE_BUFFER_SIZE, O_DOES_NOT_SUPPORT_REQUESTED_AMOUNT_OF_SERVERS, O_DOES_NOT_SUPPORT_REQUESTED_AMOUNT_OF_CLIENTS,
            O_DOES_NOT_SUPPORT_REQUESTED_AMOUNT_OF_NODES, O_DOES_NOT_SUPPORT_REQUESTED_AMOUNT_OF_BORROWED_RESPONSES_PER_PENDING_RESPONSE, O_EXCEEDS_MAX_NUMBER_OF_NODES,
            O_HANGS_IN_CREATION, O_INCOMPATIBLE_REQUEST_OR_RESPONSE_TYPE, O_INCOMPATIBLE_ATTRIBUTES, O_INCOMPATIBLE_MESSAGING_PATTERN, O_INCOMPATIBLE_OVERFLOW_BEHAVIOR_FOR_REQUESTS,
            O_INCOMPATIBLE_OVERFLOW_BEHAVIOR_FOR_RESPONSES, O_INCOMPATIBLE_BEHAVIOR_FOR_FIRE_AND_FORGET_REQUESTS, O_INSUFFICIENT_PERMISSIONS, O_UNABLE_TO_CREATE_SERVICE_TAG,
            O_VERSION_MISMATCH, O_INTERNAL_FAILURE, O_IS_MARKED_FOR_DESTRUCTION, O_SERVICE_IN_CORRUPTED_STATE, O_INTERRUPT, O_UNABLE_TO_ACQUIRE_TYPE_DEFINITION,
            C_ALREADY_EXISTS, C_INTERNAL_FAILURE, C_IS_BEING_CREATED_BY_ANOTHER_INSTANCE, C_INSUFFICIENT_PERMISSIONS, C_HANGS_IN_CREATION, C_SERVICE_IN_CORRUPTED_STATE,
            C_UNABLE_TO_CREATE_SERVICE_TAG, C_SERVICE_CONFIG_COULD_NOT_BE_CREATED, C_INTERRUPT, C_UNABLE_TO_ACQUIRE_TYPE_DEFINITION, SYSTEM_IN_FLUX });

    table!(v; "BlackboardOpenError": BlackboardOpenError => iox2_blackboard_open_error_e, error = true, strfn = true, |e| unsafe { iox2_blackboard_open_error_string(e) };
        rust {
            BlackboardOpenError::DoesNotExist => O_DOES_NOT_EXIST, BlackboardOpenError::ServiceInCorruptedState => O_SERVICE_IN_CORRUPTED_STATE, BlackboardOpenError::IncompatibleKeys => O_INCOMPATIBLE_KEYS,
            BlackboardOpenError::InternalFailure => O_INTERNAL_FAILURE, BlackboardOpenError::IncompatibleAttributes => O_INCOMPATIBLE_ATTRIBUTES,
            BlackboardOpenError::IncompatibleMessagingPattern => O_INCOMPATIBLE_MESSAGING_PATTERN,
            BlackboardOpenError::DoesNotSupportRequestedAmountOfReaders => O_DOES_NOT_SUPPORT_REQUESTED_AMOUNT_OF_READERS,
            BlackboardOpenError::InsufficientPermissions => O_INSUFFICIENT_PERMISSIONS, BlackboardOpenError::HangsInCreation => O_HANGS_IN_CREATION,
            BlackboardOpenError::IsMarkedForDestruction => O_IS_MARKED_FOR_DESTRUCTION, BlackboardOpenError::ExceedsMaxNumberOfNodes => O_EXCEEDS_MAX_NUMBER_OF_NODES,
            BlackboardOpenError::DoesNotSupportRequestedAmountOfNodes => O_DOES_NOT_SUPPORT_REQUESTED_AMOUNT_OF_NODES,
            BlackboardOpenError::UnableToCreateServiceTag => O_UNABLE_TO_CREATE_SERVICE_TAG, BlackboardOpenError::VersionMismatch => O_VERSION_MISMATCH,
            BlackboardOpenError::Interrupt => O_INTERRUPT }
        c { O_DOES_NOT_EXIST, O_SERVICE_IN_CORRUPTED_STATE, O_INCOMPATIBLE_KEYS, O_INTERNAL_FAILURE, O_INCOMPATIBLE_ATTRIBUTES, O_INCOMPATIBLE_MESSAGING_PATTERN,
            O_DOES_NOT_SUPPORT_REQUESTED_AMOUNT_OF_READERS, O_INSUFFICIENT_PERMISSIONS, O_HANGS_IN_CREATION, O_IS_MARKED_FOR_DESTRUCTION, O_EXCEEDS_MAX_NUMBER_OF_NODES,
            O_DOES_NOT_SUPPORT_REQUESTED_AMOUNT_OF_NODES, O_UNABLE_TO_CREATE_SERVICE_TAG, O_VERSION_MISMATCH, O_INTERRUPT });
    table!(v; "BlackboardCreateError": BlackboardCreateError => iox2_blackboard_create_error_e, error = true, strfn = true, |e| unsafe { iox2_blackboard_create_error_string(e) };
        rust {
            BlackboardCreateError::AlreadyExists => C_ALREADY_EXISTS, BlackboardCreateError::IsBeingCreatedByAnotherInstance => C_IS_BEING_CREATED_BY_ANOTHER_INSTANCE,
            BlackboardCreateError::InternalFailure => C_INTERNAL_FAILURE, BlackboardCreateError::InsufficientPermissions => C_INSUFFICIENT_PERMISSIONS,
            BlackboardCreateError::ServiceInCorruptedState => C_SERVICE_IN_CORRUPTED_STATE, BlackboardCreateError::HangsInCreation => C_HANGS_IN_CREATION,
            BlackboardCreateError::NoEntriesProvided => C_NO_ENTRIES_PROVIDED, BlackboardCreateError::UnableToCreateServiceTag => C_UNABLE_TO_CREATE_SERVICE_TAG,
            BlackboardCreateError::ServiceConfigCouldNotBeCreated => C_SERVICE_CONFIG_COULD_NOT_BE_CREATED, BlackboardCreateError::Interrupt => C_INTERRUPT }
        c { C_ALREADY_EXISTS, C_IS_BEING_CREATED_BY_ANOTHER_INSTANCE, C_INTERNAL_FAILURE, C_INSUFFICIENT_PERMISSIONS, C_SERVICE_IN_CORRUPTED_STATE, C_HANGS_IN_CREATION,
            C_NO_ENTRIES_PROVIDED, C_UNABLE_TO_CREATE_SERVICE_TAG, C_SERVICE_CONFIG_COULD_NOT_BE_CREATED, C_INTERRUPT });
}
