//! Tracking global allocator: the storage of every C handle is allocated by the binding with the
//! Rust global allocator (the rlib is linked into this binary), so "dropping a C handle frees
//! exactly its storage, once" can be observed directly: while a window is open every allocation
//! and release is recorded; a handle wrapper asks `is_live(ptr)` right after its drop call, and a
//! release of a block that was already released inside the window is recorded (and not forwarded
//! to the system allocator, which would abort the process).
use std::alloc::{GlobalAlloc, Layout, System};
use std::cell::Cell;
use std::collections::{HashMap, HashSet};
use std::sync::Mutex;
use std::sync::atomic::{AtomicBool, AtomicU64, Ordering};

pub struct Tracking;

static ENABLED: AtomicBool = AtomicBool::new(false);
static DOUBLE_FREES: AtomicU64 = AtomicU64::new(0);

struct State {
    /// address -> (size, serial number of the allocation)
    live: HashMap<usize, (usize, u64)>,
    serial: u64,
    freed: HashSet<usize>,
    first_double_free: Option<(usize, usize)>,
}

static STATE: Mutex<Option<State>> = Mutex::new(None);

thread_local! {
    static BUSY: Cell<bool> = const { Cell::new(false) };
}

/// runs `f` on the table unless this thread is already inside the tracker (its own allocations)
fn with_state<T>(f: impl FnOnce(&mut State) -> T) -> Option<T> {
    if BUSY.try_with(|b| b.replace(true)).unwrap_or(true) {
        return None;
    }
    let r = match STATE.lock() {
        Ok(mut g) => g.as_mut().map(f),
        Err(_) => None,
    };
    let _ = BUSY.try_with(|b| b.set(false));
    r
}

unsafe impl GlobalAlloc for Tracking {
    unsafe fn alloc(&self, l: Layout) -> *mut u8 {
        let p = unsafe { System.alloc(l) };
        if ENABLED.load(Ordering::Relaxed) && !p.is_null() {
            with_state(|s| {
                s.freed.remove(&(p as usize));
                s.serial += 1;
                let n = s.serial;
                s.live.insert(p as usize, (l.size(), n));
            });
        }
        p
    }

    unsafe fn alloc_zeroed(&self, l: Layout) -> *mut u8 {
        let p = unsafe { System.alloc_zeroed(l) };
        if ENABLED.load(Ordering::Relaxed) && !p.is_null() {
            with_state(|s| {
                s.freed.remove(&(p as usize));
                s.serial += 1;
                let n = s.serial;
                s.live.insert(p as usize, (l.size(), n));
            });
        }
        p
    }

    unsafe fn dealloc(&self, p: *mut u8, l: Layout) {
        if ENABLED.load(Ordering::Relaxed) {
            let double = with_state(|s| {
                if s.live.remove(&(p as usize)).is_some() {
                    s.freed.insert(p as usize);
                    false
                } else if s.freed.contains(&(p as usize)) {
                    if s.first_double_free.is_none() {
                        s.first_double_free = Some((p as usize, l.size()));
                    }
                    true
                } else {
                    false // allocated before the window
                }
            });
            if double == Some(true) {
                DOUBLE_FREES.fetch_add(1, Ordering::Relaxed);
                return;
            }
        }
        unsafe { System.dealloc(p, l) }
    }

    unsafe fn realloc(&self, p: *mut u8, l: Layout, new_size: usize) -> *mut u8 {
        let q = unsafe { System.realloc(p, l, new_size) };
        if ENABLED.load(Ordering::Relaxed) && !q.is_null() {
            with_state(|s| {
                if s.live.remove(&(p as usize)).is_some() {
                    if q != p {
                        s.freed.insert(p as usize);
                    }
                    s.freed.remove(&(q as usize));
                    s.serial += 1;
                    let n = s.serial;
                    s.live.insert(q as usize, (new_size, n));
                } else if q != p {
                    // block from before the window moved: its new place may reuse a tracked address
                    s.freed.remove(&(q as usize));
                }
            });
        }
        q
    }
}

/// opens a tracking window (tables start empty)
pub fn begin() {
    BUSY.with(|b| b.set(true));
    *STATE.lock().unwrap() = Some(State { live: HashMap::new(), serial: 0, freed: HashSet::new(), first_double_free: None });
    BUSY.with(|b| b.set(false));
    DOUBLE_FREES.store(0, Ordering::Relaxed);
    ENABLED.store(true, Ordering::SeqCst);
}

/// closes the window; returns the first double free seen inside it (address, size)
pub fn end() -> Option<(usize, usize)> {
    ENABLED.store(false, Ordering::SeqCst);
    BUSY.with(|b| b.set(true));
    let st = STATE.lock().unwrap().take();
    let r = st.as_ref().and_then(|s| s.first_double_free);
    drop(st);
    BUSY.with(|b| b.set(false));
    r
}

pub fn active() -> bool {
    ENABLED.load(Ordering::Relaxed)
}

/// (size, serial number) of the live block starting at `p`, if it was allocated inside the window
pub fn live_block(p: usize) -> Option<(usize, u64)> {
    with_state(|s| s.live.get(&p).copied()).flatten()
}
