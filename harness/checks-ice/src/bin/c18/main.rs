//! C18 — the C binding is a faithful projection of the Rust API.
//!
//! Parts:
//!  * `errmap`  — the error-mapping table, exhaustively (see errmap.rs);
//!  * `diff`    — one generated program (publish-subscribe with generated custom type details,
//!    fixed-size and slice payloads, optional user header; event), executed through the public
//!    Rust API in one fresh domain and through the `iox2_*` functions (or, in mixed mode, with
//!    one node per API on the same services) in another; the normalised traces must be equal,
//!    failing calls must return the C code of the Rust error, the storage of every C handle must
//!    be released exactly once, and nothing may be left behind.
#![allow(dead_code, improper_ctypes)]
extern crate iceoryx2_bb_loggers;

mod alloc;
mod api;
mod c_exec;
mod errmap;
mod interp;
mod prog;
mod rust_exec;

use api::Side;
use interp::{Out, RunResult, Sides};
use prog::Program;
use std::collections::BTreeSet;
use std::sync::Mutex;
use vcore::{Ctx, Failure, Obs, Spec};

#[global_allocator]
static GLOBAL: alloc::Tracking = alloc::Tracking;

const SPEC: Spec = Spec {
    prop: "C18",
    level: "exploration",
    rule: "diff: proptest programs (<= 40 generated calls after an optional start-up sequence; alphabet: create/drop node, create/open/open_or_create publish-subscribe and event services from a base specification or a one-field variant of it, create/drop publisher/subscriber/notifier/listener with generated settings, loan(n), write, send, drop loan, send_copy / send_slice_copy, receive, read, drop sample, has_samples, update_connections, notify, notify(id), try_wait; custom payload type details size 1..256 / alignment 2^0..2^6, fixed-size and slice, optional user header) executed through the Rust API and through the C API (mode 0) or with the two nodes on different APIs sharing the services (modes 1/2), ipc or local; oracle = equal normalised traces call by call (success/failure, C code == __verif_into_c_int(Rust error), static configuration read back, number_of_elements, byte counts, payload and user-header bytes, origin publisher, alignment of the pointers, send/notify counts, event ids), equal end-of-program probes (loan to exhaustion, deliveries, events, port counts), exact release of every C handle's storage (tracking allocator, double frees included) and equal (empty) leftovers. errmap: every value of every Rust enum with an IntoCInt impl against the harness's own table. Non-trivial (diff) = the program contained >= 1 failing call and a delivered payload > 8 bytes with alignment > 8, or ran in mixed mode with >= 1 delivery between the two APIs; (errmap) every row. Distinct = hash of the program / row index.",
    assumptions: &[
        "single-threaded programs; both executors use the thread-safe service variants the C binding uses (ipc_threadsafe / local_threadsafe)",
        "the Rust executor uses the custom-payload markers (CustomPayloadMarker / CustomHeaderMarker with explicit type details), i.e. the Rust API surface the binding projects; typed Rust payloads are not part of the comparison",
        "slice_len != 1 is requested only from slice (dynamic) services (documented precondition of the custom loan); a loan is always written completely before it is sent",
        "zero limits and zero-length loans are not generated (the slice builder does not clamp zero limits: known finding of C08)",
        "request-response, blackboard, wait-set, attributes, node listing / cleanup, service listing, config accessors, port names / ids (other than the publisher id of a sample), deadlines and blocking waits of the C API are not exercised by the diff part",
    ],
    watchdog_quick_s: 1800,
    watchdog_thorough_s: 14400,
};

/// `iox2_publisher_send_copy` / `send_slice_copy` return the `iox2_loan_error_e` code of a failed
/// loan although they are documented to return `iox2_send_error_e`
const SIG_SEND_COPY: &str = "diff.errcode.SendCopy.loan_error_code_instead_of_send_error_code";

static NAMES: Mutex<BTreeSet<&'static str>> = Mutex::new(BTreeSet::new());

/// class names have to be `&'static str`; the set of error names is small and bounded
fn intern(s: String) -> &'static str {
    let mut g = NAMES.lock().unwrap();
    if let Some(x) = g.get(s.as_str()) {
        return x;
    }
    let l: &'static str = Box::leak(s.into_boxed_str());
    g.insert(l);
    l
}

fn loan_code(name: &str) -> Option<i32> {
    use iceoryx2::port::LoanError::*;
    use iceoryx2_ffi_c::__verif_into_c_int as c;
    Some(match name {
        "SendError::LoanError(OutOfMemory)" => c(OutOfMemory),
        "SendError::LoanError(ExceedsMaxLoans)" => c(ExceedsMaxLoans),
        "SendError::LoanError(ExceedsMaxLoanSize)" => c(ExceedsMaxLoanSize),
        "SendError::LoanError(InternalFailure)" => c(InternalFailure),
        _ => return None,
    })
}

struct Verdict {
    /// tolerated divergences covered by open known findings (signature, message)
    known: Vec<(String, String)>,
}

fn short(o: &Out) -> String {
    let s = format!("{o:?}");
    if s.len() > 400 { format!("{}…", &s[..400]) } else { s }
}

fn compare(reference: &RunResult, sut: &RunResult, what_sut: &str, tolerate_send_copy: bool) -> Result<Verdict, Failure> {
    let mut known = vec![];
    let n = reference.entries.len().max(sut.entries.len());
    for i in 0..n {
        let (Some(a), Some(b)) = (reference.entries.get(i), sut.entries.get(i)) else {
            return Err(Failure::new("diff.trace.length", format!("the traces have different lengths ({} vs {})", reference.entries.len(), sut.entries.len())));
        };
        if a.out == b.out {
            continue;
        }
        let kind = a.kind;
        match (&a.out, &b.out) {
            (Out::Err(x), Out::Err(y)) => {
                let name = a.err_name.clone().unwrap_or_default();
                if (kind == "SendCopy" || kind == "probe.send_copy") && loan_code(&name) == Some(*y) {
                    let msg = format!("{}: Rust {name} = code {x}; {what_sut} returned {y}, the iox2_loan_error_e code of the inner loan error", a.what);
                    if tolerate_send_copy {
                        known.push((SIG_SEND_COPY.to_string(), msg));
                        continue;
                    }
                    return Err(Failure::new(SIG_SEND_COPY, msg));
                }
                return Err(Failure::new(format!("diff.errcode.{kind}"), format!("{}: the Rust API failed with {name} = C code {x}, {what_sut} returned {y}", a.what)));
            }
            (Out::Err(x), o) => {
                return Err(Failure::new(format!("diff.outcome.{kind}"), format!("{}: the Rust API failed with {} (code {x}), {what_sut} succeeded: {}", a.what, a.err_name.clone().unwrap_or_default(), short(o))));
            }
            (o, Out::Err(y)) => {
                return Err(Failure::new(format!("diff.outcome.{kind}"), format!("{}: the Rust API succeeded ({}), {what_sut} failed with code {y}", a.what, short(o))));
            }
            (x, y) => {
                return Err(Failure::new(format!("diff.trace.{kind}"), format!("{}: Rust API: {} / {what_sut}: {}", a.what, short(x), short(y))));
            }
        }
    }
    if let Some((sig, msg)) = sut.problems.first() {
        return Err(Failure::new(format!("diff.{sig}"), msg.clone()));
    }
    if let Some((addr, size)) = sut.double_free {
        return Err(Failure::new("diff.handle.double_free", format!("a block of {size} bytes at {addr:#x} allocated during the run was released twice")));
    }
    Ok(Verdict { known })
}

fn check_alignment(r: &RunResult, p: &Program, who: &str) -> Result<(), Failure> {
    // absolute: a payload whose size is a multiple of its alignment is handed out aligned
    for e in &r.entries {
        let (pa, ha) = match &e.out {
            Out::Loan { payload_aligned, header_aligned, .. } => (*payload_aligned, *header_aligned),
            Out::Recv(Some(rx)) => (rx.payload_aligned, rx.header_aligned),
            _ => continue,
        };
        let sane = p.ps.iter().all(|s| s.payload.size % s.payload.align == 0 && s.user_header.as_ref().map(|h| h.size % h.align == 0).unwrap_or(true));
        if sane && !(pa && ha) {
            return Err(Failure::new("diff.alignment", format!("{who}: {}: payload aligned: {pa}, user header aligned: {ha}", e.what)));
        }
    }
    Ok(())
}

fn diff_case(p: &Program, obs: &mut Obs, tolerate_send_copy: bool) -> Result<(), Failure> {
    let sides = match p.mode {
        0 => Sides([Side::C, Side::C]),
        1 => Sides([Side::C, Side::Rust]),
        _ => Sides([Side::Rust, Side::C]),
    };
    let what = match p.mode {
        0 => "the C API",
        1 => "the mixed run (node 1: C, node 2: Rust)",
        _ => "the mixed run (node 1: Rust, node 2: C)",
    };
    let reference = interp::run(p, Sides([Side::Rust, Side::Rust]));
    let sut = interp::run(p, sides);
    // ---- classes / non-triviality (from the reference run and the run under test) ----
    obs.class(match p.mode {
        0 => "mode.all_c",
        1 => "mode.mixed_c_first",
        _ => "mode.mixed_rust_first",
    });
    obs.class(if p.local { "service_type.local" } else { "service_type.ipc" });
    let mut failing = 0;
    for e in &reference.entries {
        if let (Out::Err(_), Some(n)) = (&e.out, &e.err_name) {
            failing += 1;
            obs.class(intern(format!("fails.{}.{}", e.kind, n)));
        }
        match &e.out {
            Out::Recv(Some(rx)) => {
                obs.class("delivered.sample");
                if rx.number_of_elements > 1 {
                    obs.class("delivered.slice_of_several_elements");
                }
                if !rx.user_header.is_empty() {
                    obs.class("delivered.with_user_header");
                }
            }
            Out::Events { ids, .. } if !ids.is_empty() => obs.class("delivered.event"),
            Out::PsService(_) => obs.class("service.pub_sub"),
            Out::EvService(_) => obs.class("service.event"),
            Out::Leftovers(l) if !l.is_empty() => obs.class("leftovers_in_reference_run"),
            _ => {}
        }
    }
    if failing > 0 {
        obs.class("has_failing_call");
    }
    if reference.big_aligned_delivered {
        obs.class("delivered.payload_gt8_align_gt8");
    }
    if sut.cross_deliveries > 0 {
        obs.class("delivered.between_c_and_rust");
    }
    obs.nontrivial = (failing > 0 && reference.big_aligned_delivered) || (p.mode != 0 && sut.cross_deliveries > 0);
    // ---- oracle ----
    let v = compare(&reference, &sut, what, tolerate_send_copy)?;
    check_alignment(&sut, p, what)?;
    if let Some((sig, msg)) = v.known.into_iter().next() {
        // counted as a hit of the open known finding; everything else in this case was compared
        return Err(Failure::new(sig, msg));
    }
    Ok(())
}

fn body(ctx: &mut Ctx) {
    checks_ice::silence_iceoryx_log();
    errmap::part(ctx);
    let tolerate = ctx.is_open_finding(SIG_SEND_COPY);
    // (VERIF_C18_CASES: debugging aid)
    let cases = std::env::var("VERIF_C18_CASES").ok().and_then(|v| v.parse().ok()).unwrap_or(ctx.scale(1_600, 48_000));
    ctx.proptest("diff", cases, prog::program(40), |p, obs| diff_case(p, obs, tolerate));
}

fn main() {
    vcore::main(SPEC, body);
}
