//! C18 — the C binding is a faithful projection of the Rust API.
extern crate iceoryx2_bb_loggers;

mod errmap;

use vcore::{Ctx, Spec};

const SPEC: Spec = Spec {
    prop: "C18",
    level: "exploration",
    rule: "wip",
    assumptions: &[],
    watchdog_quick_s: 1800,
    watchdog_thorough_s: 14400,
};

fn body(ctx: &mut Ctx) {
    checks_ice::silence_iceoryx_log();
    errmap::part(ctx);
}

fn main() {
    vcore::main(SPEC, body);
}
