//! Executor 2: the C API (`iox2_*` functions of the rlib, called in-process).
//!
//! Every owning C handle lives in an `Owned<..>`: the only ways out are `Drop` (calls the `*_drop`
//! function exactly once) and `into_raw` (for the calls that consume the handle), so a generated
//! program cannot use a handle after its release. Storage is always left to the library (NULL
//! struct pointer); the tracking allocator tells whether a release freed exactly that storage.
use crate::alloc;
use crate::api::*;
use core::ffi::{c_char, c_int, c_void};
use core::ptr::{null, null_mut};
use iceoryx2::config::Config;
use iceoryx2_ffi_c::*;
use std::cell::RefCell;

thread_local! {
    static PROBLEMS: RefCell<Vec<(String, String)>> = const { RefCell::new(Vec::new()) };
}

fn problem(sig: String, msg: String) {
    PROBLEMS.with(|p| p.borrow_mut().push((sig, msg)));
}

/// handle-accounting problems recorded since the last call
pub fn take_problems() -> Vec<(String, String)> {
    PROBLEMS.with(|p| std::mem::take(&mut *p.borrow_mut()))
}

/// a fresh library-allocated handle: its storage must be a live block of the size of its struct
/// (returns the serial number of the allocation: the address may be reused later)
fn created(kind: &'static str, p: usize, size: usize) -> u64 {
    if !alloc::active() {
        return 0;
    }
    match alloc::live_block(p) {
        Some((s, n)) if s == size => n,
        Some((s, n)) => {
            problem(format!("handle.storage_size.{kind}"), format!("{kind}: the handle points to a block of {s} bytes, the struct has {size}"));
            n
        }
        None => {
            problem(format!("handle.not_storage.{kind}"), format!("{kind}: the handle does not point to the start of a block the library allocated"));
            0
        }
    }
}

/// after the call that releases / consumes the handle its storage (that allocation) must be gone
fn released(kind: &'static str, p: usize, serial: u64) {
    if alloc::active() && serial != 0 && alloc::live_block(p).map(|(_, n)| n == serial).unwrap_or(false) {
        problem(format!("handle.storage_leaked.{kind}"), format!("{kind}: the storage of the handle is still allocated after the call that releases it"));
    }
}

struct Owned<X> {
    h: *mut X,
    serial: u64,
    kind: &'static str,
    drop_fn: unsafe extern "C" fn(*mut X),
}

impl<X> Owned<X> {
    fn new(kind: &'static str, h: *mut X, size: usize, drop_fn: unsafe extern "C" fn(*mut X)) -> Self {
        assert!(!h.is_null(), "harness: NULL handle for {kind} after IOX2_OK");
        let serial = created(kind, h as usize, size);
        Owned { h, serial, kind, drop_fn }
    }

    /// `h_ref` argument of the C functions
    fn r(&self) -> *const *mut X {
        &self.h
    }

    /// for consuming calls; the caller checks the release afterwards with `released`
    fn into_raw(self) -> (*mut X, u64) {
        let r = (self.h, self.serial);
        std::mem::forget(self);
        r
    }
}

impl<X> Drop for Owned<X> {
    fn drop(&mut self) {
        unsafe { (self.drop_fn)(self.h) };
        released(self.kind, self.h as usize, self.serial);
    }
}

fn rc(code: c_int) -> Result<(), Fail> {
    if code == IOX2_OK { Ok(()) } else { Err(Fail { code, name: String::new() }) }
}

fn sz<T>() -> usize {
    core::mem::size_of::<T>()
}

fn service_type(local: bool) -> iox2_service_type_e {
    if local { iox2_service_type_e::LOCAL } else { iox2_service_type_e::IPC }
}

pub fn create_node(config: &Config, local: bool) -> R<Box<dyn Node>> {
    unsafe {
        let mut cfg: iox2_config_h = null_mut();
        iox2_config_from_ptr(config as *const Config, null_mut(), &mut cfg);
        let cfg = Owned::new("config", cfg, sz::<iox2_config_t>(), iox2_config_drop);
        let nb = iox2_node_builder_new(null_mut());
        let nb_serial = created("node_builder", nb as usize, sz::<iox2_node_builder_t>());
        iox2_node_builder_set_config(&nb, cfg.r());
        let mut node: iox2_node_h = null_mut();
        let code = iox2_node_builder_create(nb, null_mut(), service_type(local), &mut node);
        released("node_builder", nb as usize, nb_serial);
        drop(cfg);
        rc(code)?;
        Ok(Box::new(CNode { h: Owned::new("node", node, sz::<iox2_node_t>(), iox2_node_drop) }))
    }
}

struct CNode {
    h: Owned<iox2_name_h_t>,
}

struct Name(Owned<iox2_service_name_h_t>);

fn new_name(s: &str) -> R<Name> {
    unsafe {
        let mut h: iox2_service_name_h = null_mut();
        rc(iox2_service_name_new(null_mut(), s.as_ptr() as *const c_char, s.len(), &mut h))?;
        Ok(Name(Owned::new("service_name", h, sz::<iox2_service_name_t>(), iox2_service_name_drop)))
    }
}

unsafe fn set_type(f: unsafe extern "C" fn(*const iox2_service_builder_pub_sub_h, iox2_type_variant_e, *const c_char, usize, usize, usize) -> c_int, b: &iox2_service_builder_pub_sub_h, t: &TypeDet, dynamic: bool) {
    let n = type_name(t);
    let v = if dynamic { iox2_type_variant_e::DYNAMIC } else { iox2_type_variant_e::FIXED_SIZE };
    let code = unsafe { f(b, v, n.as_ptr() as *const c_char, n.len(), t.size, t.align) };
    assert_eq!(code, IOX2_OK, "harness: generated type details were refused");
}

impl Node for CNode {
    fn side(&self) -> Side {
        Side::C
    }

    fn ps(&self, spec: &PsSpec, how: How) -> R<Box<dyn PsSvc>> {
        unsafe {
            let name = new_name(&service_name("ps", spec.name))?;
            let sb = iox2_node_service_builder(self.h.r(), null_mut(), iox2_cast_service_name_ptr(name.0.h));
            let sb_serial = created("service_builder", sb as usize, sz::<iox2_service_builder_t>());
            let b = iox2_service_builder_pub_sub(sb);
            set_type(iox2_service_builder_pub_sub_set_payload_type_details, &b, &spec.payload, spec.dynamic);
            if let Some(h) = &spec.user_header {
                set_type(iox2_service_builder_pub_sub_set_user_header_type_details, &b, h, false);
            }
            if let Some(v) = spec.max_publishers {
                iox2_service_builder_pub_sub_set_max_publishers(&b, v);
            }
            if let Some(v) = spec.max_subscribers {
                iox2_service_builder_pub_sub_set_max_subscribers(&b, v);
            }
            if let Some(v) = spec.max_nodes {
                iox2_service_builder_pub_sub_set_max_nodes(&b, v);
            }
            if let Some(v) = spec.history_size {
                iox2_service_builder_pub_sub_set_history_size(&b, v);
            }
            if let Some(v) = spec.sub_max_buffer {
                iox2_service_builder_pub_sub_set_subscriber_max_buffer_size(&b, v);
            }
            if let Some(v) = spec.sub_max_borrowed {
                iox2_service_builder_pub_sub_set_subscriber_max_borrowed_samples(&b, v);
            }
            if let Some(v) = spec.safe_overflow {
                iox2_service_builder_pub_sub_set_enable_safe_overflow(&b, v);
            }
            if let Some(v) = spec.payload_alignment {
                iox2_service_builder_pub_sub_set_payload_alignment(&b, v);
            }
            let mut pf: iox2_port_factory_pub_sub_h = null_mut();
            let code = match how {
                How::Create => iox2_service_builder_pub_sub_create(b, null_mut(), &mut pf),
                How::Open => iox2_service_builder_pub_sub_open(b, null_mut(), &mut pf),
                How::OpenOrCreate => iox2_service_builder_pub_sub_open_or_create(b, null_mut(), &mut pf),
            };
            released("service_builder", sb as usize, sb_serial);
            drop(name);
            rc(code)?;
            Ok(Box::new(CPsSvc {
                h: Owned::new("port_factory_pub_sub", pf, sz::<iox2_port_factory_pub_sub_t>(), iox2_port_factory_pub_sub_drop),
                elem: spec.payload.size,
                hdr: spec.user_header.as_ref().map(|h| h.size).unwrap_or(0),
            }))
        }
    }

    fn ev(&self, spec: &EvSpec, how: How) -> R<Box<dyn EvSvc>> {
        unsafe {
            let name = new_name(&service_name("ev", spec.name))?;
            let sb = iox2_node_service_builder(self.h.r(), null_mut(), iox2_cast_service_name_ptr(name.0.h));
            let sb_serial = created("service_builder", sb as usize, sz::<iox2_service_builder_t>());
            let b = iox2_service_builder_event(sb);
            if let Some(v) = spec.max_notifiers {
                iox2_service_builder_event_set_max_notifiers(&b, v);
            }
            if let Some(v) = spec.max_listeners {
                iox2_service_builder_event_set_max_listeners(&b, v);
            }
            if let Some(v) = spec.max_nodes {
                iox2_service_builder_event_set_max_nodes(&b, v);
            }
            if let Some(v) = spec.event_id_max {
                iox2_service_builder_event_set_event_id_max_value(&b, v);
            }
            if let Some(v) = spec.notifier_created {
                iox2_service_builder_event_set_notifier_created_event(&b, v);
            }
            if let Some(v) = spec.notifier_dropped {
                iox2_service_builder_event_set_notifier_dropped_event(&b, v);
            }
            if let Some(v) = spec.notifier_dead {
                iox2_service_builder_event_set_notifier_dead_event(&b, v);
            }
            let mut pf: iox2_port_factory_event_h = null_mut();
            let code = match how {
                How::Create => iox2_service_builder_event_create(b, null_mut(), &mut pf),
                How::Open => iox2_service_builder_event_open(b, null_mut(), &mut pf),
                How::OpenOrCreate => iox2_service_builder_event_open_or_create(b, null_mut(), &mut pf),
            };
            released("service_builder", sb as usize, sb_serial);
            drop(name);
            rc(code)?;
            Ok(Box::new(CEvSvc { h: Owned::new("port_factory_event", pf, sz::<iox2_port_factory_event_t>(), iox2_port_factory_event_drop) }))
        }
    }
}

struct CPsSvc {
    h: Owned<iox2_port_factory_pub_sub_h_t>,
    elem: usize,
    hdr: usize,
}

fn type_detail(t: &iox2_type_detail_t) -> (bool, String, usize, usize) {
    let n: Vec<u8> = t.type_name.iter().take_while(|c| **c != 0).map(|c| *c as u8).collect();
    (matches!(t.variant, iox2_type_variant_e::DYNAMIC), String::from_utf8_lossy(&n).to_string(), t.size, t.alignment)
}

impl PsSvc for CPsSvc {
    fn side(&self) -> Side {
        Side::C
    }

    fn static_config(&self) -> PsStatic {
        unsafe {
            let mut c = core::mem::MaybeUninit::<iox2_static_config_publish_subscribe_t>::zeroed();
            iox2_port_factory_pub_sub_static_config(self.h.r(), c.as_mut_ptr());
            let c = c.assume_init();
            PsStatic {
                max_subscribers: c.max_subscribers,
                max_publishers: c.max_publishers,
                max_nodes: c.max_nodes,
                history_size: c.history_size,
                sub_max_buffer: c.subscriber_max_buffer_size,
                sub_max_borrowed: c.subscriber_max_borrowed_samples,
                safe_overflow: c.enable_safe_overflow,
                types: [type_detail(&c.message_type_details.header), type_detail(&c.message_type_details.user_header), type_detail(&c.message_type_details.payload)],
            }
        }
    }

    fn counts(&self) -> (usize, usize) {
        unsafe { (iox2_port_factory_pub_sub_dynamic_config_number_of_publishers(self.h.r()), iox2_port_factory_pub_sub_dynamic_config_number_of_subscribers(self.h.r())) }
    }

    fn publisher(&self, cfg: &PubCfg) -> R<Box<dyn Publisher>> {
        unsafe {
            let b = iox2_port_factory_pub_sub_publisher_builder(self.h.r(), null_mut());
            let b_serial = created("publisher_builder", b as usize, sz::<iox2_port_factory_publisher_builder_t>());
            if let Some(v) = cfg.max_loans {
                iox2_port_factory_publisher_builder_set_max_loaned_samples(&b, v);
            }
            if let Some(v) = cfg.max_slice_len {
                iox2_port_factory_publisher_builder_set_initial_max_slice_len(&b, v);
            }
            if cfg.discard {
                iox2_port_factory_publisher_builder_backpressure_strategy(&b, iox2_backpressure_strategy_e::DISCARD_DATA);
            }
            if let Some(v) = cfg.alloc {
                iox2_port_factory_publisher_builder_set_allocation_strategy(
                    &b,
                    match v {
                        0 => iox2_allocation_strategy_e::STATIC,
                        1 => iox2_allocation_strategy_e::BEST_FIT,
                        _ => iox2_allocation_strategy_e::POWER_OF_TWO,
                    },
                );
            }
            let mut p: iox2_publisher_h = null_mut();
            let code = iox2_port_factory_publisher_builder_create(b, null_mut(), &mut p);
            released("publisher_builder", b as usize, b_serial);
            rc(code)?;
            Ok(Box::new(CPublisher { h: Owned::new("publisher", p, sz::<iox2_publisher_t>(), iox2_publisher_drop), elem: self.elem, hdr: self.hdr }))
        }
    }

    fn subscriber(&self, cfg: &SubCfg) -> R<Box<dyn Subscriber>> {
        unsafe {
            let b = iox2_port_factory_pub_sub_subscriber_builder(self.h.r(), null_mut());
            let b_serial = created("subscriber_builder", b as usize, sz::<iox2_port_factory_subscriber_builder_t>());
            if let Some(v) = cfg.buffer {
                iox2_port_factory_subscriber_builder_set_buffer_size(&b, v);
            }
            if let Some(v) = cfg.history_request {
                iox2_port_factory_subscriber_builder_set_history_request(&b, v);
            }
            let mut s: iox2_subscriber_h = null_mut();
            let code = iox2_port_factory_subscriber_builder_create(b, null_mut(), &mut s);
            released("subscriber_builder", b as usize, b_serial);
            rc(code)?;
            Ok(Box::new(CSubscriber { h: Owned::new("subscriber", s, sz::<iox2_subscriber_t>(), iox2_subscriber_drop), hdr: self.hdr }))
        }
    }
}

// `iox2_unique_publisher_id_value` is part of the C header but not `pub` on the Rust side
unsafe extern "C" {
    fn iox2_unique_publisher_id_value(handle: iox2_unique_publisher_id_h, id_ptr: *mut u8, id_length: usize);
}

unsafe fn id_value(h: iox2_unique_publisher_id_h) -> u128 {
    let id = Owned::new("unique_publisher_id", h, sz::<iox2_unique_publisher_id_t>(), iox2_unique_publisher_id_drop);
    let mut b = [0u8; 16];
    unsafe { iox2_unique_publisher_id_value(id.h, b.as_mut_ptr(), 16) };
    u128::from_ne_bytes(b)
}

struct CPublisher {
    h: Owned<iox2_publisher_h_t>,
    elem: usize,
    hdr: usize,
}

impl Publisher for CPublisher {
    fn side(&self) -> Side {
        Side::C
    }

    fn id(&self) -> u128 {
        unsafe {
            let mut id: iox2_unique_publisher_id_h = null_mut();
            iox2_publisher_id(self.h.r(), null_mut(), &mut id);
            id_value(id)
        }
    }

    fn initial_max_slice_len(&self) -> usize {
        unsafe { iox2_publisher_initial_max_slice_len(self.h.r()) }
    }

    fn loan(&self, n: usize) -> R<Box<dyn Loan>> {
        unsafe {
            let mut s: iox2_sample_mut_h = null_mut();
            rc(iox2_publisher_loan_slice_uninit(self.h.r(), null_mut(), &mut s, n))?;
            Ok(Box::new(CLoan { h: Owned::new("sample_mut", s, sz::<iox2_sample_mut_t>(), iox2_sample_mut_drop), hdr: self.hdr }))
        }
    }

    fn send_copy(&self, bytes: &[u8], elem_size: usize, n: usize, dynamic: bool) -> R<usize> {
        debug_assert_eq!(elem_size, self.elem);
        unsafe {
            let mut recipients: usize = usize::MAX;
            let code = if dynamic {
                iox2_publisher_send_slice_copy(self.h.r(), bytes.as_ptr() as *const c_void, elem_size, n, &mut recipients)
            } else {
                iox2_publisher_send_copy(self.h.r(), bytes.as_ptr() as *const c_void, bytes.len(), &mut recipients)
            };
            rc(code)?;
            Ok(recipients)
        }
    }

    fn update_connections(&self) -> R<()> {
        unsafe { rc(iox2_publisher_update_connections(self.h.r())) }
    }
}

struct CLoan {
    h: Owned<iox2_sample_mut_h_t>,
    hdr: usize,
}

impl Loan for CLoan {
    fn side(&self) -> Side {
        Side::C
    }

    fn info(&mut self) -> LoanInfo {
        unsafe {
            let mut p: *mut c_void = null_mut();
            let mut n: usize = usize::MAX;
            iox2_sample_mut_payload_mut(self.h.r(), &mut p, &mut n);
            let mut hdr: iox2_publish_subscribe_header_h = null_mut();
            iox2_sample_mut_header(self.h.r(), null_mut(), &mut hdr);
            let hdr = Owned::new("publish_subscribe_header", hdr, sz::<iox2_publish_subscribe_header_t>(), iox2_publish_subscribe_header_drop);
            let n_hdr = iox2_publish_subscribe_header_number_of_elements(hdr.r());
            if n_hdr != n as u64 {
                problem("c.loan.number_of_elements_inconsistent".into(), format!("iox2_sample_mut_payload_mut reports {n} elements, the header {n_hdr}"));
            }
            let mut uh: *mut c_void = null_mut();
            iox2_sample_mut_user_header_mut(self.h.r(), &mut uh);
            LoanInfo { number_of_elements: n_hdr, number_of_bytes: iox2_sample_mut_payload_number_of_bytes(self.h.r()), payload_addr: p as usize, header_addr: uh as usize }
        }
    }

    fn write(&mut self, payload: &[u8], user_header: &[u8]) {
        unsafe {
            let mut p: *mut c_void = null_mut();
            iox2_sample_mut_payload_mut(self.h.r(), &mut p, null_mut());
            assert_eq!(iox2_sample_mut_payload_number_of_bytes(self.h.r()), payload.len(), "harness: payload length");
            core::ptr::copy_nonoverlapping(payload.as_ptr(), p as *mut u8, payload.len());
            assert_eq!(user_header.len(), self.hdr);
            let mut uh: *mut c_void = null_mut();
            iox2_sample_mut_user_header_mut(self.h.r(), &mut uh);
            core::ptr::copy_nonoverlapping(user_header.as_ptr(), uh as *mut u8, user_header.len());
        }
    }

    fn read_back(&mut self) -> Vec<u8> {
        unsafe {
            let mut p: *const c_void = null();
            iox2_sample_mut_payload(self.h.r(), &mut p, null_mut());
            let len = iox2_sample_mut_payload_number_of_bytes(self.h.r());
            core::slice::from_raw_parts(p as *const u8, len).to_vec()
        }
    }

    fn send(self: Box<Self>) -> R<usize> {
        unsafe {
            let mut recipients: usize = usize::MAX;
            let (raw, raw_serial) = self.h.into_raw();
            let code = iox2_sample_mut_send(raw, &mut recipients);
            released("sample_mut", raw as usize, raw_serial);
            rc(code)?;
            Ok(recipients)
        }
    }
}

struct CSubscriber {
    h: Owned<iox2_subscriber_h_t>,
    hdr: usize,
}

impl Subscriber for CSubscriber {
    fn side(&self) -> Side {
        Side::C
    }

    fn buffer_size(&self) -> usize {
        unsafe { iox2_subscriber_buffer_size(self.h.r()) }
    }

    fn receive(&self) -> R<Option<Box<dyn Sample>>> {
        unsafe {
            let mut s: iox2_sample_h = null_mut();
            rc(iox2_subscriber_receive(self.h.r(), null_mut(), &mut s))?;
            if s.is_null() {
                return Ok(None);
            }
            Ok(Some(Box::new(CSample { h: Owned::new("sample", s, sz::<iox2_sample_t>(), iox2_sample_drop), hdr: self.hdr })))
        }
    }

    fn has_samples(&self) -> R<bool> {
        unsafe {
            let mut v = false;
            rc(iox2_subscriber_has_samples(self.h.r(), &mut v))?;
            Ok(v)
        }
    }
}

struct CSample {
    h: Owned<iox2_sample_h_t>,
    hdr: usize,
}

impl Sample for CSample {
    fn side(&self) -> Side {
        Side::C
    }

    fn info(&self) -> SampleInfo {
        unsafe {
            let mut p: *const c_void = null();
            let mut n: usize = usize::MAX;
            iox2_sample_payload(self.h.r(), &mut p, &mut n);
            let len = iox2_sample_payload_number_of_bytes(self.h.r());
            let mut uh: *const c_void = null();
            iox2_sample_user_header(self.h.r(), &mut uh);
            let mut hdr: iox2_publish_subscribe_header_h = null_mut();
            iox2_sample_header(self.h.r(), null_mut(), &mut hdr);
            let hdr = Owned::new("publish_subscribe_header", hdr, sz::<iox2_publish_subscribe_header_t>(), iox2_publish_subscribe_header_drop);
            let n_hdr = iox2_publish_subscribe_header_number_of_elements(hdr.r());
            if n_hdr != n as u64 {
                problem("c.sample.number_of_elements_inconsistent".into(), format!("iox2_sample_payload reports {n} elements, the header {n_hdr}"));
            }
            let mut id: iox2_unique_publisher_id_h = null_mut();
            iox2_publish_subscribe_header_publisher_id(hdr.r(), null_mut(), &mut id);
            SampleInfo {
                number_of_elements: n as u64,
                number_of_bytes: len,
                payload: core::slice::from_raw_parts(p as *const u8, len).to_vec(),
                user_header: core::slice::from_raw_parts(uh as *const u8, self.hdr).to_vec(),
                origin: id_value(id),
                payload_addr: p as usize,
                header_addr: uh as usize,
            }
        }
    }
}

struct CEvSvc {
    h: Owned<iox2_port_factory_event_h_t>,
}

impl EvSvc for CEvSvc {
    fn side(&self) -> Side {
        Side::C
    }

    fn static_config(&self) -> EvStatic {
        unsafe {
            let mut c = core::mem::MaybeUninit::<iox2_static_config_event_t>::zeroed();
            iox2_port_factory_event_static_config(self.h.r(), c.as_mut_ptr());
            let c = c.assume_init();
            EvStatic {
                max_notifiers: c.max_notifiers,
                max_listeners: c.max_listeners,
                max_nodes: c.max_nodes,
                event_id_max: c.event_id_max_value,
                created: c.has_notifier_created_event.then_some(c.notifier_created_event),
                dropped: c.has_notifier_dropped_event.then_some(c.notifier_dropped_event),
                dead: c.has_notifier_dead_event.then_some(c.notifier_dead_event),
                deadline: c.has_deadline.then_some((c.deadline_seconds, c.deadline_nanoseconds)),
            }
        }
    }

    fn counts(&self) -> (usize, usize) {
        unsafe { (iox2_port_factory_event_dynamic_config_number_of_notifiers(self.h.r()), iox2_port_factory_event_dynamic_config_number_of_listeners(self.h.r())) }
    }

    fn notifier(&self, default_id: Option<usize>) -> R<Box<dyn Notifier>> {
        unsafe {
            let b = iox2_port_factory_event_notifier_builder(self.h.r(), null_mut());
            let b_serial = created("notifier_builder", b as usize, sz::<iox2_port_factory_notifier_builder_t>());
            if let Some(v) = default_id {
                let id = iox2_event_id_t { value: v };
                iox2_port_factory_notifier_builder_set_default_event_id(&b, &id);
            }
            let mut n: iox2_notifier_h = null_mut();
            let code = iox2_port_factory_notifier_builder_create(b, null_mut(), &mut n);
            released("notifier_builder", b as usize, b_serial);
            rc(code)?;
            Ok(Box::new(CNotifier { h: Owned::new("notifier", n, sz::<iox2_notifier_t>(), iox2_notifier_drop) }))
        }
    }

    fn listener(&self) -> R<Box<dyn Listener>> {
        unsafe {
            let b = iox2_port_factory_event_listener_builder(self.h.r(), null_mut());
            let b_serial = created("listener_builder", b as usize, sz::<iox2_port_factory_listener_builder_t>());
            let mut l: iox2_listener_h = null_mut();
            let code = iox2_port_factory_listener_builder_create(b, null_mut(), &mut l);
            released("listener_builder", b as usize, b_serial);
            rc(code)?;
            Ok(Box::new(CListener { h: Owned::new("listener", l, sz::<iox2_listener_t>(), iox2_listener_drop) }))
        }
    }
}

struct CNotifier {
    h: Owned<iox2_notifier_h_t>,
}

impl Notifier for CNotifier {
    fn side(&self) -> Side {
        Side::C
    }

    fn notify(&self) -> R<usize> {
        unsafe {
            let mut n: usize = usize::MAX;
            rc(iox2_notifier_notify(self.h.r(), &mut n))?;
            Ok(n)
        }
    }

    fn notify_id(&self, id: usize) -> R<usize> {
        unsafe {
            let mut n: usize = usize::MAX;
            let id = iox2_event_id_t { value: id };
            rc(iox2_notifier_notify_with_custom_event_id(self.h.r(), &id, &mut n))?;
            Ok(n)
        }
    }
}

struct CListener {
    h: Owned<iox2_listener_h_t>,
}

extern "C" fn collect(id: *const iox2_event_id_t, count: u64, ctx: iox2_callback_context) {
    let v = unsafe { &mut *(ctx as *mut Vec<(usize, u64)>) };
    v.push((unsafe { (*id).value }, count));
}

impl Listener for CListener {
    fn side(&self) -> Side {
        Side::C
    }

    fn try_wait(&self) -> R<(u64, Vec<(usize, u64)>)> {
        unsafe {
            let mut v: Vec<(usize, u64)> = vec![];
            let mut n: u64 = u64::MAX;
            rc(iox2_listener_try_wait(self.h.r(), &mut n, collect, &mut v as *mut _ as *mut c_void))?;
            Ok((n, v))
        }
    }
}
