//! C18 part `errmap`: the error-mapping table.
//!
//! For every Rust enum with an `IntoCInt` impl the harness keeps its own table
//! `Rust value -> expected C enumerator` (written from the names, independent of the impl) under an
//! exhaustive `match`, so a new Rust variant or a new C enumerator breaks the harness build. Checked:
//!  * `__verif_into_c_int(value)` returns (some calls do not: run in a forked child with a limit),
//!  * the code is not `IOX2_OK`, is an enumerator of the C enum, and is the enumerator that names
//!    the Rust variant,
//!  * values with different collapse keys (= different variants; the payload of a payload-carrying
//!    variant is ignored only where the impl collapses it on purpose) map to different codes,
//!  * the string of every C enumerator is non-null, non-empty, printable ASCII and distinct within
//!    its enum.
use core::ffi::{c_char, c_int};
use iceoryx2::config::ConfigCreationError;
use iceoryx2::node::{NodeCleanupFailure, NodeCreationFailure, NodeListFailure, NodeWaitFailure};
use iceoryx2::port::client::RequestSendError;
use iceoryx2::port::listener::ListenerCreateError;
use iceoryx2::port::notifier::{NotifierCreateError, NotifierNotifyError};
use iceoryx2::port::publisher::PublisherCreateError;
use iceoryx2::port::reader::{EntryHandleError, ReaderCreateError};
use iceoryx2::port::subscriber::SubscriberCreateError;
use iceoryx2::port::update_connections::ConnectionFailure;
use iceoryx2::port::writer::{EntryHandleMutError, WriterCreateError};
use iceoryx2::port::{LoanError, ReceiveError, SendError};
use iceoryx2::prelude::BackpressureStrategy;
use iceoryx2::service::ServiceRemoveError;
use iceoryx2::service::attribute::{AttributeDefinitionError, AttributeKey, AttributeValue, AttributeVerificationError};
use iceoryx2::service::builder::blackboard::{BlackboardCreateError, BlackboardOpenError};
use iceoryx2::service::builder::event::{EventCreateError, EventOpenError, EventOpenOrCreateError};
use iceoryx2::service::builder::publish_subscribe::{PublishSubscribeCreateError, PublishSubscribeOpenError, PublishSubscribeOpenOrCreateError};
use iceoryx2::service::builder::request_response::{RequestResponseCreateError, RequestResponseOpenError, RequestResponseOpenOrCreateError};
use iceoryx2::service::port_factory::client::ClientCreateError;
use iceoryx2::service::port_factory::server::ServerCreateError;
use iceoryx2::service::service_name::ServiceNameError;
use iceoryx2::service::{ServiceDetailsError, ServiceListError};
use iceoryx2::signal_handling_mode::SignalHandlingMode;
use iceoryx2::waitset::{WaitSetAttachmentError, WaitSetCreateError, WaitSetRunError, WaitSetRunResult};
use iceoryx2_bb_container::semantic_string::{SemanticString, SemanticStringError};
use iceoryx2_bb_elementary_traits::AsCStr;
use iceoryx2_cal::event::ListenerWaitError;
use iceoryx2_cal::shared_memory::SharedMemoryOpenError;
use iceoryx2_cal::shm_allocator::AllocationGrowError;
use iceoryx2_cal::zero_copy_connection::ZeroCopyCreationError;
use iceoryx2_ffi_c::*;
use serde::{Deserialize, Serialize};
use std::time::Duration;
use vcore::{Ctx, Failure, Obs};

pub struct Row {
    pub name: String,
    /// rows with different keys must have different codes
    pub key: String,
    /// name used in signatures (the payload of a collapsed variant is left out)
    pub sig: String,
    pub eval: Box<dyn Fn() -> c_int>,
    pub expect: c_int,
    pub expect_name: &'static str,
}

pub struct CVar {
    pub name: &'static str,
    pub value: c_int,
    /// None = the string function returned NULL
    pub string: Option<Vec<u8>>,
}

pub struct Table {
    pub rust_enum: &'static str,
    pub c_enum: &'static str,
    /// false: a value conversion (strategy / mode / result), 0 is a legal code
    pub is_error: bool,
    /// is there an exported `iox2_*_string` function (else the derive is called directly)
    pub has_string_fn: bool,
    pub rows: Vec<Row>,
    pub cvars: Vec<CVar>,
}

fn cstr(p: *const c_char) -> Option<Vec<u8>> {
    if p.is_null() {
        return None;
    }
    Some(unsafe { core::ffi::CStr::from_ptr(p) }.to_bytes().to_vec())
}

fn squeeze(s: &str) -> String {
    s.chars().filter(|c| !c.is_whitespace()).collect()
}

/// One table. Entries `Path::To::Variant => C_ENUMERATOR` (nested unit payloads allowed); the same
/// tokens are used as the value and as an arm of the exhaustive match.
macro_rules! table {
    ($out:ident; $rname:literal : $rty:ty => $cty:ident, error = $is_err:expr, strfn = $has:expr, $sfn:expr;
     rust { $( $($rv:ident)::+ $( ( $($inner:tt)* ) )? => $cv:ident ),* $(,)? }
     c { $( $call:ident ),* $(,)? }) => {{
        #[allow(dead_code, unreachable_patterns)]
        fn exhaustive_rust(v: &$rty) {
            match v { $( $($rv)::+ $( ( $($inner)* ) )? )|* => {} }
        }
        #[allow(dead_code)]
        fn exhaustive_c(v: &$cty) {
            match v { $( $cty::$call )|* => {} }
        }
        let mut t = Table { rust_enum: $rname, c_enum: stringify!($cty), is_error: $is_err, has_string_fn: $has, rows: vec![], cvars: vec![] };
        $(
            let name = squeeze(stringify!($($rv)::+ $( ( $($inner)* ) )?));
            t.rows.push(Row {
                key: name.clone(), sig: name.clone(), name,
                eval: Box::new(|| __verif_into_c_int($($rv)::+ $( ( $($inner)* ) )?)),
                expect: $cty::$cv as c_int, expect_name: stringify!($cv),
            });
        )*
        $(
            #[allow(clippy::redundant_closure_call)]
            t.cvars.push(CVar { name: stringify!($call), value: $cty::$call as c_int, string: cstr(($sfn)($cty::$call)) });
        )*
        $out.push(t);
    }};
}

/// adds the C enumerators to a hand-built table
macro_rules! cvars {
    ($t:ident, $cty:ident, $sfn:expr; $( $call:ident ),* $(,)?) => {{
        #[allow(dead_code)]
        fn exhaustive_c(v: &$cty) {
            match v { $( $cty::$call )|* => {} }
        }
        $(
            #[allow(clippy::redundant_closure_call)]
            $t.cvars.push(CVar { name: stringify!($call), value: $cty::$call as c_int, string: cstr(($sfn)($cty::$call)) });
        )*
    }};
}

pub fn zero_copy_creation_errors() -> Vec<ZeroCopyCreationError> {
    use ZeroCopyCreationError::*;
    #[allow(dead_code)]
    fn exhaustive(v: &ZeroCopyCreationError) {
        match v {
            InternalError | IsBeingCleanedUp | AnotherInstanceIsAlreadyConnected | InsufficientPermissions | VersionMismatch | ConnectionMaybeCorrupted | InvalidSampleSize
            | InitializationNotYetFinalized | IncompatibleBufferSize | IncompatibleMaxBorrowedSamplesPerChannelSetting | IncompatibleOverflowSetting | IncompatibleNumberOfSamples
            | IncompatibleNumberOfSegments | IncompatibleNumberOfChannels => {}
        }
    }
    vec![
        InternalError,
        IsBeingCleanedUp,
        AnotherInstanceIsAlreadyConnected,
        InsufficientPermissions,
        VersionMismatch,
        ConnectionMaybeCorrupted,
        InvalidSampleSize,
        InitializationNotYetFinalized,
        IncompatibleBufferSize,
        IncompatibleMaxBorrowedSamplesPerChannelSetting,
        IncompatibleOverflowSetting,
        IncompatibleNumberOfSamples,
        IncompatibleNumberOfSegments,
        IncompatibleNumberOfChannels,
    ]
}

pub fn shared_memory_open_errors() -> Vec<SharedMemoryOpenError> {
    use SharedMemoryOpenError::*;
    #[allow(dead_code)]
    fn exhaustive(v: &SharedMemoryOpenError) {
        match v {
            DoesNotExist | InsufficientPermissions | SizeIsZero | SizeDoesNotFit | WrongAllocatorSelected | InitializationNotYetFinalized | VersionMismatch | InternalError => {}
        }
    }
    vec![DoesNotExist, InsufficientPermissions, SizeIsZero, SizeDoesNotFit, WrongAllocatorSelected, InitializationNotYetFinalized, VersionMismatch, InternalError]
}

pub fn connection_failures() -> Vec<(ConnectionFailure, &'static str)> {
    #[allow(dead_code)]
    fn exhaustive(v: &ConnectionFailure) {
        match v {
            ConnectionFailure::FailedToEstablishConnection(_) | ConnectionFailure::UnableToMapSendersDataSegment(_) => {}
        }
    }
    let mut v = vec![];
    for e in zero_copy_creation_errors() {
        v.push((ConnectionFailure::FailedToEstablishConnection(e), "FailedToEstablishConnection"));
    }
    for e in shared_memory_open_errors() {
        v.push((ConnectionFailure::UnableToMapSendersDataSegment(e), "UnableToMapSendersDataSegment"));
    }
    v
}

include!("errmap_tables.rs");

#[derive(Clone, Debug, Serialize, Deserialize)]
pub struct Case {
    pub table: usize,
    /// `Some(i)`: row i alone; `None`: the enum-level checks (collisions, strings)
    pub row: Option<usize>,
    pub what: String,
}

fn printable(s: &[u8]) -> bool {
    s.iter().all(|b| (0x20..0x7f).contains(b))
}

fn check_row(t: &Table, r: &Row) -> Result<(), Failure> {
    let code = (r.eval)();
    if t.is_error && code == IOX2_OK {
        return Err(Failure::new(format!("errmap.maps_to_ok.{}", r.sig), format!("{} maps to {} == IOX2_OK (expected {}::{} = {})", r.name, code, t.c_enum, r.expect_name, r.expect)));
    }
    if !t.cvars.iter().any(|c| c.value == code) {
        return Err(Failure::new(format!("errmap.not_an_enumerator.{}", r.sig), format!("{} maps to {} which is no enumerator of {}", r.name, code, t.c_enum)));
    }
    if code != r.expect {
        let got = t.cvars.iter().find(|c| c.value == code).map(|c| c.name).unwrap_or("?");
        return Err(Failure::new(format!("errmap.wrong_code.{}", r.sig), format!("{} maps to {}::{} ({}), the enumerator that names it is {} ({})", r.name, t.c_enum, got, code, r.expect_name, r.expect)));
    }
    Ok(())
}

fn check_enum(t: &Table, skip_rows: &[usize]) -> Result<(), Failure> {
    // distinct keys -> distinct codes
    let mut seen: Vec<(c_int, &str, &str)> = vec![];
    for (i, r) in t.rows.iter().enumerate() {
        if skip_rows.contains(&i) {
            continue;
        }
        let code = (r.eval)();
        if code != r.expect {
            // reported by the row's own case (wrong_code / maps_to_ok); a collision it causes is the same defect
            continue;
        }
        if let Some((_, k, n)) = seen.iter().find(|(c, k, _)| *c == code && *k != r.key.as_str()) {
            return Err(Failure::new(format!("errmap.collision.{}", t.rust_enum), format!("{} and {} (keys {} / {}) both map to code {} of {}", n, r.name, k, r.key, code, t.c_enum)));
        }
        seen.push((code, r.key.as_str(), r.name.as_str()));
    }
    // enumerators: non-zero for error enums, strings
    for c in &t.cvars {
        // (an enumerator some row is expected to map to is reported by that row: maps_to_ok)
        if t.is_error && c.value == IOX2_OK && !t.rows.iter().any(|r| r.expect == c.value) {
            return Err(Failure::new(format!("errmap.enumerator_is_ok.{}", t.c_enum), format!("{}::{} has the value of IOX2_OK", t.c_enum, c.name)));
        }
        let Some(s) = &c.string else {
            return Err(Failure::new(format!("errmap.string_null.{}", t.c_enum), format!("string of {}::{} is NULL", t.c_enum, c.name)));
        };
        if s.is_empty() {
            return Err(Failure::new(format!("errmap.string_empty.{}", t.c_enum), format!("string of {}::{} is empty", t.c_enum, c.name)));
        }
        if !printable(s) {
            return Err(Failure::new(format!("errmap.string_not_printable.{}", t.c_enum), format!("string of {}::{} is not printable ASCII: {:?}", t.c_enum, c.name, s)));
        }
    }
    for (i, a) in t.cvars.iter().enumerate() {
        for b in &t.cvars[i + 1..] {
            if a.string == b.string {
                return Err(Failure::new(
                    format!("errmap.string_not_distinct.{}", t.c_enum),
                    format!("{}::{} and {}::{} have the same string {:?}", t.c_enum, a.name, t.c_enum, b.name, String::from_utf8_lossy(a.string.as_deref().unwrap_or_default())),
                ));
            }
        }
    }
    Ok(())
}

pub fn no_return_sig(row_name: &str) -> String {
    format!("errmap.no_return.{row_name}")
}

pub fn part(ctx: &mut Ctx) {
    const PART: &str = "errmap";
    if !ctx.part_enabled(PART) {
        return;
    }
    let ts = tables();
    let mut cases = vec![];
    for (ti, t) in ts.iter().enumerate() {
        for (ri, r) in t.rows.iter().enumerate() {
            cases.push(Case { table: ti, row: Some(ri), what: r.name.clone() });
        }
        cases.push(Case { table: ti, row: None, what: format!("{} / {}", t.rust_enum, t.c_enum) });
    }
    let nrows: usize = ts.iter().map(|t| t.rows.len()).sum();
    let ncvars: usize = ts.iter().map(|t| t.cvars.len()).sum();
    for t in &ts {
        if !t.has_string_fn {
            ctx.note(format!("{}: no exported iox2_*_string function; the derived string representation was checked directly", t.c_enum));
        }
    }
    // rows that are known not to return are left out of the enum-level evaluation
    let mut skip: Vec<Vec<usize>> = vec![];
    for t in &ts {
        let mut s = vec![];
        for (ri, r) in t.rows.iter().enumerate() {
            let sig = no_return_sig(&r.sig);
            if ctx.is_open_finding(&sig) || ctx.is_open_finding(&format!("{sig}.crash")) {
                s.push(ri);
            }
        }
        skip.push(s);
    }
    for s in skip.iter().flatten() {
        let _ = s;
        ctx.count_excluded("errmap.no_return (row left out of the collision check)");
    }
    let dim = format!("all {} values of {} Rust enums with an IntoCInt impl (payloads of payload-carrying variants enumerated too) and all {} enumerators of {} C enums", nrows, ts.len(), ncvars, ts.len());
    ctx.enumerate(PART, &dim, cases.into_iter(), |case, obs: &mut Obs| {
        let t = &ts[case.table];
        obs.nontrivial = true;
        match case.row {
            Some(ri) => {
                let r = &t.rows[ri];
                obs.class("errmap.row");
                // some conversions do not return (unbounded recursion): a forked child with a limit
                // four orders of magnitude above the normal duration
                let sig = no_return_sig(&r.sig);
                let (_, res) = Ctx::forked(Duration::from_secs(5), &sig, |_| check_row(t, r));
                not_a_verdict_when_starved(res, obs)
            }
            None => {
                obs.class("errmap.enum");
                let sk = skip[case.table].clone();
                let (_, res) = Ctx::forked(Duration::from_secs(5), &format!("errmap.no_return.{}", t.rust_enum), |_| check_enum(t, &sk));
                not_a_verdict_when_starved(res, obs)
            }
        }
    });
}

/// a forked case that was slow without the signs of a spin (starved machine) is discarded, never a violation
fn not_a_verdict_when_starved(res: Result<(), vcore::Failure>, obs: &mut Obs) -> Result<(), vcore::Failure> {
    match res {
        Err(f) if f.signature == "harness.slow" => {
            obs.discarded = true;
            Ok(())
        }
        r => r,
    }
}
