//! Executor 1: the public Rust API (with the custom-payload markers the C binding is built on, so
//! that both executors talk about the same service type).
use crate::api::*;
use core::mem::MaybeUninit;
use iceoryx2::config::Config;
use iceoryx2::node::{Node as IoxNode, NodeBuilder};
use iceoryx2::port::listener::Listener as IoxListener;
use iceoryx2::port::notifier::Notifier as IoxNotifier;
use iceoryx2::port::publisher::Publisher as IoxPublisher;
use iceoryx2::port::subscriber::Subscriber as IoxSubscriber;
use iceoryx2::port::update_connections::UpdateConnections;
use iceoryx2::port::{LoanError, SendError};
use iceoryx2::prelude::{Alignment, AllocationStrategy, EventId, PayloadHeader as _, PortFactory as _, ServiceName};
use iceoryx2::sample::Sample as IoxSample;
use iceoryx2::sample_mut_uninit::SampleMutUninit;
use iceoryx2::service::Service;
use iceoryx2::service::marker::{CustomHeaderMarker, CustomPayloadMarker};
use iceoryx2::service::port_factory::{event as pf_ev, publish_subscribe as pf_ps};
use iceoryx2::service::static_config::message_type_details::{TypeDetail, TypeVariant};
use iceoryx2_ffi_c::__verif_into_c_int;

type Payload = [CustomPayloadMarker];
type Header = CustomHeaderMarker;

/// Rust error value -> Fail (the private IntoCInt trait cannot be named in a bound, hence a macro)
macro_rules! fail {
    ($ty:literal, $e:expr) => {{
        let e = $e;
        Fail { name: format!("{}::{:?}", $ty, e), code: __verif_into_c_int(e) }
    }};
}

pub fn create_node<S: Service + 'static>(config: &Config) -> R<Box<dyn Node>> {
    match NodeBuilder::new().config(config).create::<S>() {
        Ok(node) => Ok(Box::new(RNode::<S> { node })),
        Err(e) => Err(fail!("NodeCreationFailure", e)),
    }
}

struct RNode<S: Service> {
    node: IoxNode<S>,
}

pub fn type_detail(t: &TypeDet, dynamic: bool) -> TypeDetail {
    TypeDetail::__internal_new_from_parts(if dynamic { TypeVariant::Dynamic } else { TypeVariant::FixedSize }, &type_name(t), t.size, t.align).expect("type name fits")
}

impl<S: Service + 'static> Node for RNode<S> {
    fn side(&self) -> Side {
        Side::Rust
    }

    fn ps(&self, spec: &PsSpec, how: How) -> R<Box<dyn PsSvc>> {
        let name = ServiceName::new(&service_name("ps", spec.name)).expect("valid service name");
        let mut b = self.node.service_builder(&name).publish_subscribe::<Payload>().user_header::<Header>();
        b = unsafe { b.__internal_set_payload_type_details(&type_detail(&spec.payload, spec.dynamic)) };
        // no user header = `()`, the default of the Rust builder; the C binding sets the same
        // default ("()", 0, 1) when the pub-sub builder is made
        b = match &spec.user_header {
            Some(h) => unsafe { b.__internal_set_user_header_type_details(&type_detail(h, false)) },
            None => unsafe { b.__internal_set_user_header_type_details(&TypeDetail::new::<()>(TypeVariant::FixedSize)) },
        };
        if let Some(v) = spec.max_publishers {
            b = b.max_publishers(v);
        }
        if let Some(v) = spec.max_subscribers {
            b = b.max_subscribers(v);
        }
        if let Some(v) = spec.max_nodes {
            b = b.max_nodes(v);
        }
        if let Some(v) = spec.history_size {
            b = b.history_size(v);
        }
        if let Some(v) = spec.sub_max_buffer {
            b = b.subscriber_max_buffer_size(v);
        }
        if let Some(v) = spec.sub_max_borrowed {
            b = b.subscriber_max_borrowed_samples(v);
        }
        if let Some(v) = spec.safe_overflow {
            b = b.enable_safe_overflow(v);
        }
        if let Some(v) = spec.payload_alignment {
            b = b.payload_alignment(Alignment::new(v).expect("power of two"));
        }
        let f = match how {
            How::Create => b.create().map_err(|e| fail!("PublishSubscribeCreateError", e)),
            How::Open => b.open().map_err(|e| fail!("PublishSubscribeOpenError", e)),
            How::OpenOrCreate => b.open_or_create().map_err(|e| fail!("PublishSubscribeOpenOrCreateError", e)),
        }?;
        Ok(Box::new(RPsSvc::<S> { f, elem: spec.payload.size, hdr: spec.user_header.as_ref().map(|h| h.size).unwrap_or(0) }))
    }

    fn ev(&self, spec: &EvSpec, how: How) -> R<Box<dyn EvSvc>> {
        let name = ServiceName::new(&service_name("ev", spec.name)).expect("valid service name");
        let mut b = self.node.service_builder(&name).event();
        if let Some(v) = spec.max_notifiers {
            b = b.max_notifiers(v);
        }
        if let Some(v) = spec.max_listeners {
            b = b.max_listeners(v);
        }
        if let Some(v) = spec.max_nodes {
            b = b.max_nodes(v);
        }
        if let Some(v) = spec.event_id_max {
            b = b.event_id_max_value(v);
        }
        if let Some(v) = spec.notifier_created {
            b = b.notifier_created_event(EventId::new(v));
        }
        if let Some(v) = spec.notifier_dropped {
            b = b.notifier_dropped_event(EventId::new(v));
        }
        if let Some(v) = spec.notifier_dead {
            b = b.notifier_dead_event(EventId::new(v));
        }
        let f = match how {
            How::Create => b.create().map_err(|e| fail!("EventCreateError", e)),
            How::Open => b.open().map_err(|e| fail!("EventOpenError", e)),
            How::OpenOrCreate => b.open_or_create().map_err(|e| fail!("EventOpenOrCreateError", e)),
        }?;
        Ok(Box::new(REvSvc::<S> { f }))
    }
}

struct RPsSvc<S: Service> {
    f: pf_ps::PortFactory<S, Payload, Header>,
    elem: usize,
    hdr: usize,
}

impl<S: Service + 'static> PsSvc for RPsSvc<S> {
    fn side(&self) -> Side {
        Side::Rust
    }

    fn static_config(&self) -> PsStatic {
        let c = self.f.static_config();
        let m = c.message_type_details();
        let td = |t: &TypeDetail| (t.variant() == TypeVariant::Dynamic, t.type_name().to_string(), t.size(), t.alignment());
        PsStatic {
            max_subscribers: c.max_subscribers(),
            max_publishers: c.max_publishers(),
            max_nodes: c.max_nodes(),
            history_size: c.history_size(),
            sub_max_buffer: c.subscriber_max_buffer_size(),
            sub_max_borrowed: c.subscriber_max_borrowed_samples(),
            safe_overflow: c.has_safe_overflow(),
            types: [td(&m.header), td(&m.user_header), td(&m.payload)],
        }
    }

    fn counts(&self) -> (usize, usize) {
        let d = self.f.dynamic_config();
        (d.number_of_publishers(), d.number_of_subscribers())
    }

    fn publisher(&self, cfg: &PubCfg) -> R<Box<dyn Publisher>> {
        let mut b = self.f.publisher_builder();
        if let Some(v) = cfg.max_loans {
            b = b.max_loaned_samples(v);
        }
        if let Some(v) = cfg.max_slice_len {
            b = b.initial_max_slice_len(v);
        }
        if cfg.discard {
            b = b.backpressure_strategy(iceoryx2::prelude::BackpressureStrategy::DiscardData);
        }
        if let Some(v) = cfg.alloc {
            b = b.allocation_strategy(match v {
                0 => AllocationStrategy::Static,
                1 => AllocationStrategy::BestFit,
                _ => AllocationStrategy::PowerOfTwo,
            });
        }
        match b.create() {
            Ok(p) => Ok(Box::new(RPublisher::<S> { p, elem: self.elem, hdr: self.hdr })),
            Err(e) => Err(fail!("PublisherCreateError", e)),
        }
    }

    fn subscriber(&self, cfg: &SubCfg) -> R<Box<dyn Subscriber>> {
        let mut b = self.f.subscriber_builder();
        if let Some(v) = cfg.buffer {
            b = b.buffer_size(v);
        }
        if let Some(v) = cfg.history_request {
            b = b.history_request(v);
        }
        match b.create() {
            Ok(s) => Ok(Box::new(RSubscriber::<S> { s, hdr: self.hdr })),
            Err(e) => Err(fail!("SubscriberCreateError", e)),
        }
    }
}

struct RPublisher<S: Service> {
    p: IoxPublisher<S, Payload, Header>,
    elem: usize,
    hdr: usize,
}

impl<S: Service + 'static> Publisher for RPublisher<S> {
    fn side(&self) -> Side {
        Side::Rust
    }

    fn id(&self) -> u128 {
        self.p.id().value()
    }

    fn initial_max_slice_len(&self) -> usize {
        self.p.initial_max_slice_len()
    }

    fn loan(&self, n: usize) -> R<Box<dyn Loan>> {
        match unsafe { self.p.loan_custom_payload(n) } {
            Ok(s) => Ok(Box::new(RLoan::<S> { s, hdr: self.hdr })),
            Err(e) => Err(fail!("LoanError", e)),
        }
    }

    fn send_copy(&self, bytes: &[u8], elem_size: usize, n: usize, _dynamic: bool) -> R<usize> {
        // what `Publisher::send_copy` / `send_slice_copy` of a typed publisher do: loan, copy, send;
        // a failed loan surfaces as SendError::LoanError
        debug_assert_eq!(elem_size, self.elem);
        let mut s = match unsafe { self.p.loan_custom_payload(n) } {
            Ok(s) => s,
            Err(e) => return Err(fail!("SendError", SendError::LoanError(e))),
        };
        if s.payload().len() < bytes.len() {
            return Err(fail!("SendError", SendError::LoanError(LoanError::ExceedsMaxLoanSize)));
        }
        unsafe { core::ptr::copy_nonoverlapping(bytes.as_ptr(), s.payload_mut().as_mut_ptr() as *mut u8, bytes.len()) };
        unsafe { s.assume_init() }.send().map_err(|e| fail!("SendError", e))
    }

    fn update_connections(&self) -> R<()> {
        self.p.update_connections().map_err(|e| fail!("ConnectionFailure", e))
    }
}

struct RLoan<S: Service> {
    s: SampleMutUninit<S, [MaybeUninit<CustomPayloadMarker>], Header>,
    hdr: usize,
}

impl<S: Service + 'static> Loan for RLoan<S> {
    fn side(&self) -> Side {
        Side::Rust
    }

    fn info(&mut self) -> LoanInfo {
        LoanInfo {
            number_of_elements: self.s.header().number_of_elements(),
            number_of_bytes: self.s.payload().len(),
            payload_addr: self.s.payload_mut().as_mut_ptr() as usize,
            header_addr: self.s.user_header_mut() as *mut Header as usize,
        }
    }

    fn write(&mut self, payload: &[u8], user_header: &[u8]) {
        let dst = self.s.payload_mut();
        assert_eq!(dst.len(), payload.len(), "harness: payload length");
        unsafe { core::ptr::copy_nonoverlapping(payload.as_ptr(), dst.as_mut_ptr() as *mut u8, payload.len()) };
        assert_eq!(user_header.len(), self.hdr);
        let h = self.s.user_header_mut() as *mut Header as *mut u8;
        unsafe { core::ptr::copy_nonoverlapping(user_header.as_ptr(), h, user_header.len()) };
    }

    fn read_back(&mut self) -> Vec<u8> {
        let p = self.s.payload();
        unsafe { core::slice::from_raw_parts(p.as_ptr() as *const u8, p.len()) }.to_vec()
    }

    fn send(self: Box<Self>) -> R<usize> {
        unsafe { self.s.assume_init() }.send().map_err(|e| fail!("SendError", e))
    }
}

struct RSubscriber<S: Service> {
    s: IoxSubscriber<S, Payload, Header>,
    hdr: usize,
}

impl<S: Service + 'static> Subscriber for RSubscriber<S> {
    fn side(&self) -> Side {
        Side::Rust
    }

    fn buffer_size(&self) -> usize {
        self.s.buffer_size()
    }

    fn receive(&self) -> R<Option<Box<dyn Sample>>> {
        match self.s.receive() {
            Ok(Some(s)) => Ok(Some(Box::new(RSample::<S> { s, hdr: self.hdr }))),
            Ok(None) => Ok(None),
            Err(e) => Err(fail!("ReceiveError", e)),
        }
    }

    fn has_samples(&self) -> R<bool> {
        self.s.has_samples().map_err(|e| fail!("ConnectionFailure", e))
    }
}

struct RSample<S: Service> {
    s: IoxSample<S, Payload, Header>,
    hdr: usize,
}

impl<S: Service + 'static> Sample for RSample<S> {
    fn side(&self) -> Side {
        Side::Rust
    }

    fn info(&self) -> SampleInfo {
        let p = self.s.payload();
        let h = self.s.user_header() as *const Header as *const u8;
        SampleInfo {
            number_of_elements: self.s.header().number_of_elements(),
            number_of_bytes: p.len(),
            payload: unsafe { core::slice::from_raw_parts(p.as_ptr() as *const u8, p.len()) }.to_vec(),
            user_header: unsafe { core::slice::from_raw_parts(h, self.hdr) }.to_vec(),
            origin: self.s.header().publisher_id().value(),
            payload_addr: p.as_ptr() as usize,
            header_addr: h as usize,
        }
    }
}

struct REvSvc<S: Service> {
    f: pf_ev::PortFactory<S>,
}

impl<S: Service + 'static> EvSvc for REvSvc<S> {
    fn side(&self) -> Side {
        Side::Rust
    }

    fn static_config(&self) -> EvStatic {
        let c = self.f.static_config();
        EvStatic {
            max_notifiers: c.max_notifiers(),
            max_listeners: c.max_listeners(),
            max_nodes: c.max_nodes(),
            event_id_max: c.event_id_max_value(),
            created: c.notifier_created_event().map(|e| e.as_value()),
            dropped: c.notifier_dropped_event().map(|e| e.as_value()),
            dead: c.notifier_dead_event().map(|e| e.as_value()),
            deadline: c.deadline().map(|d| (d.as_secs(), d.subsec_nanos())),
        }
    }

    fn counts(&self) -> (usize, usize) {
        let d = self.f.dynamic_config();
        (d.number_of_notifiers(), d.number_of_listeners())
    }

    fn notifier(&self, default_id: Option<usize>) -> R<Box<dyn Notifier>> {
        let mut b = self.f.notifier_builder();
        if let Some(v) = default_id {
            b = b.default_event_id(EventId::new(v));
        }
        match b.create() {
            Ok(n) => Ok(Box::new(RNotifier::<S> { n })),
            Err(e) => Err(fail!("NotifierCreateError", e)),
        }
    }

    fn listener(&self) -> R<Box<dyn Listener>> {
        match self.f.listener_builder().create() {
            Ok(l) => Ok(Box::new(RListener::<S> { l })),
            Err(e) => Err(fail!("ListenerCreateError", e)),
        }
    }
}

struct RNotifier<S: Service> {
    n: IoxNotifier<S>,
}

impl<S: Service + 'static> Notifier for RNotifier<S> {
    fn side(&self) -> Side {
        Side::Rust
    }

    fn notify(&self) -> R<usize> {
        self.n.notify().map_err(|e| fail!("NotifierNotifyError", e))
    }

    fn notify_id(&self, id: usize) -> R<usize> {
        self.n.notify_with_custom_event_id(EventId::new(id)).map_err(|e| fail!("NotifierNotifyError", e))
    }
}

struct RListener<S: Service> {
    l: IoxListener<S>,
}

impl<S: Service + 'static> Listener for RListener<S> {
    fn side(&self) -> Side {
        Side::Rust
    }

    fn try_wait(&self) -> R<(u64, Vec<(usize, u64)>)> {
        let mut v = vec![];
        match self.l.try_wait(|a| v.push((a.id.as_value(), a.count))) {
            Ok(n) => Ok((n, v)),
            Err(e) => Err(fail!("ListenerWaitError", e)),
        }
    }
}
