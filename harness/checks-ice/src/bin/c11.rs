//! C11 — request-response: responses reach exactly the request they answer.
//!
//! Engine: `checks_ice::reqres` (reference model + interpreter, generic over `local` / `ipc`).
//! Parts:
//!  * `exhaustive.local` (and, thorough tier, `exhaustive.deep` = one op longer on 4 configurations)
//!    — one client, one server, two overlapping requests: every applicable op
//!    sequence of length L over a 13-op alphabet, for a grid of 12 / 16 configurations and two prologues
//!    (fresh ports / ports whose channel ids have been cycled once so that the next request recycles
//!    a channel that still holds a response of an earlier request);
//!  * `random.local`, `random.ipc` — proptest histories of at most 80 ops over the full alphabet
//!    (ports created and dropped with live objects, loans, two clients x two servers), generator
//!    phrases provoke channel recycling ("respond, drop pending without reading, new request, read"),
//!    overlapping requests and responses after the pending response is gone;
//!  * `probe.*` — the minimal histories of the known findings (reported as KNOWN-FINDING while open);
//!  * `conc.threads` — perturbed real-thread part (`conc_threads/c11_conc.rs`): 1..2 client threads and
//!    1..2 server threads, every thread with its own node and port, act at the same time with seeded
//!    noise at the instrumented atomics; invariant-only oracle over the recorded logs (requests
//!    received exactly once / in order / only if sent, responses reach the request they answer,
//!    is_connected follows the server side, no failing call), see the module header.
//!
//! Oracle (DESIGN C11 "O", per op, see `reqres::model` for the documented semantics and the
//! relaxations R1-R6): (1) `Server::receive` yields every request at most once, only requests that
//! were delivered to this server, per client in send order, skipping exactly those whose pending
//! response is gone (no fire-and-forget); (2) `PendingResponse::receive` yields only responses whose
//! payload names that very request and whose header carries its request id and the right server, the
//! oldest queued one of a stream, never twice; overflow keeps the newest, no overflow discards the
//! new one; (3) `is_connected` on both ends follows the drops; a response sent after the pending
//! response is gone is received by nobody; (4) a request on a recycled channel never receives
//! responses of the earlier request and its own responses are not lost to them; (5)
//! `ExceedsMaxActiveRequests`, `ExceedsMaxLoans`, `ExceedsMaxBorrows` (both sides),
//! `ExceedsMaxSupportedClients/Servers` exactly at the limits; plus channel ids are exclusive among
//! the live requests of a client, payload canaries, loan addresses, no `OutOfMemory`, no leftovers.
extern crate iceoryx2_bb_loggers;

use checks_ice::reqres::interp::{Open, Opts};
use checks_ice::reqres::sim::enumerate_sequences;
use checks_ice::reqres::types::*;
use checks_ice::reqres::{Excl, RunOpts, Variant, model, policy, run_case};
use vcore::{Ctx, Obs, Spec};

#[path = "conc_threads/c11_conc.rs"]
mod conc;

const SPEC: Spec = Spec {
    prop: "C11",
    level: "exploration",
    rule: "histories over the request-response API (create/drop client and server, loan/send request, server receive, loan/send response, pending-response receive, drop of response / pending response / active request, is_connected, has_response, has_requests) for max_clients 1..2 x max_servers 1..2 x max_active_requests 1..3 x response buffer 1..3 x borrow 1..2 x overflow(req,resp) x fire-and-forget x loan limits; bounded-exhaustive part: 1 client, 1 server, 2 overlapping requests, all applicable sequences of length L over 13 ops x 16 configurations x 2 prologues (fresh / channel ids cycled once); random part: proptest histories <= 80 ops with phrases that recycle channels while responses are queued; oracle = reference model compared with the return value of every op. Non-trivial = a channel id was taken by a new request while a response of its previous request was still queued in it, or >= 2 requests of one client overlapped. Distinct = hash of (part, configuration, op sequence). conc.threads: a case = (local|ipc, QoS record as above, 1..2 client threads x 1..2 server threads each owning its node and port, all ports created before the start barrier, discipline Held (pending response kept until is_connected() is false and receive() is drained) or Forget (fire-and-forget: dropped right after send, no responses), requests per client 20..60 (thorough 20..200), 0..k responses per request, hold windows for active requests and responses, DiscardData or blocking RetryUntilDelivered, noise level 0..3 at the instrumented atomics, seed); oracle = invariants over the recorded logs after a quiescence protocol, nothing depends on time; non-trivial = a server receive overlapped a client send (counter of sends in progress read when the receive returned) and >= 2 requests were in flight at the same time.",
    assumptions: &[
        "exhaustive / random / probe parts: single-threaded histories; ports use BackpressureStrategy::DiscardData (the blocking strategy cannot be driven from one thread)",
        "conc.threads: real threads, not bit-reproducible (a replay runs the case up to 30 times); pending responses are only dropped drained and disconnected, so the open finding rr.recycled_channel_not_clean is not triggered; ports neither appear nor vanish during a run; a case that does not finish within 240 s (normal: well under a second) makes the run inconclusive, never a violation",
        "order in which receive serves several connections is unspecified (R1); borrow limit per (pending response, server) stream or per pending response (R2); PendingResponse::is_connected unspecified while a server never got the request into its hands (R3)",
        "inputs that run into an open known finding are left out op by op and counted (excluded_by_known_finding); the probe parts keep the findings visible",
    ],
    watchdog_quick_s: 1800,
    watchdog_thorough_s: 14400,
};

fn ro() -> RunOpts {
    RunOpts { opts: Opts { address_probe: true, canary: true, check_log: false, recheck_after_limit: false }, final_probe: false, probe_cycles: 0 }
}

fn exhaustive(ctx: &mut Ctx, open: &Open, part: &str, len: usize, sub_grid: bool) {
    let alphabet = vec![
        Op::SendRequest(0),
        Op::ServerReceive(0),
        Op::SendResponse(0),
        Op::SendResponse(LAST),
        Op::PrReceive(0),
        Op::PrReceive(LAST),
        Op::DropPending(0),
        Op::DropPending(LAST),
        Op::DropActive(0),
        Op::DropActive(LAST),
        Op::DropResponse(0),
        Op::IsConnectedPr(LAST),
        Op::IsConnectedAr(0),
    ];
    let fresh = vec![Op::CreateServer, Op::CreateClient];
    // 5 channel ids (2 * 2 + 1): after this prologue the next request takes channel 0 again, which
    // still holds the unread response of the first request
    let mut cycled = fresh.clone();
    cycled.extend([Op::SendRequest(0), Op::ServerReceive(0), Op::SendResponse(0), Op::DropPending(0), Op::DropActive(0)]);
    for _ in 0..4 {
        cycled.extend([Op::SendRequest(0), Op::DropPending(0)]);
    }
    let mut grid = vec![];
    for buf in [1usize, 2] {
        for borrow in [1usize, 2] {
            // quick tier: a borrow limit above the buffer size adds nothing new
            if (ctx.quick() || sub_grid) && borrow > buf {
                continue;
            }
            for resp_overflow in [false, true] {
                for faf in [false, true] {
                    if sub_grid && (faf || borrow > 1) {
                        continue;
                    }
                    grid.push(Cfg { max_clients: 1, max_servers: 1, max_active: 2, buf, borrow, req_overflow: true, resp_overflow, faf, loan_req: 1, loan_resp: 1 });
                }
            }
        }
    }
    let ncfg = grid.len();
    let open2 = open.clone();
    let cases = grid.into_iter().flat_map(move |cfg| {
        let o = open2.clone();
        let a = alphabet.clone();
        [fresh.clone(), cycled.clone()].into_iter().flat_map(move |pro| {
            let cfg2 = cfg.clone();
            let pro2 = pro.clone();
            enumerate_sequences(&cfg, &o, &pro, &a, len).map(move |seq| {
                let mut ops = pro2.clone();
                ops.extend(seq);
                Case { cfg: cfg2.clone(), ops, teardown: Teardown::ObjectsFirst }
            })
        })
    });
    let excl = Excl::default();
    let r = ro();
    ctx.enumerate(
        part,
        &format!("all applicable op sequences of length {len} (every prefix checked) over a 13-op alphabet, 1 client x 1 server x 2 overlapping requests, {ncfg} configurations x 2 prologues"),
        cases,
        |case: &Case, obs: &mut Obs| {
            let s = run_case(Variant::Local, case, &r, open, obs)?;
            excl.add(&s);
            obs.nontrivial = s.nt_c11;
            Ok(())
        },
    );
    excl.file(ctx);
}

fn random(ctx: &mut Ctx, open: &Open) {
    for (part, variant, total, max_ops) in [("random.local", Variant::Local, ctx.scale(4000u64, 80_000), 80usize), ("random.ipc", Variant::Ipc, ctx.scale(400u64, 12_000), 60)] {
        let excl = Excl::default();
        let r = ro();
        ctx.proptest(part, total, case_strategy(max_ops), |case, obs| {
            let s = run_case(variant, case, &r, open, obs)?;
            excl.add(&s);
            obs.nontrivial = s.nt_c11;
            Ok(())
        });
        excl.file(ctx);
    }
}

fn probes(ctx: &mut Ctx) {
    type Probe = fn(&mut Obs) -> Option<String>;
    let list: [(&str, &str, Probe); 5] = [
        ("probe.recycled", model::F_RECYCLED, policy::probe_recycled),
        ("probe.cross", model::F_CROSS, policy::probe_cross),
        ("probe.expired", model::F_EXPIRED, policy::probe_expired),
        ("probe.leaked_borrow", model::F_LEAKED_BORROW, policy::probe_leaked_borrow),
        ("probe.connected_expired", model::F_CONNECTED_EXPIRED, policy::probe_connected_expired),
    ];
    for (part, sig, f) in list {
        if !ctx.part_enabled(part) || ctx.worker != 0 {
            continue;
        }
        let mut obs = Obs::default();
        let seen = f(&mut obs);
        ctx.record(part, 1, &obs, || serde_json::json!("fixed scenario"));
        ctx.probe_finding(part, sig, seen, serde_json::json!(format!("fixed scenario, see checks_ice::reqres::policy::{}", part.replace('.', "_"))));
    }
}

fn body(ctx: &mut Ctx) {
    checks_ice::silence_iceoryx_log();
    // development switch: run the request-response parts of C02 / C08 through this binary
    match std::env::var("RR_PARTS").as_deref() {
        Ok("c02") => return checks_ice::reqres::c02_parts(ctx),
        Ok("c08") => return checks_ice::reqres::c08_parts(ctx),
        _ => {}
    }
    let open = Open::load();
    probes(ctx);
    let len = ctx.scale(5usize, 6);
    exhaustive(ctx, &open, "exhaustive.local", len, false);
    if !ctx.quick() {
        exhaustive(ctx, &open, "exhaustive.deep", 7, true);
    }
    random(ctx, &open);
    conc::part(ctx);
}

fn main() {
    vcore::main(SPEC, body);
}
