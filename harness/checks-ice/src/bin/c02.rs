//! C02 — zero-copy sample lifetime: no reuse while referenced, no leak after.
//!
//! Same interpreter and reference model as C01 (`checks_ice::pubsub`), generator biased towards
//! *holding* (receive without drop, loan without send), dropping ports under live samples and
//! services with history, plus the three probes of DESIGN C02:
//!  (1) canary stability — every held `Sample` (and every unsent loan) is re-read after every later
//!      op and must still carry its tag + checksum bytes, as long as the model counts it as a
//!      reference (`canary.sample`, `canary.loan`);
//!  (2) no double hand-out — whenever a loan is obtained its chunk address must not be the address
//!      of an unsent loan, a history entry, a queued entry of a connection or a held sample of the
//!      same publisher (`loan.double_handout`; addresses are known for everything that was sent
//!      through a loan, `send_copy` is therefore executed as loan + write + send here);
//!  (3) conservation — at generated points (`Op::Probe`) and always at the end (after dropping all
//!      samples and subscribers and one `update_connections`) loan-to-exhaustion must yield exactly
//!      `max_loaned_samples` minus the outstanding loans, and `LoanError::OutOfMemory` must never
//!      occur anywhere (`probe.conservation`, `loan.out_of_memory`). At the end every object is
//!      dropped and the domain must be empty (`leftovers`).
//!
//! Relaxation (DESIGN C02 "Allowed"): a `Sample` that outlives its `Subscriber` stops being a
//! reference once the publisher has refreshed its connections (the publisher reclaims what a
//! vanished subscriber owned, `publisher_reclaims_all_samples_after_disconnect`); the model ends
//! the canary check of such a sample at that refresh (class
//! `sample_reference_ended_by_publisher_refresh`). Everything else of C01's relaxations applies.
extern crate iceoryx2_bb_loggers;

use checks_ice::pubsub::interp::Opts;
use checks_ice::pubsub::types::*;
use checks_ice::pubsub::{RunOpts, Variant, cases, logcap, run_case};
use proptest::prelude::*;
use vcore::{Ctx, Failure, Obs, Spec};

const SPEC: Spec = Spec {
    prop: "C02",
    level: "exploration",
    rule: "histories over the C01 alphabet plus a loan-to-exhaustion probe op, generator biased towards holding samples and loans, dropping publishers/subscribers with live samples, history > 0 and small chunk pools (max_subscribers 1..2, buffer 1..3, borrow 1..2) so that pool exhaustion is within reach; probes: canary re-read of every model-live sample and loan after every op, address of every new loan not among the addresses of model-live references of that publisher, loan-to-exhaustion = max_loaned_samples at generated points and at the end, OutOfMemory never, no leftovers after dropping everything. Non-trivial = at least one chunk address was handed out a second time while an older sample of that publisher was still held (and still a reference). Distinct = hash of (part, QoS record, op sequence).",
    assumptions: &[
        "single-threaded histories (overflow racing a release on real threads is C03's domain)",
        "a Sample that outlives its Subscriber is no longer a reference after the publisher's next connection refresh (documented reclaim)",
        "request/response payloads are covered by checks_ice::reqres::c02_parts",
    ],
    watchdog_quick_s: 3600,
    watchdog_thorough_s: 28800,
};

fn run(variant: Variant, case: &Case, obs: &mut Obs) -> Result<(), Failure> {
    let ro = RunOpts { opts: Opts { address_probe: true, send_copy_via_loan: true, check_log: true, tolerate_known_order_defect: true }, final_probe: true };
    let sum = run_case(variant, case, &ro, obs)?;
    obs.nontrivial = sum.reuse_while_held > 0;
    Ok(())
}

/// small pools, history mostly on
fn small_svc() -> impl Strategy<Value = SvcCfg> {
    (1usize..=3, 1usize..=2, 1usize..=3, prop_oneof![1 => Just(0usize), 3 => 1usize..=3], 1usize..=2, any::<bool>(), prop::bool::weighted(0.3)).prop_map(
        |(max_pubs, max_subs, max_buf, hist, max_borrow, overflow, slice)| {
            let hist = if overflow { hist } else { hist.min(max_buf) };
            SvcCfg { max_pubs, max_subs, max_buf, hist, max_borrow, overflow, slice }
        },
    )
}

fn holding_case(max_ops: usize) -> impl Strategy<Value = Case> {
    (small_svc(), case_strategy(Weights::HOLDING, max_ops)).prop_map(|(svc, mut c)| {
        c.svc = svc;
        c
    })
}

fn body(ctx: &mut Ctx) {
    checks_ice::silence_iceoryx_log();
    logcap::install();
    let max_ops = ctx.scale(70, 200);
    let n_local = ctx.scale(60_000, 400_000);
    ctx.proptest("hold.local", cases(n_local), holding_case(max_ops), |c, obs| run(Variant::Local, c, obs));
    let n_ipc = ctx.scale(4_000, 40_000);
    ctx.proptest("hold.ipc", cases(n_ipc), holding_case(max_ops), |c, obs| run(Variant::Ipc, c, obs));
    logcap::uninstall_level();
    checks_ice::reqres::c02_parts(ctx);
}

fn main() {
    vcore::main(SPEC, body);
}
