//! The object graphs of the four messaging patterns: built in creation order, any object can be
//! dropped at any time (every object sits in an `Option`), and a survivor probe that exercises
//! whatever is still alive and demands only what is documented for that situation.

use iceoryx2::active_request::ActiveRequest;
use iceoryx2::config::Config;
use iceoryx2::pending_response::PendingResponse;
use iceoryx2::port::client::Client;
use iceoryx2::port::listener::Listener;
use iceoryx2::port::notifier::Notifier;
use iceoryx2::port::publisher::Publisher;
use iceoryx2::port::reader::{EntryHandle, Reader};
use iceoryx2::port::server::Server;
use iceoryx2::port::subscriber::Subscriber;
use iceoryx2::port::writer::{EntryHandleMut, EntryHandleMutError, EntryValueUninit, Writer, WriterCreateError};
use iceoryx2::prelude::*;
use iceoryx2::request_mut::RequestMut;
use iceoryx2::response::Response;
use iceoryx2::response_mut::ResponseMut;
use iceoryx2::sample::Sample;
use iceoryx2::sample_mut::SampleMut;
use iceoryx2::service::port_factory::{blackboard, event, publish_subscribe, request_response};
use serde::{Deserialize, Serialize};
use std::sync::atomic::{AtomicU64, Ordering};
use vcore::{Failure, ensure, fail};

#[derive(Clone, Copy, Debug, PartialEq, Eq, Serialize, Deserialize)]
pub enum Pattern {
    PubSub,
    PubSub2,
    Event,
    Event2,
    ReqRes,
    Blackboard,
}

impl Pattern {
    pub fn name(self) -> &'static str {
        match self {
            Pattern::PubSub => "pubsub",
            Pattern::PubSub2 => "pubsub2",
            Pattern::Event => "event",
            Pattern::Event2 => "event2",
            Pattern::ReqRes => "reqres",
            Pattern::Blackboard => "blackboard",
        }
    }

    /// the objects in creation order
    pub fn names(self) -> &'static [&'static str] {
        match self {
            Pattern::PubSub => &["node", "service", "publisher", "subscriber", "sample_mut", "sample"],
            Pattern::PubSub2 => &["node", "service", "publisher", "node2", "service2", "subscriber", "sample_mut", "sample"],
            Pattern::Event => &["node", "service", "notifier", "listener"],
            Pattern::Event2 => &["node", "service", "notifier", "node2", "service2", "listener"],
            Pattern::ReqRes => &[
                "node",
                "service",
                "client",
                "server",
                "request_mut",
                "pending_response",
                "active_request",
                "response_mut",
                "response",
            ],
            Pattern::Blackboard => &["node", "service", "writer", "reader", "entry_handle_mut", "entry_handle", "entry_value_uninit"],
        }
    }

    /// direct owners of every object (the first one is the object it was created from)
    pub fn parents(self) -> &'static [&'static [usize]] {
        match self {
            Pattern::PubSub => &[&[], &[0], &[1], &[1], &[2], &[3, 2]],
            Pattern::PubSub2 => &[&[], &[0], &[1], &[], &[3], &[4], &[2], &[5, 2]],
            Pattern::Event => &[&[], &[0], &[1], &[1]],
            Pattern::Event2 => &[&[], &[0], &[1], &[], &[3], &[4]],
            Pattern::ReqRes => &[&[], &[0], &[1], &[1], &[2], &[2], &[3, 2], &[6], &[5, 3]],
            Pattern::Blackboard => &[&[], &[0], &[1], &[1], &[2], &[3], &[2]],
        }
    }

    pub fn is_node(self, i: usize) -> bool {
        self.parents()[i].is_empty()
    }

    /// the node whose shared state object `i` keeps alive
    pub fn node_of(self, mut i: usize) -> usize {
        while let Some(p) = self.parents()[i].first() {
            i = *p;
        }
        i
    }

    /// is `a` a (transitive) owner of `d`?
    pub fn owns(self, a: usize, d: usize) -> bool {
        self.parents()[d].iter().any(|p| *p == a || self.owns(a, *p))
    }
}

// ------------------------------------------------------------------------------------------
// tagged payloads
// ------------------------------------------------------------------------------------------

pub type P = [u64; 4];

static TAG: AtomicU64 = AtomicU64::new(0x1000);

pub fn next_tag() -> P {
    let n = TAG.fetch_add(1, Ordering::Relaxed);
    [n, !n, n.wrapping_mul(0x9E37_79B9_7F4A_7C15), 0xC17C_17C1_7C17_C17C]
}

/// reads a payload that may legitimately have been recycled: only the access itself is checked
/// the address of a held payload is computed from the object, not read: probing it first turns "the memory
/// behind an object that is still alive was unmapped" into a reported failure instead of a dead worker
fn still_mapped(addr: usize, sig: &'static str, what: &str) -> Result<(), Failure> {
    ensure!(vcore::util::mapped(addr, core::mem::size_of::<P>()), sig, "the payload of the {what} at {addr:#x} is not mapped any more although the object is still alive");
    Ok(())
}

fn touch(p: &P) {
    let v = unsafe { std::ptr::read_volatile(p as *const P) };
    std::hint::black_box(v);
}

fn node_of<S: Service>(cfg: &Config, ids: &mut Vec<u128>) -> Result<Node<S>, Failure> {
    match NodeBuilder::new().config(cfg).create::<S>() {
        Ok(n) => {
            ids.push(n.id().value());
            Ok(n)
        }
        Err(e) => fail!("build.node", "node creation failed: {e:?}"),
    }
}

macro_rules! must {
    ($e:expr, $sig:expr, $what:expr) => {
        match $e {
            Ok(v) => v,
            Err(e) => return Err(Failure::new($sig, format!("{}: {:?}", $what, e))),
        }
    };
}

/// What a graph offers to the generic runner.
pub trait Graph<S: Service>: Sized {
    fn build(p: Pattern, cfg: &Config, name: &ServiceName) -> Result<Self, Failure>;
    /// drops the object with that name (exactly that object; everything else stays)
    fn drop_obj(&mut self, name: &str);
    /// exercises everything that is alive
    fn probe(&mut self) -> Result<(), Failure>;
    /// after everything is gone: the same name with different settings, used once, dropped
    fn recreate(cfg: &Config, name: &ServiceName, ids: &mut Vec<u128>) -> Result<(), Failure>;
    fn node_ids(&self) -> Vec<u128>;
}

// ------------------------------------------------------------------------------------------
// publish-subscribe
// ------------------------------------------------------------------------------------------

pub struct PubSub<S: Service> {
    node: Option<Node<S>>,
    service: Option<publish_subscribe::PortFactory<S, P, ()>>,
    publisher: Option<Publisher<S, P, ()>>,
    node2: Option<Node<S>>,
    service2: Option<publish_subscribe::PortFactory<S, P, ()>>,
    subscriber: Option<Subscriber<S, P, ()>>,
    sample_mut: Option<SampleMut<S, P, ()>>,
    sample: Option<Sample<S, P, ()>>,
    sample_tag: P,
    /// false once the publisher was active after the subscriber of the held sample went away:
    /// the publisher then counts the sample as returned and may recycle the chunk
    sample_is_reference: bool,
    ids: Vec<u128>,
}

impl<S: Service> Graph<S> for PubSub<S> {
    fn build(p: Pattern, cfg: &Config, name: &ServiceName) -> Result<Self, Failure> {
        let mut ids = vec![];
        let node = node_of::<S>(cfg, &mut ids)?;
        let service = must!(
            node.service_builder(name)
                .publish_subscribe::<P>()
                .max_publishers(2)
                .max_subscribers(3)
                .max_nodes(3)
                .history_size(0)
                .subscriber_max_buffer_size(3)
                .subscriber_max_borrowed_samples(3)
                .create(),
            "build.service",
            "pub-sub service creation"
        );
        let publisher = must!(service.publisher_builder().max_loaned_samples(3).create(), "build.port", "publisher creation");
        let (node2, service2) = if p == Pattern::PubSub2 {
            let n2 = node_of::<S>(cfg, &mut ids)?;
            let s2 = must!(n2.service_builder(name).publish_subscribe::<P>().open(), "build.service", "opening the service on node2");
            (Some(n2), Some(s2))
        } else {
            (None, None)
        };
        let subscriber = must!(service2.as_ref().unwrap_or(&service).subscriber_builder().create(), "build.port", "subscriber creation");
        let sample_tag = next_tag();
        let n = must!(publisher.send_copy(sample_tag), "build.send", "first send");
        ensure!(n == 1, "pubsub.probe.delivery", "first send reached {n} subscribers instead of 1");
        let sample = match must!(subscriber.receive(), "build.receive", "first receive") {
            Some(s) => s,
            None => fail!("pubsub.probe.delivery", "the first sample did not arrive"),
        };
        let sample_mut = must!(publisher.loan_uninit(), "build.loan", "loan").write_payload(next_tag());
        Ok(PubSub {
            node: Some(node),
            service: Some(service),
            publisher: Some(publisher),
            node2,
            service2,
            subscriber: Some(subscriber),
            sample_mut: Some(sample_mut),
            sample: Some(sample),
            sample_tag,
            sample_is_reference: true,
            ids,
        })
    }

    fn drop_obj(&mut self, name: &str) {
        match name {
            "node" => drop(self.node.take()),
            "service" => drop(self.service.take()),
            "publisher" => drop(self.publisher.take()),
            "node2" => drop(self.node2.take()),
            "service2" => drop(self.service2.take()),
            "subscriber" => drop(self.subscriber.take()),
            "sample_mut" => drop(self.sample_mut.take()),
            "sample" => drop(self.sample.take()),
            _ => unreachable!("unknown object {name}"),
        }
    }

    fn probe(&mut self) -> Result<(), Failure> {
        // the service handles: counters of the dynamic config and a temporary port
        for svc in [&self.service, &self.service2].into_iter().flatten() {
            let dc = svc.dynamic_config();
            let (np, ns) = (dc.number_of_publishers(), dc.number_of_subscribers());
            ensure!(
                np == self.publisher.is_some() as usize && ns == self.subscriber.is_some() as usize,
                "pubsub.probe.dynamic_config",
                "dynamic config counts {np} publishers / {ns} subscribers, alive are {} / {}",
                self.publisher.is_some() as usize,
                self.subscriber.is_some() as usize
            );
            let tmp = must!(svc.subscriber_builder().create(), "pubsub.probe.factory", "a service handle that is alive cannot create a subscriber");
            drop(tmp);
        }
        match (&self.publisher, &self.subscriber) {
            (Some(p), Some(s)) => {
                let t = next_tag();
                let n = must!(p.send_copy(t), "pubsub.probe.delivery", "send_copy with publisher and subscriber alive");
                ensure!(n == 1, "pubsub.probe.delivery", "send_copy reached {n} subscribers, one is alive");
                match must!(s.receive(), "pubsub.probe.delivery", "receive with publisher and subscriber alive") {
                    Some(x) => ensure!(*x == t, "pubsub.probe.delivery", "received {:?}, sent {:?}", *x, t),
                    None => fail!("pubsub.probe.delivery", "the tagged message did not arrive"),
                }
                let again = must!(s.receive(), "pubsub.probe.delivery", "second receive");
                ensure!(again.is_none(), "pubsub.probe.delivery", "a message arrived that nobody sent");
            }
            (Some(p), None) => {
                let n = must!(p.send_copy(next_tag()), "pubsub.probe.publisher_alone", "send_copy without subscriber");
                ensure!(n == 0, "pubsub.probe.publisher_alone", "send_copy reached {n} subscribers, none is alive");
                self.sample_is_reference = false;
            }
            (None, Some(s)) => {
                let r = must!(s.receive(), "pubsub.probe.subscriber_alone", "receive without publisher");
                ensure!(r.is_none(), "pubsub.probe.subscriber_alone", "a message arrived that nobody sent");
            }
            (None, None) => {}
        }
        if let Some(s) = &self.sample {
            // the address of the payload is computed from the sample, not read: probe before touching, so
            // that "the memory of a sample that is still alive was unmapped" is a reported failure and
            // not the death of the worker
            let addr = s.payload() as *const P as usize;
            ensure!(
                vcore::util::mapped(addr, core::mem::size_of::<P>()),
                "pubsub.probe.sample_unmapped",
                "the payload of the held sample at {addr:#x} is not mapped any more although the sample is still alive"
            );
            if self.sample_is_reference {
                ensure!(**s == self.sample_tag, "pubsub.probe.sample_payload", "held sample reads {:?}, expected {:?}", **s, self.sample_tag);
            } else {
                touch(s.payload());
            }
        }
        if let Some(sm) = &mut self.sample_mut {
            let t = next_tag();
            *sm.payload_mut() = t;
            ensure!(*sm.payload() == t, "pubsub.probe.sample_mut_payload", "loaned sample does not hold what was written");
        }
        Ok(())
    }

    fn recreate(cfg: &Config, name: &ServiceName, ids: &mut Vec<u128>) -> Result<(), Failure> {
        let node = node_of::<S>(cfg, ids)?;
        // different payload type, different limits
        let service = must!(
            node.service_builder(name).publish_subscribe::<u16>().max_publishers(1).max_subscribers(1).history_size(1).create(),
            "pubsub.recreate",
            "the same service name cannot be created again with different settings"
        );
        let p = must!(service.publisher_builder().create(), "pubsub.recreate", "publisher on the re-created service");
        let s = must!(service.subscriber_builder().create(), "pubsub.recreate", "subscriber on the re-created service");
        let n = must!(p.send_copy(4711), "pubsub.recreate", "send on the re-created service");
        let got = must!(s.receive(), "pubsub.recreate", "receive on the re-created service").map(|x| *x);
        ensure!(n == 1 && got == Some(4711), "pubsub.recreate", "re-created service delivered {got:?} to {n} subscribers");
        Ok(())
    }

    fn node_ids(&self) -> Vec<u128> {
        self.ids.clone()
    }
}

// ------------------------------------------------------------------------------------------
// event
// ------------------------------------------------------------------------------------------

const DROPPED_EVENT: usize = 7;

pub struct Ev<S: Service> {
    node: Option<Node<S>>,
    service: Option<event::PortFactory<S>>,
    notifier: Option<Notifier<S>>,
    node2: Option<Node<S>>,
    service2: Option<event::PortFactory<S>>,
    listener: Option<Listener<S>>,
    /// the notifier was dropped while the listener was alive: its dropped-event must arrive
    expect_dropped_event: bool,
    next_id: usize,
    ids: Vec<u128>,
}

fn drain<S: Service>(l: &Listener<S>) -> Result<Vec<(usize, u64)>, Failure> {
    let mut v = vec![];
    must!(l.try_wait(|a| v.push((a.id.as_value(), a.count))), "event.probe.try_wait", "try_wait of a listener that is alive");
    v.sort();
    Ok(v)
}

impl<S: Service> Graph<S> for Ev<S> {
    fn build(p: Pattern, cfg: &Config, name: &ServiceName) -> Result<Self, Failure> {
        let mut ids = vec![];
        let node = node_of::<S>(cfg, &mut ids)?;
        let service = must!(
            node.service_builder(name)
                .event()
                .max_notifiers(2)
                .max_listeners(3)
                .max_nodes(3)
                .event_id_max_value(15)
                .disable_deadline()
                .disable_notifier_created_event()
                .disable_notifier_dead_event()
                .notifier_dropped_event(EventId::new(DROPPED_EVENT))
                .create(),
            "build.service",
            "event service creation"
        );
        let notifier = must!(service.notifier_builder().create(), "build.port", "notifier creation");
        let (node2, service2) = if p == Pattern::Event2 {
            let n2 = node_of::<S>(cfg, &mut ids)?;
            let s2 = must!(n2.service_builder(name).event().open(), "build.service", "opening the event service on node2");
            (Some(n2), Some(s2))
        } else {
            (None, None)
        };
        let listener = must!(service2.as_ref().unwrap_or(&service).listener_builder().create(), "build.port", "listener creation");
        Ok(Ev { node: Some(node), service: Some(service), notifier: Some(notifier), node2, service2, listener: Some(listener), expect_dropped_event: false, next_id: 0, ids })
    }

    fn drop_obj(&mut self, name: &str) {
        match name {
            "node" => drop(self.node.take()),
            "service" => drop(self.service.take()),
            "notifier" => {
                self.expect_dropped_event = self.listener.is_some();
                drop(self.notifier.take())
            }
            "node2" => drop(self.node2.take()),
            "service2" => drop(self.service2.take()),
            "listener" => drop(self.listener.take()),
            _ => unreachable!("unknown object {name}"),
        }
    }

    fn probe(&mut self) -> Result<(), Failure> {
        // first what is pending from a dropped notifier, so the temporary listener below
        // and the notification probe see an empty channel
        if let Some(l) = &self.listener {
            let got = drain(l)?;
            if self.expect_dropped_event {
                ensure!(
                    got == vec![(DROPPED_EVENT, 1)],
                    "event.probe.dropped_event",
                    "after the notifier was dropped the listener received {got:?}, expected the notifier_dropped_event once"
                );
                self.expect_dropped_event = false;
            } else {
                ensure!(got.is_empty(), "event.probe.phantom", "listener received {got:?} although nothing was sent");
            }
        }
        for svc in [&self.service, &self.service2].into_iter().flatten() {
            let dc = svc.dynamic_config();
            let (nn, nl) = (dc.number_of_notifiers(), dc.number_of_listeners());
            ensure!(
                nn == self.notifier.is_some() as usize && nl == self.listener.is_some() as usize,
                "event.probe.dynamic_config",
                "dynamic config counts {nn} notifiers / {nl} listeners, alive are {} / {}",
                self.notifier.is_some() as usize,
                self.listener.is_some() as usize
            );
            let tmp = must!(svc.listener_builder().create(), "event.probe.factory", "a service handle that is alive cannot create a listener");
            drop(tmp);
        }
        self.next_id = (self.next_id + 1) % DROPPED_EVENT;
        let id = self.next_id;
        match (&self.notifier, &self.listener) {
            (Some(n), Some(l)) => {
                let k = must!(n.notify_with_custom_event_id(EventId::new(id)), "event.probe.delivery", "notify with notifier and listener alive");
                ensure!(k == 1, "event.probe.delivery", "notify reached {k} listeners, one is alive");
                let got = drain(l)?;
                ensure!(got == vec![(id, 1)], "event.probe.delivery", "notified id {id} once, listener received {got:?}");
            }
            (Some(n), None) => {
                let k = must!(n.notify_with_custom_event_id(EventId::new(id)), "event.probe.notifier_alone", "notify without listener");
                ensure!(k == 0, "event.probe.notifier_alone", "notify reached {k} listeners, none is alive");
            }
            _ => {}
        }
        Ok(())
    }

    fn recreate(cfg: &Config, name: &ServiceName, ids: &mut Vec<u128>) -> Result<(), Failure> {
        let node = node_of::<S>(cfg, ids)?;
        let service = must!(
            node.service_builder(name).event().max_notifiers(1).max_listeners(1).event_id_max_value(3).disable_notifier_dropped_event().create(),
            "event.recreate",
            "the same service name cannot be created again with different settings"
        );
        let l = must!(service.listener_builder().create(), "event.recreate", "listener on the re-created service");
        let n = must!(service.notifier_builder().create(), "event.recreate", "notifier on the re-created service");
        let k = must!(n.notify_with_custom_event_id(EventId::new(3)), "event.recreate", "notify on the re-created service");
        let got = drain(&l)?;
        ensure!(k == 1 && got == vec![(3, 1)], "event.recreate", "re-created service delivered {got:?} to {k} listeners");
        Ok(())
    }

    fn node_ids(&self) -> Vec<u128> {
        self.ids.clone()
    }
}

// ------------------------------------------------------------------------------------------
// request-response
// ------------------------------------------------------------------------------------------

pub struct ReqRes<S: Service> {
    node: Option<Node<S>>,
    service: Option<request_response::PortFactory<S, P, (), P, ()>>,
    client: Option<Client<S, P, (), P, ()>>,
    server: Option<Server<S, P, (), P, ()>>,
    request_mut: Option<RequestMut<S, P, (), P, ()>>,
    pending_response: Option<PendingResponse<S, P, (), P, ()>>,
    active_request: Option<ActiveRequest<S, P, (), P, ()>>,
    response_mut: Option<ResponseMut<S, P, ()>>,
    response: Option<Response<S, P, ()>>,
    request_tag: P,
    response_tag: P,
    ids: Vec<u128>,
}

impl<S: Service> Graph<S> for ReqRes<S> {
    fn build(_p: Pattern, cfg: &Config, name: &ServiceName) -> Result<Self, Failure> {
        let mut ids = vec![];
        let node = node_of::<S>(cfg, &mut ids)?;
        let service = must!(
            node.service_builder(name)
                .request_response::<P, P>()
                .max_clients(2)
                .max_servers(2)
                .max_nodes(3)
                .max_active_requests_per_client(4)
                .max_loaned_requests(3)
                .max_response_buffer_size(4)
                .max_borrowed_responses_per_pending_response(3)
                .create(),
            "build.service",
            "request-response service creation"
        );
        let client = must!(service.client_builder().create(), "build.port", "client creation");
        let server = must!(service.server_builder().max_loaned_responses_per_request(3).create(), "build.port", "server creation");
        let request_mut = must!(client.loan_uninit(), "build.loan", "request loan").write_payload(next_tag());
        let request_tag = next_tag();
        let pending_response = must!(client.send_copy(request_tag), "build.send", "first request");
        let active_request = match must!(server.receive(), "build.receive", "first server receive") {
            Some(a) => a,
            None => fail!("reqres.probe.round_trip", "the first request did not arrive at the server"),
        };
        ensure!(*active_request == request_tag, "reqres.probe.round_trip", "first request arrived as {:?}", *active_request);
        let response_mut = must!(active_request.loan_uninit(), "build.loan", "response loan").write_payload(next_tag());
        let response_tag = next_tag();
        must!(active_request.send_copy(response_tag), "build.send", "first response");
        let response = match must!(pending_response.receive(), "build.receive", "first client receive") {
            Some(r) => r,
            None => fail!("reqres.probe.round_trip", "the first response did not arrive at the client"),
        };
        ensure!(*response == response_tag, "reqres.probe.round_trip", "first response arrived as {:?}", *response);
        Ok(ReqRes {
            node: Some(node),
            service: Some(service),
            client: Some(client),
            server: Some(server),
            request_mut: Some(request_mut),
            pending_response: Some(pending_response),
            active_request: Some(active_request),
            response_mut: Some(response_mut),
            response: Some(response),
            request_tag,
            response_tag,
            ids,
        })
    }

    fn drop_obj(&mut self, name: &str) {
        match name {
            "node" => drop(self.node.take()),
            "service" => drop(self.service.take()),
            "client" => drop(self.client.take()),
            "server" => drop(self.server.take()),
            "request_mut" => drop(self.request_mut.take()),
            "pending_response" => drop(self.pending_response.take()),
            "active_request" => drop(self.active_request.take()),
            "response_mut" => drop(self.response_mut.take()),
            "response" => drop(self.response.take()),
            _ => unreachable!("unknown object {name}"),
        }
    }

    fn probe(&mut self) -> Result<(), Failure> {
        // A client (server) stays connected as long as the port or one of the objects made from
        // it is alive (conformance: keeps_being_connected_when_client_goes_out_of_scope).
        let client_side = self.client.is_some() || self.request_mut.is_some() || self.pending_response.is_some() || self.response.is_some();
        let server_side = self.server.is_some() || self.active_request.is_some() || self.response_mut.is_some();
        if let Some(svc) = &self.service {
            let dc = svc.dynamic_config();
            let (nc, ns) = (dc.number_of_clients(), dc.number_of_servers());
            ensure!(
                nc >= self.client.is_some() as usize && nc <= client_side as usize && ns >= self.server.is_some() as usize && ns <= server_side as usize,
                "reqres.probe.dynamic_config",
                "dynamic config counts {nc} clients / {ns} servers; client port alive {}, client side alive {client_side}, server port alive {}, server side alive {server_side}",
                self.client.is_some(),
                self.server.is_some()
            );
            let tmp = must!(svc.client_builder().create(), "reqres.probe.factory", "a service handle that is alive cannot create a client");
            drop(tmp);
        }
        // the established stream
        if let Some(pr) = &self.pending_response {
            still_mapped(&**pr as *const P as usize, "reqres.probe.pending_unmapped", "pending response (request payload)")?;
            ensure!(**pr == self.request_tag, "reqres.probe.pending_payload", "pending response shows request {:?}, sent {:?}", **pr, self.request_tag);
            ensure!(
                pr.is_connected() == self.active_request.is_some(),
                "reqres.probe.is_connected",
                "pending_response.is_connected() = {} while the active request is {}",
                pr.is_connected(),
                if self.active_request.is_some() { "alive" } else { "dropped" }
            );
        }
        if let Some(ar) = &self.active_request {
            still_mapped(&**ar as *const P as usize, "reqres.probe.active_unmapped", "active request")?;
            ensure!(**ar == self.request_tag, "reqres.probe.active_payload", "active request reads {:?}, sent {:?}", **ar, self.request_tag);
            ensure!(
                ar.is_connected() == self.pending_response.is_some(),
                "reqres.probe.is_connected",
                "active_request.is_connected() = {} while the pending response is {}",
                ar.is_connected(),
                if self.pending_response.is_some() { "alive" } else { "dropped" }
            );
        }
        match (&self.pending_response, &self.active_request) {
            (Some(pr), Some(ar)) => {
                let t = next_tag();
                must!(ar.send_copy(t), "reqres.probe.stream", "response on an established stream");
                match must!(pr.receive(), "reqres.probe.stream", "receive on an established stream") {
                    Some(r) => ensure!(*r == t, "reqres.probe.stream", "stream delivered {:?}, sent {:?}", *r, t),
                    None => fail!("reqres.probe.stream", "a response sent on an established stream did not arrive"),
                }
            }
            (Some(pr), None) => {
                let r = must!(pr.receive(), "reqres.probe.pending_alone", "receive of a pending response whose active request is gone");
                ensure!(r.is_none(), "reqres.probe.pending_alone", "a response arrived that nobody sent");
            }
            (None, Some(ar)) => {
                // nobody listens any more; whether this is refused or discarded is not specified
                let _ = ar.send_copy(next_tag());
            }
            (None, None) => {}
        }
        // a fresh round trip through both ports
        if let (Some(c), Some(s)) = (&self.client, &self.server) {
            let (q, a) = (next_tag(), next_tag());
            let pr = must!(c.send_copy(q), "reqres.probe.round_trip", "send_copy with client and server alive");
            let ar = match must!(s.receive(), "reqres.probe.round_trip", "server receive with client and server alive") {
                Some(ar) => ar,
                None => fail!("reqres.probe.round_trip", "the request did not arrive at the server"),
            };
            ensure!(*ar == q, "reqres.probe.round_trip", "server received {:?}, sent {:?}", *ar, q);
            must!(ar.send_copy(a), "reqres.probe.round_trip", "answering the request");
            match must!(pr.receive(), "reqres.probe.round_trip", "client receive") {
                Some(r) => ensure!(*r == a, "reqres.probe.round_trip", "client received {:?}, sent {:?}", *r, a),
                None => fail!("reqres.probe.round_trip", "the response did not arrive at the client"),
            }
            drop(ar);
            drop(pr);
            let more = must!(s.receive(), "reqres.probe.round_trip", "second server receive");
            ensure!(more.is_none(), "reqres.probe.round_trip", "a request arrived that nobody sent");
        } else if let Some(s) = &self.server {
            let more = must!(s.receive(), "reqres.probe.server_alone", "server receive without client port");
            ensure!(more.is_none(), "reqres.probe.server_alone", "a request arrived that nobody sent");
        }
        if let Some(r) = &self.response {
            still_mapped(&**r as *const P as usize, "reqres.probe.response_unmapped", "held response")?;
            ensure!(**r == self.response_tag, "reqres.probe.response_payload", "held response reads {:?}, expected {:?}", **r, self.response_tag);
        }
        if let Some(rm) = &mut self.request_mut {
            let t = next_tag();
            *rm.payload_mut() = t;
            ensure!(*rm.payload() == t, "reqres.probe.request_mut_payload", "loaned request does not hold what was written");
        }
        if let Some(rm) = &mut self.response_mut {
            let t = next_tag();
            *rm.payload_mut() = t;
            ensure!(*rm.payload() == t, "reqres.probe.response_mut_payload", "loaned response does not hold what was written");
        }
        Ok(())
    }

    fn recreate(cfg: &Config, name: &ServiceName, ids: &mut Vec<u128>) -> Result<(), Failure> {
        let node = node_of::<S>(cfg, ids)?;
        let service = must!(
            node.service_builder(name).request_response::<u16, u8>().max_clients(1).max_servers(1).max_active_requests_per_client(1).create(),
            "reqres.recreate",
            "the same service name cannot be created again with different settings"
        );
        let s = must!(service.server_builder().create(), "reqres.recreate", "server on the re-created service");
        let c = must!(service.client_builder().create(), "reqres.recreate", "client on the re-created service");
        let pr = must!(c.send_copy(4711), "reqres.recreate", "request on the re-created service");
        let ar = must!(s.receive(), "reqres.recreate", "server receive on the re-created service");
        let Some(ar) = ar else { fail!("reqres.recreate", "request did not arrive on the re-created service") };
        must!(ar.send_copy(17), "reqres.recreate", "response on the re-created service");
        let got = must!(pr.receive(), "reqres.recreate", "client receive on the re-created service").map(|r| *r);
        ensure!(*ar == 4711 && got == Some(17), "reqres.recreate", "re-created service delivered request {} and response {got:?}", *ar);
        Ok(())
    }

    fn node_ids(&self) -> Vec<u128> {
        self.ids.clone()
    }
}

// ------------------------------------------------------------------------------------------
// blackboard
// ------------------------------------------------------------------------------------------

pub struct Bb<S: Service> {
    node: Option<Node<S>>,
    service: Option<blackboard::PortFactory<S, u64>>,
    writer: Option<Writer<S, u64>>,
    reader: Option<Reader<S, u64>>,
    /// key 0
    entry_handle_mut: Option<EntryHandleMut<S, u64, P>>,
    /// key 0
    entry_handle: Option<EntryHandle<S, u64, P>>,
    /// key 1, loaned and never committed
    entry_value_uninit: Option<EntryValueUninit<S, u64, P>>,
    /// committed value per key (key 2 has no permanent handle)
    val: [P; 3],
    ids: Vec<u128>,
}

impl<S: Service> Graph<S> for Bb<S> {
    fn build(_p: Pattern, cfg: &Config, name: &ServiceName) -> Result<Self, Failure> {
        let mut ids = vec![];
        let node = node_of::<S>(cfg, &mut ids)?;
        let val = [next_tag(), next_tag(), next_tag()];
        let service = must!(
            node.service_builder(name)
                .blackboard_creator::<u64>()
                .max_readers(3)
                .max_nodes(3)
                .add::<P>(0, val[0])
                .add::<P>(1, val[1])
                .add::<P>(2, val[2])
                .create(),
            "build.service",
            "blackboard service creation"
        );
        let writer = must!(service.writer_builder().create(), "build.port", "writer creation");
        let reader = must!(service.reader_builder().create(), "build.port", "reader creation");
        let entry_handle_mut = must!(writer.entry::<P>(&0), "build.handle", "entry handle mut of key 0");
        let entry_handle = must!(reader.entry::<P>(&0), "build.handle", "entry handle of key 0");
        let entry_value_uninit = must!(writer.entry::<P>(&1), "build.handle", "entry handle mut of key 1").loan_uninit();
        Ok(Bb {
            node: Some(node),
            service: Some(service),
            writer: Some(writer),
            reader: Some(reader),
            entry_handle_mut: Some(entry_handle_mut),
            entry_handle: Some(entry_handle),
            entry_value_uninit: Some(entry_value_uninit),
            val,
            ids,
        })
    }

    fn drop_obj(&mut self, name: &str) {
        match name {
            "node" => drop(self.node.take()),
            "service" => drop(self.service.take()),
            "writer" => drop(self.writer.take()),
            "reader" => drop(self.reader.take()),
            "entry_handle_mut" => drop(self.entry_handle_mut.take()),
            "entry_handle" => drop(self.entry_handle.take()),
            "entry_value_uninit" => drop(self.entry_value_uninit.take()),
            _ => unreachable!("unknown object {name}"),
        }
    }

    fn probe(&mut self) -> Result<(), Failure> {
        // the writer stays connected while the port or one of its handles is alive
        // (conformance: entry_handle_mut_prevents_another_writer)
        let writer_side = self.writer.is_some() || self.entry_handle_mut.is_some() || self.entry_value_uninit.is_some();
        if let Some(svc) = &self.service {
            let dc = svc.dynamic_config();
            let (nw, nr) = (dc.number_of_writers(), dc.number_of_readers());
            ensure!(
                nw == writer_side as usize && nr >= self.reader.is_some() as usize && nr <= 1,
                "blackboard.probe.dynamic_config",
                "dynamic config counts {nw} writers / {nr} readers; writer side alive {writer_side}, reader port alive {}",
                self.reader.is_some()
            );
            let tmp = must!(svc.reader_builder().create(), "blackboard.probe.factory", "a service handle that is alive cannot create a reader");
            drop(tmp);
            match svc.writer_builder().create() {
                Ok(w) => {
                    ensure!(!writer_side, "blackboard.probe.single_writer", "a second writer could be created while the first one is still connected");
                    drop(w);
                }
                Err(WriterCreateError::ExceedsMaxSupportedWriters) => {
                    ensure!(writer_side, "blackboard.probe.single_writer", "no writer is connected but a new one is refused with ExceedsMaxSupportedWriters")
                }
                Err(e) => fail!("blackboard.probe.factory", "writer creation failed with {e:?}"),
            }
        }
        if let Some(h) = &self.entry_handle_mut {
            let t = next_tag();
            h.update_with_copy(t);
            self.val[0] = t;
        }
        if let Some(u) = &mut self.entry_value_uninit {
            // written but never committed: readers keep seeing the old value of key 1
            u.value_mut().write(next_tag());
        }
        if let Some(w) = &self.writer {
            let h2 = must!(w.entry::<P>(&2), "blackboard.probe.writer", "entry handle mut of the unused key 2");
            let t = next_tag();
            h2.update_with_copy(t);
            self.val[2] = t;
            drop(h2);
            match w.entry::<P>(&0) {
                Ok(h0) => {
                    ensure!(self.entry_handle_mut.is_none(), "blackboard.probe.single_handle", "a second entry handle mut for key 0 was handed out");
                    let t = next_tag();
                    h0.update_with_copy(t);
                    self.val[0] = t;
                }
                Err(EntryHandleMutError::HandleAlreadyExists) => {
                    ensure!(self.entry_handle_mut.is_some(), "blackboard.probe.single_handle", "key 0 has no entry handle mut but a new one is refused")
                }
                Err(e) => fail!("blackboard.probe.writer", "entry handle mut of key 0 failed with {e:?}"),
            }
            match w.entry::<P>(&1) {
                Ok(_) => ensure!(self.entry_value_uninit.is_none(), "blackboard.probe.single_handle", "a second entry handle mut for the loaned key 1 was handed out"),
                Err(EntryHandleMutError::HandleAlreadyExists) => {
                    ensure!(self.entry_value_uninit.is_some(), "blackboard.probe.single_handle", "key 1 is not loaned but a new entry handle mut is refused")
                }
                Err(e) => fail!("blackboard.probe.writer", "entry handle mut of key 1 failed with {e:?}"),
            }
        }
        if let Some(h) = &self.entry_handle {
            let got = *h.get();
            ensure!(got == self.val[0], "blackboard.probe.entry_handle", "entry handle reads {got:?}, last committed value is {:?}", self.val[0]);
        }
        if let Some(r) = &self.reader {
            for k in 0..3u64 {
                let h = must!(r.entry::<P>(&k), "blackboard.probe.reader", "entry handle of a reader that is alive");
                let got = *h.get();
                ensure!(got == self.val[k as usize], "blackboard.probe.reader", "key {k} reads {got:?}, last committed value is {:?}", self.val[k as usize]);
            }
        }
        Ok(())
    }

    fn recreate(cfg: &Config, name: &ServiceName, ids: &mut Vec<u128>) -> Result<(), Failure> {
        let node = node_of::<S>(cfg, ids)?;
        let service = must!(
            node.service_builder(name).blackboard_creator::<u64>().max_readers(1).add::<u16>(0, 5).add::<u8>(9, 1).create(),
            "blackboard.recreate",
            "the same service name cannot be created again with different settings"
        );
        let w = must!(service.writer_builder().create(), "blackboard.recreate", "writer on the re-created service");
        let r = must!(service.reader_builder().create(), "blackboard.recreate", "reader on the re-created service");
        let hw = must!(w.entry::<u16>(&0), "blackboard.recreate", "entry handle mut on the re-created service");
        let hr = must!(r.entry::<u16>(&0), "blackboard.recreate", "entry handle on the re-created service");
        let before = *hr.get();
        hw.update_with_copy(4711);
        let after = *hr.get();
        ensure!(before == 5 && after == 4711, "blackboard.recreate", "re-created blackboard reads {before} then {after}");
        Ok(())
    }

    fn node_ids(&self) -> Vec<u128> {
        self.ids.clone()
    }
}
