//! Concept-level "nothing remains" scan. `Domain::leftovers()` looks at files and /dev/shm; the
//! `local` service variants keep everything in process-local registries that no directory
//! listing shows, so the same question is asked through the `NamedConceptMgmt::list_cfg`
//! interface of every concept type a service variant uses, with the configurations iceoryx2
//! derives from the domain's `Config` (mirrors `iceoryx2::service::config_scheme`, which is
//! crate-private). The domain-wide management segment has its own suffix and is therefore not
//! part of any of these listings.

use iceoryx2::config::Config;
use iceoryx2::service::Service;
use iceoryx2::service::dynamic_config::DynamicConfig;
use iceoryx2_bb_container::semantic_string::SemanticString;
use iceoryx2_bb_system_types::file_name::FileName;
use iceoryx2_bb_system_types::path::Path;
use iceoryx2_cal::named_concept::{NamedConceptConfiguration, NamedConceptMgmt};

fn cfg_of<C: NamedConceptMgmt>(prefix: &FileName, suffix: &FileName, path: &Path) -> C::Configuration {
    <C::Configuration as Default>::default().prefix(prefix).suffix(suffix).path_hint(path)
}

fn list_into<C: NamedConceptMgmt>(what: &str, prefix: &FileName, suffix: &FileName, path: &Path, out: &mut Vec<String>) {
    match C::list_cfg(&cfg_of::<C>(prefix, suffix, path)) {
        Ok(v) => {
            for n in v {
                out.push(format!("{what}:{n}"));
            }
        }
        Err(e) => out.push(format!("{what}:<list failed: {e:?}>")),
    }
}

/// Every named concept of the domain that still exists (services, dynamic configs, connections,
/// event channels, data segments, blackboard segments, node monitors and the details / tags
/// of the given nodes).
pub fn concept_leftovers<S: Service>(c: &Config, node_ids: &[u128]) -> Vec<String> {
    let g = &c.global;
    let p = &g.prefix;
    let root = *g.root_path();
    let mut out = vec![];
    list_into::<S::StaticStorage>("service", p, &g.service.static_config_storage_suffix, &g.service_dir(), &mut out);
    list_into::<S::DynamicStorage<DynamicConfig>>("dynamic_config", p, &g.service.dynamic_config_storage_suffix, &root, &mut out);
    list_into::<S::Connection>("connection", p, &g.service.connection_suffix, &root, &mut out);
    list_into::<S::Event>("event", p, &g.service.event_connection_suffix, &root, &mut out);
    list_into::<S::SharedMemory>("data_segment", p, &g.service.data_segment_suffix, &root, &mut out);
    list_into::<S::BlackboardMgmt<u64>>("blackboard_mgmt", p, &g.service.blackboard_mgmt_suffix, &root, &mut out);
    list_into::<S::BlackboardPayload>("blackboard_data", p, &g.service.blackboard_data_suffix, &root, &mut out);
    list_into::<S::Monitoring>("node_monitor", p, &g.node.monitor_suffix, &g.node_dir(), &mut out);
    for id in node_ids {
        let mut path = g.node_dir();
        if path.add_path_entry(&Path::new(id.to_string().as_bytes()).expect("a number is a path")).is_err() {
            continue;
        }
        list_into::<S::StaticStorage>("node_details", p, &g.node.static_config_suffix, &path, &mut out);
        list_into::<S::StaticStorage>("service_tag", p, &g.node.service_tag_suffix, &path, &mut out);
        list_into::<S::StaticStorage>("port_tag", p, &g.node.port_tag_suffix, &path, &mut out);
    }
    out.sort();
    out
}
