//! C17 — orderly shutdown in any order leaves nothing behind.
//!
//! A case is (messaging pattern, service variant, permutation). The object graph of the pattern
//! is built in creation order inside a fresh isolated domain, then the objects are dropped one
//! by one in the order the permutation gives. After every drop the survivors are exercised
//! (`graphs.rs`), `Node::list` / `Service::list` must show exactly the nodes / the service that
//! still have an owner, and after the last drop nothing may remain (files, /dev/shm entries,
//! named concepts of the variant) and the same service name must be creatable with different
//! settings.
extern crate iceoryx2_bb_loggers;

mod graphs;
mod scan;

use checks_ice::domain::Domain;
use graphs::{Bb, Ev, Graph, Pattern, PubSub, ReqRes};
use iceoryx2::node::{Node, NodeState, NodeView};
use iceoryx2::prelude::*;
use serde::{Deserialize, Serialize};
use std::path::PathBuf;
use std::sync::atomic::{AtomicU64, Ordering};
use vcore::rng::hash_str;
use vcore::{Ctx, Failure, Obs, Spec, ensure};

const SPEC: Spec = Spec {
    prop: "C17",
    level: "exploration",
    rule: "case = (pattern in pubsub[6 objects], pubsub2[8, two nodes], event[4], event2[6, two nodes], reqres[9], blackboard[7]; variant in local, ipc, local_threadsafe, ipc_threadsafe; permutation of the drop order); small graphs enumerated exhaustively (ordered by distance from reverse creation order), larger ones sampled with a seeded Fisher-Yates shuffle; oracle = no panic per drop, survivor probe after every drop, Node::list/Service::list agree with the owners still alive, after the last drop no file, /dev/shm entry or named concept remains and the service name is creatable with different settings; non-trivial = permutation is not the reverse creation order and drops at least one owner (node/service/port) before one of its dependents; distinct = (pattern, variant, permutation)",
    assumptions: &[
        "WaitSetGuard and the other lifetime-bound objects are excluded: the borrow checker already fixes their drop order relative to their owner",
        "one thread: the thread-safe variants are exercised for their shared-state bookkeeping, not for concurrent drops",
        "a Sample that outlives its Subscriber is only checked for accessibility (not content) once the Publisher was active again, since the publisher counts it as returned",
        "the process-local registries of the local variants are inspected through NamedConceptMgmt::list_cfg with the configurations iceoryx2 derives from the domain config",
    ],
    watchdog_quick_s: 2400,
    watchdog_thorough_s: 14400,
};

#[derive(Clone, Copy, Debug, PartialEq, Eq, Serialize, Deserialize)]
pub enum Variant {
    Local,
    Ipc,
    LocalThreadsafe,
    IpcThreadsafe,
}

impl Variant {
    fn name(self) -> &'static str {
        match self {
            Variant::Local => "local",
            Variant::Ipc => "ipc",
            Variant::LocalThreadsafe => "local_threadsafe",
            Variant::IpcThreadsafe => "ipc_threadsafe",
        }
    }
}

const VARIANTS: [Variant; 4] = [Variant::Local, Variant::Ipc, Variant::LocalThreadsafe, Variant::IpcThreadsafe];

#[derive(Clone, Debug, Serialize, Deserialize)]
pub struct Case {
    pattern: Pattern,
    variant: Variant,
    /// indices into the creation order, in the order they are dropped
    perm: Vec<u8>,
}

fn class_name(p: Pattern, v: Variant) -> &'static str {
    // obs.class wants &'static str: one literal per combination
    macro_rules! table {
        ($(($p:ident, $v:ident, $s:literal)),* $(,)?) => {
            match (p, v) { $((Pattern::$p, Variant::$v) => $s,)* }
        };
    }
    table!(
        (PubSub, Local, "pubsub/local"),
        (PubSub, Ipc, "pubsub/ipc"),
        (PubSub, LocalThreadsafe, "pubsub/local_threadsafe"),
        (PubSub, IpcThreadsafe, "pubsub/ipc_threadsafe"),
        (PubSub2, Local, "pubsub2/local"),
        (PubSub2, Ipc, "pubsub2/ipc"),
        (PubSub2, LocalThreadsafe, "pubsub2/local_threadsafe"),
        (PubSub2, IpcThreadsafe, "pubsub2/ipc_threadsafe"),
        (Event, Local, "event/local"),
        (Event, Ipc, "event/ipc"),
        (Event, LocalThreadsafe, "event/local_threadsafe"),
        (Event, IpcThreadsafe, "event/ipc_threadsafe"),
        (Event2, Local, "event2/local"),
        (Event2, Ipc, "event2/ipc"),
        (Event2, LocalThreadsafe, "event2/local_threadsafe"),
        (Event2, IpcThreadsafe, "event2/ipc_threadsafe"),
        (ReqRes, Local, "reqres/local"),
        (ReqRes, Ipc, "reqres/ipc"),
        (ReqRes, LocalThreadsafe, "reqres/local_threadsafe"),
        (ReqRes, IpcThreadsafe, "reqres/ipc_threadsafe"),
        (Blackboard, Local, "blackboard/local"),
        (Blackboard, Ipc, "blackboard/ipc"),
        (Blackboard, LocalThreadsafe, "blackboard/local_threadsafe"),
        (Blackboard, IpcThreadsafe, "blackboard/ipc_threadsafe"),
    )
}

// ------------------------------------------------------------------------------------------
// the oracle around one case
// ------------------------------------------------------------------------------------------

fn listed_nodes<S: Service>(cfg: &Config, pat: Pattern) -> Result<Vec<u128>, Failure> {
    let mut ids = vec![];
    let mut bad = None;
    let r = Node::<S>::list(cfg, |st| {
        match st {
            NodeState::Alive(v) => {
                // a node of this very process: its details are readable as long as it exists
                if v.details().is_none() {
                    bad = Some(format!("node {:?} is listed as alive but its details are gone", v.id()));
                }
                ids.push(v.id().value())
            }
            NodeState::Dead(v) => bad = Some(format!("node {:?} is listed as dead", v.id())),
            NodeState::Inaccessible(id) => bad = Some(format!("node {id:?} is listed as inaccessible")),
            NodeState::Undefined(id) => bad = Some(format!("node {id:?} is listed in undefined state")),
        }
        CallbackProgression::Continue
    });
    if let Err(e) = r {
        return Err(Failure::new(format!("{}.node_list", pat.name()), format!("Node::list failed: {e:?}")));
    }
    if let Some(b) = bad {
        return Err(Failure::new(format!("{}.node_list", pat.name()), b));
    }
    ids.sort();
    Ok(ids)
}

fn listed_services<S: Service>(cfg: &Config, pat: Pattern) -> Result<usize, Failure> {
    let mut n = 0;
    match S::list(cfg, |_| {
        n += 1;
        CallbackProgression::Continue
    }) {
        Ok(()) => Ok(n),
        Err(e) => Err(Failure::new(format!("{}.service_list", pat.name()), format!("Service::list failed: {e:?}"))),
    }
}

/// nodes / service that must be visible given what is alive
fn check_registries<S: Service>(cfg: &Config, pat: Pattern, alive: &[bool], node_ids: &[u128], when: &str) -> Result<(), Failure> {
    let mut want: Vec<u128> = vec![];
    let mut k = 0;
    for i in 0..alive.len() {
        if pat.is_node(i) {
            if (0..alive.len()).any(|j| alive[j] && pat.node_of(j) == i) {
                want.push(node_ids[k]);
            }
            k += 1;
        }
    }
    want.sort();
    let got = listed_nodes::<S>(cfg, pat).map_err(|f| Failure::new(f.signature, format!("{when}: {}", f.message)))?;
    ensure!(
        got == want,
        format!("{}.node_list", pat.name()),
        "{when}: Node::list shows {} alive node(s) {got:?}, but the nodes that still own something are {want:?}",
        got.len()
    );
    let want_svc = (0..alive.len()).any(|j| alive[j] && !pat.is_node(j)) as usize;
    let got_svc = listed_services::<S>(cfg, pat)?;
    ensure!(
        got_svc == want_svc,
        format!("{}.service_list", pat.name()),
        "{when}: Service::list shows {got_svc} service(s), expected {want_svc}"
    );
    Ok(())
}

/// Open known finding (see /verif/known_findings.jsonl): every port keeps its port tag as the
/// last struct field, behind the field that owns the node state. When such an object is the last
/// owner of a node, the node is removed while the tag file still sits in the node's directory:
/// `rmdir` fails (logged only) and the empty directory `nodes/<node id>` stays behind.
const EMPTY_NODE_DIR: &str = "leftover.empty_node_dir.port_tag_outlives_node_state";

/// `tolerated`: (path, reason) of leftovers that are exactly the open known finding; they are
/// reported once at the end of the case so that the rest of the oracle still runs.
fn nothing_left<S: Service>(
    dom: &Domain,
    pat: Pattern,
    node_ids: &[u128],
    port_owned_last: &[u128],
    tolerated: &mut Vec<String>,
    when: &str,
) -> Result<(), Failure> {
    let mut files = dom.leftovers();
    let node_dir = String::from_utf8_lossy(dom.config.global.node.directory.as_bytes()).to_string();
    files.retain(|f| {
        if tolerated.contains(f) {
            return false;
        }
        let is_known = port_owned_last.iter().any(|id| *f == format!("{node_dir}/{id}"))
            && std::fs::read_dir(dom.root.join(f)).map(|mut d| d.next().is_none()).unwrap_or(false);
        if is_known {
            tolerated.push(f.clone());
        }
        !is_known
    });
    ensure!(files.is_empty(), format!("{}.leftover", pat.name()), "{when}: left behind: {files:?}");
    let concepts = scan::concept_leftovers::<S>(&dom.config, node_ids);
    ensure!(concepts.is_empty(), format!("{}.leftover", pat.name()), "{when}: named concepts left behind: {concepts:?}");
    let nodes = listed_nodes::<S>(&dom.config, pat)?;
    ensure!(nodes.is_empty(), format!("{}.leftover", pat.name()), "{when}: Node::list still shows {nodes:?}");
    let svcs = listed_services::<S>(&dom.config, pat)?;
    ensure!(svcs == 0, format!("{}.leftover", pat.name()), "{when}: Service::list still shows {svcs} service(s)");
    Ok(())
}

fn describe(pat: Pattern, perm: &[u8], upto: usize) -> String {
    let names = pat.names();
    perm[..upto].iter().map(|i| names[*i as usize]).collect::<Vec<_>>().join(" > ")
}

fn run_in_domain<S: Service, G: Graph<S>>(dom: &Domain, case: &Case, obs: &mut Obs) -> Result<(), Failure> {
    let pat = case.pattern;
    let names = pat.names();
    let n = names.len();
    let name: ServiceName = "c17/shutdown".try_into().expect("valid service name");
    let mut g = G::build(pat, &dom.config, &name)?;
    let mut node_ids = g.node_ids();
    let mut alive = vec![true; n];
    check_registries::<S>(&dom.config, pat, &alive, &node_ids, "after construction")?;
    g.probe().map_err(|f| Failure::new(f.signature, format!("after construction: {}", f.message)))?;
    for (step, &i) in case.perm.iter().enumerate() {
        let i = i as usize;
        let dropped = Ctx::guarded(|| {
            g.drop_obj(names[i]);
            Ok(())
        });
        if let Err(f) = dropped {
            // a panicking drop leaves the graph in an unknown state: do not run its destructors
            std::mem::forget(g);
            return Err(Failure::new(
                format!("{}.drop_panic.{}", pat.name(), names[i]),
                format!("dropping {} after [{}] panicked: {}", names[i], describe(pat, &case.perm, step), f.message),
            ));
        }
        alive[i] = false;
        let when = format!("after dropping [{}]", describe(pat, &case.perm, step + 1));
        check_registries::<S>(&dom.config, pat, &alive, &node_ids, &when)?;
        g.probe().map_err(|f| Failure::new(f.signature, format!("{when}: {}", f.message)))?;
    }
    drop(g);
    // nodes whose last owner was a port or something made from a port (not the node or a
    // service handle): the shape of the open known finding EMPTY_NODE_DIR
    let mut port_owned_last = vec![];
    let mut k = 0;
    for i in 0..n {
        if pat.is_node(i) {
            let last = case.perm.iter().rev().map(|x| *x as usize).find(|x| pat.node_of(*x) == i).unwrap();
            let is_service_handle = !pat.is_node(last) && pat.parents()[last].iter().all(|p| pat.is_node(*p));
            if !pat.is_node(last) && !is_service_handle {
                port_owned_last.push(node_ids[k]);
            }
            k += 1;
        }
    }
    let mut tolerated = vec![];
    nothing_left::<S>(dom, pat, &node_ids, &port_owned_last, &mut tolerated, "after the last drop")?;
    G::recreate(&dom.config, &name, &mut node_ids)?;
    nothing_left::<S>(dom, pat, &node_ids, &[], &mut tolerated, "after dropping the re-created service")?;
    if !tolerated.is_empty() {
        obs.class("known:empty_node_dir");
        return Err(Failure::new(
            EMPTY_NODE_DIR,
            format!(
                "{} on {:?}, drop order [{}]: the empty node director{} {tolerated:?} stayed behind (the last owner of the node was {}, whose port tag is removed after the node)",
                pat.name(),
                case.variant,
                describe(pat, &case.perm, n),
                if tolerated.len() == 1 { "y" } else { "ies" },
                names[*case.perm.last().unwrap() as usize]
            ),
        ));
    }
    Ok(())
}

/// Domain roots live on tmpfs when possible. iceoryx2 calls fsync for every static storage it
/// writes; on a disk-backed run directory 16 workers then spend > 90 % of their time waiting for
/// journal commits (measured: 300 ipc request-response cases 48 s on ext4, 13 s on tmpfs). The
/// directory is per worker process, removed at the end of `body`, and directories of worker
/// processes that no longer exist are swept at the start of `body`.
const TMPFS_BASE: &str = "/dev/shm";
const TMPFS_TAG: &str = "verif-c17.";
static DOMAIN_COUNTER: AtomicU64 = AtomicU64::new(0);

fn scratch_base() -> PathBuf {
    let p = PathBuf::from(TMPFS_BASE).join(format!("{TMPFS_TAG}{}", std::process::id()));
    if std::fs::create_dir_all(&p).is_ok() {
        return p;
    }
    vcore::util::run_dir()
}

fn sweep_stale_scratch() {
    let Ok(rd) = std::fs::read_dir(TMPFS_BASE) else { return };
    for e in rd.flatten() {
        let name = e.file_name().to_string_lossy().to_string();
        if let Some(pid) = name.strip_prefix(TMPFS_TAG).and_then(|p| p.parse::<i32>().ok()) {
            let gone = unsafe { libc::kill(pid, 0) } != 0 && std::io::Error::last_os_error().raw_os_error() == Some(libc::ESRCH);
            if gone {
                let _ = std::fs::remove_dir_all(e.path());
                for n in vcore::util::shm_entries_containing(&format!("c17p{pid}x")) {
                    let _ = std::fs::remove_file(format!("{TMPFS_BASE}/{n}"));
                }
            }
        }
    }
}

/// same isolation as `Domain::new()` (own root, unique prefix, no automatic dead-node cleanup)
fn new_domain() -> Domain {
    let n = DOMAIN_COUNTER.fetch_add(1, Ordering::Relaxed);
    let prefix = format!("c17p{}x{}_", std::process::id(), n);
    let root = scratch_base().join(format!("d{n}"));
    std::fs::create_dir_all(&root).expect("create domain root");
    let mut config = Config::default();
    config.global.set_root_path(&Path::new(root.to_str().unwrap().as_bytes()).expect("root path is a valid Path"));
    config.global.prefix = FileName::new(prefix.as_bytes()).expect("prefix is a valid FileName");
    config.global.node.cleanup_dead_nodes_on_creation = false;
    config.global.node.cleanup_dead_nodes_on_destruction = false;
    config.global.service.cleanup_dead_nodes_on_open = false;
    Domain { config, root, prefix }
}

fn run_graph<S: Service, G: Graph<S>>(case: &Case, obs: &mut Obs) -> Result<(), Failure> {
    let dom = new_domain();
    let r = Ctx::guarded(|| run_in_domain::<S, G>(&dom, case, obs));
    dom.cleanup();
    r
}

fn run_variant<S: Service>(case: &Case, obs: &mut Obs) -> Result<(), Failure> {
    match case.pattern {
        Pattern::PubSub | Pattern::PubSub2 => run_graph::<S, PubSub<S>>(case, obs),
        Pattern::Event | Pattern::Event2 => run_graph::<S, Ev<S>>(case, obs),
        Pattern::ReqRes => run_graph::<S, ReqRes<S>>(case, obs),
        Pattern::Blackboard => run_graph::<S, Bb<S>>(case, obs),
    }
}

fn is_permutation(perm: &[u8], n: usize) -> bool {
    let mut seen = vec![false; n];
    perm.len() == n && perm.iter().all(|i| (*i as usize) < n && !std::mem::replace(&mut seen[*i as usize], true))
}

// ------------------------------------------------------------------------------------------
// crash context: a use-after-unmap kills the worker with SIGSEGV; the parent then reports the
// dead worker. To name the case that did it, the current case is kept in a static buffer that a
// signal handler writes to stderr before the default action takes the process down.
// ------------------------------------------------------------------------------------------

const CONTEXT_CAP: usize = 512;
static mut CONTEXT: [u8; CONTEXT_CAP] = [0; CONTEXT_CAP];
static CONTEXT_LEN: AtomicU64 = AtomicU64::new(0);

fn set_crash_context(case: &Case) {
    let txt = format!(
        "C17: fatal signal while running case {} (drop order: {})\n",
        serde_json::to_string(case).unwrap_or_default(),
        describe(case.pattern, &case.perm, case.perm.len())
    );
    let b = txt.as_bytes();
    let n = b.len().min(CONTEXT_CAP);
    CONTEXT_LEN.store(0, Ordering::SeqCst);
    unsafe { std::ptr::copy_nonoverlapping(b.as_ptr(), std::ptr::addr_of_mut!(CONTEXT) as *mut u8, n) };
    CONTEXT_LEN.store(n as u64, Ordering::SeqCst);
}

extern "C" fn on_fatal_signal(_sig: libc::c_int) {
    let n = CONTEXT_LEN.load(Ordering::SeqCst) as usize;
    unsafe { libc::write(2, std::ptr::addr_of!(CONTEXT) as *const libc::c_void, n) };
    // SA_RESETHAND: returning re-executes the faulting instruction under the default action
}

fn install_crash_context() {
    unsafe {
        let mut sa: libc::sigaction = std::mem::zeroed();
        sa.sa_sigaction = on_fatal_signal as usize;
        sa.sa_flags = libc::SA_RESETHAND;
        for sig in [libc::SIGSEGV, libc::SIGBUS, libc::SIGABRT, libc::SIGILL] {
            libc::sigaction(sig, &sa, std::ptr::null_mut());
        }
    }
}

fn run_case(case: &Case, obs: &mut Obs) -> Result<(), Failure> {
    set_crash_context(case);
    let pat = case.pattern;
    let n = pat.names().len();
    assert!(is_permutation(&case.perm, n), "generator bug: {:?} is not a permutation of 0..{n}", case.perm);
    // evidence: which shapes the generator reaches
    obs.class(class_name(pat, case.variant));
    let pos = |x: usize| case.perm.iter().position(|i| *i as usize == x).unwrap();
    let reverse = case.perm.iter().rev().enumerate().all(|(k, i)| *i as usize == k);
    let mut owner_first = false;
    for a in 0..n {
        for d in 0..n {
            if pat.owns(a, d) && pos(a) < pos(d) {
                owner_first = true;
                if pat.is_node(a) {
                    obs.class("node_before_dependent");
                } else if pat.parents()[a].iter().all(|p| pat.is_node(*p)) {
                    obs.class("service_before_dependent");
                } else {
                    obs.class("port_before_dependent");
                }
            }
        }
    }
    if pat.is_node(case.perm[0] as usize) {
        obs.class("node_dropped_first");
    }
    if !pat.is_node(case.perm[n - 1] as usize) && pat.parents()[case.perm[n - 1] as usize].iter().any(|p| !pat.is_node(*p)) {
        obs.class("loan_or_sample_dropped_last");
    }
    obs.nontrivial = !reverse && owner_first;
    match case.variant {
        Variant::Local => run_variant::<local::Service>(case, obs),
        Variant::Ipc => run_variant::<ipc::Service>(case, obs),
        Variant::LocalThreadsafe => run_variant::<local_threadsafe::Service>(case, obs),
        Variant::IpcThreadsafe => run_variant::<ipc_threadsafe::Service>(case, obs),
    }
}

// ------------------------------------------------------------------------------------------
// generators
// ------------------------------------------------------------------------------------------

/// number of ascents: 0 for the reverse creation order (what Rust scoping does by itself)
fn distance_from_reverse(perm: &[u8]) -> usize {
    let mut d = 0;
    for i in 0..perm.len() {
        for j in i + 1..perm.len() {
            if perm[i] < perm[j] {
                d += 1;
            }
        }
    }
    d
}

fn all_permutations(n: usize) -> Vec<Vec<u8>> {
    fn rec(cur: &mut Vec<u8>, used: &mut Vec<bool>, n: usize, out: &mut Vec<Vec<u8>>) {
        if cur.len() == n {
            out.push(cur.clone());
            return;
        }
        for i in 0..n {
            if !used[i] {
                used[i] = true;
                cur.push(i as u8);
                rec(cur, used, n, out);
                cur.pop();
                used[i] = false;
            }
        }
    }
    let mut out = vec![];
    rec(&mut vec![], &mut vec![false; n], n, &mut out);
    // small-to-large: the closer to the natural order the earlier
    out.sort_by_key(|p| (distance_from_reverse(p), p.clone()));
    out
}

fn exhaustive(ctx: &mut Ctx, pat: Pattern, var: Variant) {
    let part = format!("{}.{}.exhaustive", pat.name(), var.name());
    if !ctx.part_enabled(&part) {
        return;
    }
    let n = pat.names().len();
    let cases = all_permutations(n).into_iter().map(|perm| Case { pattern: pat, variant: var, perm });
    ctx.enumerate(&part, &format!("all {n}! drop orders of the {} graph on {}", pat.name(), var.name()), cases, run_case);
}

/// candidates one step closer to the reverse creation order
fn closer_to_reverse(c: &Case) -> Vec<Case> {
    let mut out = vec![];
    for i in 0..c.perm.len().saturating_sub(1) {
        if c.perm[i] < c.perm[i + 1] {
            let mut p = c.perm.clone();
            p.swap(i, i + 1);
            out.push(Case { pattern: c.pattern, variant: c.variant, perm: p });
        }
    }
    out
}

fn sampled(ctx: &mut Ctx, pat: Pattern, var: Variant, total: u64) {
    let part = format!("{}.{}.sampled", pat.name(), var.name());
    if !ctx.part_enabled(&part) {
        return;
    }
    if let Some(case) = ctx.replay_case::<Case>(&part) {
        ctx.run_case(&part, 0, &case, |obs| run_case(&case, obs));
        return;
    }
    let n = pat.names().len();
    let mut rng = ctx.rng(&part);
    for _ in 0..ctx.share(total) {
        let mut perm: Vec<u8> = (0..n as u8).collect();
        rng.shuffle(&mut perm);
        let case = Case { pattern: pat, variant: var, perm };
        let key = hash_str(&format!("{:?}", case.perm));
        let mut obs = Obs::default();
        let r = Ctx::guarded(|| run_case(&case, &mut obs));
        ctx.record(&part, key, &obs, || serde_json::to_value(&case).unwrap());
        if let Err(f) = r {
            if ctx.is_open_finding(&f.signature) {
                ctx.violation(&part, &f, serde_json::to_value(&case).unwrap());
                continue;
            }
            // shrink towards the natural drop order while the same kind of failure remains (the unshrunk
            // failure is on file first: variants of a failing case may crash the process)
            let provisional = ctx.violation_provisional(&part, &f, serde_json::to_value(&case).unwrap());
            let sig = f.signature.clone();
            let min = vcore::shrink::greedy(
                case.clone(),
                closer_to_reverse,
                |c| matches!(Ctx::guarded(|| run_case(c, &mut Obs::default())), Err(x) if x.signature == sig),
                150,
            );
            let fl = match Ctx::guarded(|| run_case(&min, &mut Obs::default())) {
                Err(x) => x,
                Ok(()) => f,
            };
            if provisional {
                ctx.replace_provisional(&part, &fl, serde_json::to_value(&min).unwrap());
            } else {
                ctx.violation(&part, &fl, serde_json::to_value(&min).unwrap());
            }
            break;
        }
    }
}

fn body(ctx: &mut Ctx) {
    checks_ice::silence_iceoryx_log();
    sweep_stale_scratch();
    install_crash_context();
    parts(ctx);
    let base = scratch_base();
    if base.starts_with(TMPFS_BASE) {
        let _ = std::fs::remove_dir_all(base);
    }
}

fn parts(ctx: &mut Ctx) {
    let quick = ctx.quick();
    for var in VARIANTS {
        let local = matches!(var, Variant::Local);
        let plain = matches!(var, Variant::Local | Variant::Ipc);
        for pat in [Pattern::Event, Pattern::PubSub, Pattern::Event2, Pattern::Blackboard, Pattern::PubSub2, Pattern::ReqRes] {
            let n = pat.names().len();
            // quick: exhaustive <= 6 objects on local (event: everywhere, 24 orders); thorough:
            // exhaustive <= 7 objects on ipc and local, <= 6 on the thread-safe variants
            let exhaustive_here = n <= 4 || if quick { local && n <= 6 } else { (plain && n <= 7) || n <= 6 };
            if exhaustive_here {
                exhaustive(ctx, pat, var);
            } else {
                let total = match (quick, n) {
                    (true, _) => {
                        if local {
                            900
                        } else {
                            400
                        }
                    }
                    (false, 9) => {
                        if plain {
                            25_000
                        } else {
                            6_000
                        }
                    }
                    (false, _) => 6_000,
                };
                sampled(ctx, pat, var, total);
            }
        }
    }
}

fn main() {
    vcore::main(SPEC, body);
}
