//! Part 1: sequential histories of create / open / open_or_create / drop handle / create port /
//! drop port over 1..3 nodes, two names and the four patterns, compared step by step with the
//! model `(name, pattern) -> (creator's snapshot, live users)`; after every step `does_exist` and
//! `Service::list` must agree with the model for every (name, pattern).
use crate::model::*;
use crate::sut::*;
use checks_ice::domain::Domain;
use iceoryx2::node::{Node, NodeBuilder};
use iceoryx2::service::Service;
use iceoryx2_bb_container::semantic_string::SemanticString;
use proptest::prelude::*;
use serde::{Deserialize, Serialize};
use std::any::Any;
use std::collections::{BTreeMap, BTreeSet};
use vcore::util::idx;
use vcore::{Failure, Obs, ensure, fail};

pub const NAMES: u8 = 2;

#[derive(Clone, Debug, Serialize, Deserialize)]
pub enum Op {
    Call { node: u8, name: u8, verb: Verb, spec: Spec },
    /// drops a live handle (index mapped monotonically onto the live handles, oldest first)
    DropHandle(u16),
    /// creates a port from a live handle; kind 0 / 1 see `Handle::make_port`
    CreatePort { h: u16, kind: u8 },
    DropPort(u16),
    /// drops every handle and port of the service a live handle belongs to (one by one, ports
    /// first), i.e. takes that service to zero users
    DropService(u16),
}

#[derive(Clone, Debug, Serialize, Deserialize)]
pub struct SeqCase {
    pub ipc: bool,
    pub nodes: u8,
    pub ops: Vec<Op>,
}

type Key = (u8, Pattern);

struct LiveH {
    key: Key,
    node: u8,
    h: Box<dyn Handle>,
}
struct LiveP {
    key: Key,
    node: u8,
    kind: u8,
    _p: Box<dyn Any>,
}

fn name_of(i: u8) -> String {
    format!("c06/seq/{i}")
}

pub fn run(case: &SeqCase, obs: &mut Obs) -> Result<(), Failure> {
    if case.ipc { run_on::<iceoryx2::service::ipc::Service>(case, obs) } else { run_on::<iceoryx2::service::local::Service>(case, obs) }
}

fn run_on<S: Service + 'static>(case: &SeqCase, obs: &mut Obs) -> Result<(), Failure> {
    checks_ice::silence_iceoryx_log();
    let dom = Domain::new();
    let r = run_in::<S>(&dom, case, obs);
    let left = if r.is_ok() { dom.leftovers() } else { vec![] };
    dom.cleanup();
    r?;
    ensure!(left.is_empty(), "seq.leftover", "after dropping every handle, port and node these remain: {left:?}");
    Ok(())
}

fn service_files(dom: &Domain) -> usize {
    let dir = dom.root.join(String::from_utf8_lossy(dom.config.global.service.directory.as_bytes()).to_string());
    let suffix = String::from_utf8_lossy(dom.config.global.service.static_config_storage_suffix.as_bytes()).to_string();
    std::fs::read_dir(dir).map(|rd| rd.flatten().filter(|e| e.file_name().to_string_lossy().ends_with(&suffix)).count()).unwrap_or(0)
}

fn run_in<S: Service + 'static>(dom: &Domain, case: &SeqCase, obs: &mut Obs) -> Result<(), Failure> {
    let mut nodes: Vec<Node<S>> = vec![];
    for _ in 0..case.nodes.clamp(1, 3) {
        nodes.push(NodeBuilder::new().config(&dom.config).create::<S>().map_err(|e| Failure::new("harness.node_create", format!("{e:?}")))?);
    }
    let mut handles: Vec<LiveH> = vec![];
    let mut ports: Vec<LiveP> = vec![];
    let mut services: BTreeMap<Key, Snap> = BTreeMap::new();
    let mut ever_created: BTreeSet<Key> = BTreeSet::new();
    let mut uids: BTreeSet<String> = BTreeSet::new();
    let mut opened_with_requirement = false;
    let mut recreated = false;
    let mut recreated_differently = false;
    let mut last_settings: BTreeMap<Key, Spec> = BTreeMap::new();
    obs.class(if case.ipc { "seq/ipc" } else { "seq/local" });
    // existence is compared for every (name, pattern) the case touches
    let mut universe: BTreeSet<Key> = case.ops.iter().filter_map(|o| if let Op::Call { name, spec, .. } = o { Some((*name % NAMES, spec.pattern())) } else { None }).collect();
    universe.insert((0, Pattern::Event));

    let result = (|| -> Result<(), Failure> {
        for (step, op) in case.ops.iter().enumerate() {
            match op {
                Op::Call { node, name, verb, spec } => {
                    let node_i = (*node as usize).min(nodes.len() - 1) as u8;
                    let key: Key = (*name % NAMES, spec.pattern());
                    let verb = if key.1 == Pattern::Blackboard && *verb == Verb::OpenOrCreate { Verb::Open } else { *verb };
                    let sname = service_name(&name_of(key.0));
                    let users_nodes: BTreeSet<u8> = handles.iter().filter(|h| h.key == key).map(|h| h.node).chain(ports.iter().filter(|p| p.key == key).map(|p| p.node)).collect();
                    let exists = !users_nodes.is_empty();
                    ensure!(exists == services.contains_key(&key), "harness.model", "model out of sync at step {step}");
                    // what the documentation allows for this call
                    let creating = verb == Verb::Create || (verb == Verb::OpenOrCreate && !exists);
                    let mut expected: Errs = Errs::new();
                    if creating {
                        expected = create_precondition(spec, &dom.config);
                        if exists {
                            expected.insert("AlreadyExists");
                        }
                    } else if !exists {
                        expected.insert("DoesNotExist");
                    } else {
                        let snap = &services[&key];
                        expected = open_violations(spec, snap);
                        if !users_nodes.contains(&node_i) && users_nodes.len() >= snap.cfg.max_nodes() {
                            expected.insert("ExceedsMaxNumberOfNodes");
                        }
                    }
                    let res = apply(&nodes[node_i as usize], &sname, verb, spec);
                    let prefix = match (verb, creating) {
                        (Verb::OpenOrCreate, true) => "Create:",
                        (Verb::OpenOrCreate, false) => "Open:",
                        _ => "",
                    };
                    match res {
                        Ok(h) => {
                            ensure!(expected.is_empty(), if creating { "seq.create_succeeded_unexpectedly" } else { "seq.open_succeeded_unexpectedly" }, "step {step}: {verb:?} {spec:?} succeeded although the documentation demands one of {expected:?} (service: {:?})", services.get(&key));
                            let snap = h.snap();
                            if creating {
                                check_created(spec, &snap, &dom.config, &name_of(key.0)).map_err(|m| Failure::new("seq.created_settings", format!("step {step}: {verb:?} {spec:?}: {m}")))?;
                                ensure!(uids.insert(snap.uid.clone()), "seq.service_id_reused", "step {step}: the new service has the unique service id of an earlier one");
                                if !ever_created.insert(key) {
                                    recreated = true;
                                    obs.class("seq/recreated_after_last_user");
                                    if last_settings.get(&key) != Some(spec) {
                                        recreated_differently = true;
                                    }
                                }
                                last_settings.insert(key, spec.clone());
                                services.insert(key, snap);
                                obs.class(st(&format!("seq/{}/created", key.1.name())));
                            } else {
                                let creator = &services[&key];
                                ensure!(snap == *creator, "seq.opened_config_differs", "step {step}: the opened handle shows {snap:?}, the creator's handle showed {creator:?}");
                                if spec.has_explicit_requirement() {
                                    opened_with_requirement = true;
                                }
                                obs.class(st(&format!("seq/{}/opened", key.1.name())));
                            }
                            handles.push(LiveH { key, node: node_i, h });
                        }
                        Err(e) => {
                            let bare = e.strip_prefix(prefix).unwrap_or("<wrong open_or_create branch>");
                            ensure!(!expected.is_empty(), if creating { "seq.create_failed" } else { "seq.open_failed" }, "step {step}: {verb:?} {spec:?} failed with {e} although nothing forbids it (service: {:?}, exists: {exists})", services.get(&key));
                            ensure!(expected.contains(bare), "seq.wrong_error", "step {step}: {verb:?} {spec:?} failed with {e}, documented for this situation: {expected:?} (service: {:?})", services.get(&key));
                            obs.class(st(&format!("seq/{}/err/{}", key.1.name(), bare)));
                        }
                    }
                }
                Op::DropHandle(i) => {
                    if !handles.is_empty() {
                        let k = idx(*i, handles.len());
                        let h = handles.remove(k);
                        drop(h);
                    }
                }
                Op::CreatePort { h, kind } => {
                    if !handles.is_empty() {
                        let k = idx(*h, handles.len());
                        let key = handles[k].key;
                        let kind = *kind % 2;
                        let limits = services[&key].cfg.port_limits();
                        let limit = if kind == 0 { limits.0 } else { limits.1 };
                        let have = ports.iter().filter(|p| p.key == key && p.kind == kind).count();
                        if have < limit {
                            match handles[k].h.make_port(kind) {
                                Ok(p) => {
                                    ports.push(LiveP { key, node: handles[k].node, kind, _p: p });
                                    obs.class("seq/port_created");
                                }
                                Err(e) => fail!("seq.port_create_failed", "step {step}: port kind {kind} of {key:?} could not be created within the limits ({have} of {limit} exist): {e}"),
                            }
                        }
                    }
                }
                Op::DropPort(i) => {
                    if !ports.is_empty() {
                        let k = idx(*i, ports.len());
                        let p = ports.remove(k);
                        drop(p);
                    }
                }
                Op::DropService(i) => {
                    if !handles.is_empty() {
                        let key = handles[idx(*i, handles.len())].key;
                        ports.retain(|p| p.key != key);
                        while let Some(k) = handles.iter().position(|h| h.key == key) {
                            let h = handles.remove(k);
                            drop(h);
                        }
                    }
                }
            }
            // the model keeps a service exactly as long as it has users (handles and ports)
            let alive: BTreeSet<Key> = handles.iter().map(|h| h.key).chain(ports.iter().map(|p| p.key)).collect();
            services.retain(|k, _| alive.contains(k));
            if ports.iter().any(|p| !handles.iter().any(|h| h.key == p.key)) {
                obs.class("seq/service_kept_alive_by_ports_only");
            }
            invariant::<S>(dom, &universe, &services, step)?;
        }
        Ok(())
    })();
    // orderly end: ports, handles, nodes
    ports.clear();
    handles.clear();
    result?;
    services.clear();
    invariant::<S>(dom, &universe, &services, usize::MAX)?;
    drop(nodes);
    obs.nontrivial = opened_with_requirement && recreated;
    if recreated_differently {
        obs.class("seq/recreated_with_different_settings");
    }
    Ok(())
}

fn invariant<S: Service + 'static>(dom: &Domain, universe: &BTreeSet<Key>, services: &BTreeMap<Key, Snap>, step: usize) -> Result<(), Failure> {
    for (n, p) in universe.iter().copied() {
        let sname = service_name(&name_of(n));
        let want = services.contains_key(&(n, p));
        let got = does_exist::<S>(&dom.config, &sname, p).map_err(|e| Failure::new("seq.does_exist_error", format!("step {step}: does_exist({}, {p:?}) failed: {e}", name_of(n))))?;
        ensure!(got == want, if want { "seq.service_vanished_with_users" } else { "seq.service_outlives_users" }, "step {step}: does_exist({}, {p:?}) = {got}, the model has {} users", name_of(n), if want { "live" } else { "no" });
    }
    let listed = list::<S>(&dom.config).map_err(|e| Failure::new("seq.list_error", format!("step {step}: {e}")))?;
    let mut want: Vec<Snap> = services.values().cloned().collect();
    want.sort_by(|a, b| (a.name.as_str(), a.hash.as_str()).cmp(&(b.name.as_str(), b.hash.as_str())));
    ensure!(listed == want, "seq.list_differs", "step {step}: Service::list shows {listed:?}, the live services are {want:?}");
    if std::any::TypeId::of::<S>() == std::any::TypeId::of::<iceoryx2::service::ipc::Service>() {
        let files = service_files(dom);
        ensure!(files == services.len(), "seq.static_config_files", "step {step}: {files} static config files under the root, {} services have users", services.len());
    }
    Ok(())
}

// ---------------------------------------------------------------------------------------------
// generators

/// creators mostly set generous limits, openers mostly state few and small requirements, so that
/// a good share of the opens succeeds
fn lim(creator: bool) -> BoxedStrategy<Option<u8>> {
    if creator { prop_oneof![4 => Just(None), 1 => Just(Some(0u8)), 1 => Just(Some(1)), 3 => Just(Some(2)), 3 => Just(Some(4))].boxed() } else { prop_oneof![14 => Just(None), 1 => Just(Some(0u8)), 2 => Just(Some(1)), 2 => Just(Some(2)), 1 => Just(Some(4))].boxed() }
}
fn flag(creator: bool) -> BoxedStrategy<Option<bool>> {
    if creator { prop_oneof![3 => Just(None), 1 => Just(Some(true)), 1 => Just(Some(false))].boxed() } else { prop_oneof![10 => Just(None), 1 => Just(Some(true)), 1 => Just(Some(false))].boxed() }
}
fn evid(creator: bool) -> BoxedStrategy<Option<Option<u8>>> {
    if creator { prop_oneof![3 => Just(None), 1 => Just(Some(None)), 1 => Just(Some(Some(1u8))), 1 => Just(Some(Some(2)))].boxed() } else { prop_oneof![12 => Just(None), 1 => Just(Some(None)), 1 => Just(Some(Some(1u8))), 1 => Just(Some(Some(2)))].boxed() }
}
fn deadline(creator: bool) -> BoxedStrategy<Option<Option<u16>>> {
    if creator { prop_oneof![4 => Just(None), 1 => Just(Some(None)), 1 => Just(Some(Some(10u16))), 1 => Just(Some(Some(20)))].boxed() } else { prop_oneof![12 => Just(None), 1 => Just(Some(None)), 1 => Just(Some(Some(10u16))), 1 => Just(Some(Some(20)))].boxed() }
}
fn tyidx(n: u8) -> BoxedStrategy<u8> {
    prop_oneof![10 => Just(0u8), 2 => 0..n].boxed()
}
fn align(creator: bool) -> BoxedStrategy<Option<u8>> {
    if creator { prop_oneof![6 => Just(None), 1 => Just(Some(3u8)), 1 => Just(Some(4)), 1 => Just(Some(6))].boxed() } else { prop_oneof![16 => Just(None), 1 => Just(Some(3u8)), 1 => Just(Some(4)), 1 => Just(Some(6))].boxed() }
}
fn attrs(creator: bool) -> BoxedStrategy<(Vec<(u8, u8)>, Vec<u8>)> {
    if creator {
        (prop_oneof![3 => Just(vec![]), 2 => Just(vec![(0u8, 0u8)]), 1 => Just(vec![(0, 1)]), 2 => Just(vec![(0, 0), (0, 1)]), 1 => Just(vec![(1, 0)])], Just(vec![])).boxed()
    } else {
        (prop_oneof![10 => Just(vec![]), 1 => Just(vec![(0u8, 0u8)]), 1 => Just(vec![(0, 1)]), 1 => Just(vec![(1, 0)])], prop_oneof![10 => Just(vec![]), 1 => Just(vec![0u8]), 1 => Just(vec![1])]).boxed()
    }
}

/// `creator`: settings for a `create`; otherwise requirements for an `open` / `open_or_create`
pub fn spec_strategy(p: Pattern, creator: bool) -> BoxedStrategy<Spec> {
    let c = creator;
    let set: BoxedStrategy<Set> = match p {
        Pattern::PubSub => ((tyidx(N_PAYLOADS), prop_oneof![10 => Just(0u8), 1 => 0..N_HEADERS], align(c), lim(c), lim(c)), (lim(c), lim(c), lim(c), lim(c), flag(c)))
            .prop_map(|((ty, hdr, align, pubs, subs), (nodes, history, buffer, borrowed, overflow))| Set::Ps(PsSet { ty, hdr, align, pubs, subs, nodes, history, buffer, borrowed, overflow }))
            .boxed(),
        Pattern::Event => (lim(c), lim(c), lim(c), prop_oneof![6 => Just(None), 1 => Just(Some(4u8)), 1 => Just(Some(8))], evid(c), evid(c), evid(c), deadline(c))
            .prop_map(|(notifiers, listeners, nodes, max_id, created, dropped, dead, deadline)| Set::Ev(EvSet { notifiers, listeners, nodes, max_id, created, dropped, dead, deadline }))
            .boxed(),
        Pattern::ReqRes => ((tyidx(N_PAYLOADS), prop_oneof![12 => Just(0u8), 1 => 0..N_HEADERS], tyidx(N_PAYLOADS), prop_oneof![12 => Just(0u8), 1 => 0..N_HEADERS], align(c), align(c)), (lim(c), lim(c), lim(c), lim(c), lim(c), lim(c), lim(c)), (flag(c), flag(c), flag(c)))
            .prop_map(|((req, req_hdr, res, res_hdr, req_align, res_align), (active, loaned, borrowed, buffer, servers, clients, nodes), (ovf_req, ovf_res, faf))| Set::Rr(RrSet { req, req_hdr, res, res_hdr, req_align, res_align, active, loaned, borrowed, buffer, servers, clients, nodes, ovf_req, ovf_res, faf }))
            .boxed(),
        Pattern::Blackboard => (prop_oneof![8 => Just(0u8), 2 => 0..N_KEYS], lim(c), lim(c), prop_oneof![1 => Just(0u8), 10 => Just(1), 3 => Just(3)]).prop_map(|(key, readers, nodes, entries)| Set::Bb(BbSet { key, readers, nodes, entries })).boxed(),
    };
    (set, attrs(c)).prop_map(|(set, (attrs, req_keys))| Spec { set, attrs, req_keys }.legalized()).boxed()
}

fn call_strategy(main: Pattern) -> BoxedStrategy<Op> {
    let pattern = || prop_oneof![12 => Just(main), 1 => Just(Pattern::PubSub), 1 => Just(Pattern::Event), 1 => Just(Pattern::ReqRes), 1 => Just(Pattern::Blackboard)];
    let node = || 0u8..3;
    let name = || prop_oneof![8 => Just(0u8), 1 => Just(1u8)];
    prop_oneof![
        3 => (node(), name(), pattern().prop_flat_map(|p| spec_strategy(p, true))).prop_map(|(node, name, spec)| Op::Call { node, name, verb: Verb::Create, spec }),
        6 => (node(), name(), pattern().prop_flat_map(|p| spec_strategy(p, false))).prop_map(|(node, name, spec)| Op::Call { node, name, verb: Verb::Open, spec }),
        3 => (node(), name(), pattern().prop_flat_map(|p| spec_strategy(p, false))).prop_map(|(node, name, spec)| Op::Call { node, name, verb: Verb::OpenOrCreate, spec }),
    ]
    .boxed()
}

fn op_strategy(main: Pattern) -> BoxedStrategy<Op> {
    prop_oneof![
        12 => call_strategy(main),
        2 => any::<u16>().prop_map(Op::DropHandle),
        2 => (any::<u16>(), 0u8..2).prop_map(|(h, kind)| Op::CreatePort { h, kind }),
        2 => any::<u16>().prop_map(Op::DropPort),
        2 => any::<u16>().prop_map(Op::DropService),
    ]
    .boxed()
}

pub fn case_strategy(max_ops: usize) -> BoxedStrategy<SeqCase> {
    (any::<bool>(), 1u8..=3, prop_oneof![Just(Pattern::PubSub), Just(Pattern::Event), Just(Pattern::ReqRes), Just(Pattern::Blackboard)])
        .prop_flat_map(move |(ipc, nodes, main)| (Just(ipc), Just(nodes), proptest::collection::vec(op_strategy(main), 4..=max_ops)))
        .prop_map(|(ipc, nodes, ops)| SeqCase { ipc, nodes, ops })
        .boxed()
}

// ---------------------------------------------------------------------------------------------
// bounded-exhaustive part: all op sequences of a fixed length over a reduced alphabet

#[derive(Clone, Debug, Serialize, Deserialize)]
pub struct ExhCase {
    pub pattern: Pattern,
    /// indices into the reduced alphabet (see `exh_alphabet`)
    pub ops: Vec<u8>,
}

pub const EXH_ALPHABET: usize = 9;

/// Reduced alphabet over two nodes and one name. `A` and `B` are two different settings of the
/// same type (B supports one node only), the open_or_create op asks for a third one.
pub fn exh_alphabet(p: Pattern) -> Vec<Op> {
    let (a, b, o1, o2, c) = match p {
        Pattern::PubSub => (
            Spec { set: Set::Ps(PsSet { pubs: Some(2), subs: Some(2), history: Some(1), ..Default::default() }), attrs: vec![(0, 0)], req_keys: vec![] },
            Spec { set: Set::Ps(PsSet { pubs: Some(1), nodes: Some(1), overflow: Some(false), ..Default::default() }), attrs: vec![], req_keys: vec![] },
            Spec { set: Set::Ps(PsSet::default()), attrs: vec![], req_keys: vec![] },
            Spec { set: Set::Ps(PsSet { pubs: Some(2), ..Default::default() }), attrs: vec![], req_keys: vec![] },
            Spec { set: Set::Ps(PsSet { ty: 1, pubs: Some(1), ..Default::default() }), attrs: vec![], req_keys: vec![] },
        ),
        _ => (
            Spec { set: Set::Ev(EvSet { notifiers: Some(2), listeners: Some(2), max_id: Some(4), created: Some(Some(1)), ..Default::default() }), attrs: vec![(0, 0)], req_keys: vec![] },
            Spec { set: Set::Ev(EvSet { notifiers: Some(1), nodes: Some(1), deadline: Some(Some(50)), ..Default::default() }), attrs: vec![], req_keys: vec![] },
            Spec { set: Set::Ev(EvSet::default()), attrs: vec![], req_keys: vec![] },
            Spec { set: Set::Ev(EvSet { notifiers: Some(2), created: Some(Some(1)), ..Default::default() }), attrs: vec![], req_keys: vec![] },
            Spec { set: Set::Ev(EvSet { listeners: Some(4), deadline: Some(None), ..Default::default() }), attrs: vec![], req_keys: vec![] },
        ),
    };
    vec![
        Op::Call { node: 0, name: 0, verb: Verb::Create, spec: a },
        Op::Call { node: 1, name: 0, verb: Verb::Create, spec: b },
        Op::Call { node: 1, name: 0, verb: Verb::Open, spec: o1 },
        Op::Call { node: 0, name: 0, verb: Verb::Open, spec: o2 },
        Op::Call { node: 0, name: 0, verb: Verb::OpenOrCreate, spec: c },
        Op::DropHandle(0),
        Op::DropHandle(u16::MAX),
        Op::CreatePort { h: u16::MAX, kind: 1 },
        Op::DropPort(0),
    ]
}

pub fn exh_to_seq(c: &ExhCase) -> SeqCase {
    let alpha = exh_alphabet(c.pattern);
    SeqCase { ipc: false, nodes: 2, ops: c.ops.iter().map(|i| alpha[*i as usize % alpha.len()].clone()).collect() }
}

/// all sequences of exactly `len` ops (every prefix is checked on the way)
pub fn exh_cases(len: usize) -> impl Iterator<Item = ExhCase> {
    let total = (EXH_ALPHABET as u64).pow(len as u32);
    [Pattern::PubSub, Pattern::Event].into_iter().flat_map(move |pattern| {
        (0..total).map(move |mut n| {
            let mut ops = vec![0u8; len];
            for k in (0..len).rev() {
                ops[k] = (n % EXH_ALPHABET as u64) as u8;
                n /= EXH_ALPHABET as u64;
            }
            ExhCase { pattern, ops }
        })
    })
}
