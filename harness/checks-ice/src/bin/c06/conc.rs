//! Part 3: real threads (each with its own node) and, in a second part, real processes run short
//! programs of create / open / open_or_create / drop on ONE service name, many repetitions per
//! case with seeded start skew and seeded noise at the instrumented atomics. Only invariants over
//! the observed outcome are checked; "overlap" and "alive at the same time" are decided from
//! per-call begin/end stamps drawn from one shared atomic counter (threads: on the heap;
//! processes: in a small shared file mapping), never from time.
use crate::model::*;
use crate::sut::*;
use checks_ice::domain::Domain;
use iceoryx2::config::Config;
use iceoryx2::node::NodeBuilder;
use iceoryx2::service::Service;
use iceoryx2_pal_concurrency_sync::atomic as a;
use serde::{Deserialize, Serialize};
use std::cell::Cell;
use std::collections::BTreeMap;
use std::sync::atomic::{AtomicU64, Ordering};
use std::time::{Duration, Instant};
use vcore::rng::{SplitMix, mix};
use vcore::{Failure, Obs, ensure, fail};

#[derive(Clone, Copy, Debug, PartialEq, Eq, Serialize, Deserialize)]
pub enum COp {
    Create,
    Open,
    OpenOrCreate,
    /// drops the oldest handle this participant holds (nothing if it holds none)
    Drop,
}

#[derive(Clone, Debug, Serialize, Deserialize)]
pub struct ConcCase {
    pub pattern: Pattern,
    pub ipc: bool,
    /// participants are processes (always `ipc`) instead of threads
    pub procs: bool,
    /// `global.creation_timeout`
    pub timeout_ms: u16,
    pub seed: u64,
    pub reps: u16,
    /// per participant: keep the handles that survive the program until the quiescence check
    pub keep: Vec<bool>,
    pub programs: Vec<Vec<COp>>,
}

#[derive(Clone, Debug, Serialize, Deserialize)]
pub enum Out {
    Got { hid: u32, snap: Snap },
    Err(String),
    /// `e == u64::MAX`: the drop had started but not returned when the run was cut short
    Dropped { hid: u32 },
    Nop,
    /// the call had started but not returned when the run was cut short (panic / abort)
    InFlight,
}

#[derive(Clone, Debug, Serialize, Deserialize)]
pub struct Rec {
    pub t: u8,
    pub rep: u16,
    pub op: COp,
    /// stamps taken immediately before the call and immediately after it returned
    pub b: u64,
    pub e: u64,
    pub out: Out,
}

pub const MARKER_KEY: u8 = 2;

/// settings of participant `t`'s `create`: different limits per participant plus an attribute
/// that names the creator
pub fn creator_spec(p: Pattern, t: u8) -> Spec {
    let n = Some(2 + t);
    let set = match p {
        Pattern::PubSub => Set::Ps(PsSet { pubs: n, subs: n, history: Some(t), buffer: Some(4), ..Default::default() }),
        Pattern::Event => Set::Ev(EvSet { notifiers: n, listeners: n, max_id: Some(8 + t), ..Default::default() }),
        Pattern::ReqRes => Set::Rr(RrSet { servers: n, clients: n, active: n, ..Default::default() }),
        Pattern::Blackboard => Set::Bb(BbSet { readers: n, entries: 1 + t, ..Default::default() }),
    };
    Spec { set, attrs: vec![(MARKER_KEY, t)], req_keys: vec![] }
}

/// settings of every `open_or_create`: satisfied by every creator above, so that opening never
/// fails for a compatibility reason
pub fn ooc_spec(p: Pattern) -> Spec {
    let set = match p {
        Pattern::PubSub => Set::Ps(PsSet { pubs: Some(1), subs: Some(2), ..Default::default() }),
        Pattern::Event => Set::Ev(EvSet { notifiers: Some(1), listeners: Some(2), ..Default::default() }),
        Pattern::ReqRes => Set::Rr(RrSet { servers: Some(1), clients: Some(2), ..Default::default() }),
        Pattern::Blackboard => Set::Bb(BbSet::default()),
    };
    Spec { set, attrs: vec![], req_keys: vec![] }
}

pub fn open_spec(p: Pattern) -> Spec {
    Spec::plain(p)
}

// ---------------------------------------------------------------------------------------------
// seeded noise at the instrumented atomics (perturbed mode of DESIGN 3.2)

thread_local! {
    static NOISE: Cell<u64> = const { Cell::new(0) };
}

fn noise_pre(_addr: usize, _size: u8, _kind: a::Kind, _order: a::Ordering) {
    NOISE.with(|n| {
        let s = n.get();
        if s == 0 {
            return;
        }
        let mut r = SplitMix(s);
        let x = r.next();
        n.set(r.0 | 1);
        match x & 0xff {
            0..=5 => unsafe {
                libc::sched_yield();
            },
            6..=8 => {
                let spins = (x >> 8) % 20_000;
                for _ in 0..spins {
                    std::hint::spin_loop();
                }
            }
            9 => std::thread::sleep(Duration::from_micros(50 + (x >> 8) % 150)),
            _ => {}
        }
    });
}
fn noise_load(_addr: usize, _size: u8, _order: a::Ordering, real: u64) -> u64 {
    real
}
fn noise_post(_addr: usize, _size: u8, _kind: a::Kind, _order: a::Ordering, _old: u64, _new: u64) {}
static NOISE_HOOKS: a::Hooks = a::Hooks { pre: noise_pre, load: noise_load, post: noise_post };

pub fn install_noise_hooks() {
    unsafe { a::set_hooks(&NOISE_HOOKS) };
}
pub fn noise_on(seed: u64) {
    NOISE.with(|n| n.set(seed | 1));
}
pub fn noise_off() {
    NOISE.with(|n| n.set(0));
}

// ---------------------------------------------------------------------------------------------
// shared control block: stamp counter, abort flag, barrier, survivor counts

const SLOT_STAMP: usize = 0;
const SLOT_ABORT: usize = 1;
const SLOT_COUNT: usize = 2;
const SLOT_GEN: usize = 3;
const SLOT_SURVIVORS: usize = 8;
const SLOTS: usize = 64;
const HANG_LIMIT: Duration = Duration::from_secs(120);

pub struct Ctrl {
    base: *const AtomicU64,
    map_len: usize,
    _heap: Option<Box<[AtomicU64; SLOTS]>>,
}
unsafe impl Send for Ctrl {}
unsafe impl Sync for Ctrl {}

impl Ctrl {
    pub fn on_heap() -> Ctrl {
        let b: Box<[AtomicU64; SLOTS]> = Box::new(std::array::from_fn(|_| AtomicU64::new(0)));
        Ctrl { base: b.as_ptr(), map_len: 0, _heap: Some(b) }
    }
    /// maps (and with `create` first creates, zeroed) a shared control file
    pub fn in_file(path: &std::path::Path, create: bool) -> Result<Ctrl, String> {
        use std::os::fd::AsRawFd;
        let len = SLOTS * 8;
        let f = std::fs::OpenOptions::new().read(true).write(true).create(create).truncate(create).open(path).map_err(|e| format!("control file: {e}"))?;
        if create {
            f.set_len(len as u64).map_err(|e| format!("control file: {e}"))?;
        }
        let p = unsafe { libc::mmap(std::ptr::null_mut(), len, libc::PROT_READ | libc::PROT_WRITE, libc::MAP_SHARED, f.as_raw_fd(), 0) };
        if p == libc::MAP_FAILED {
            return Err("mmap of the control file failed".into());
        }
        Ok(Ctrl { base: p as *const AtomicU64, map_len: len, _heap: None })
    }
    fn slot(&self, i: usize) -> &AtomicU64 {
        unsafe { &*self.base.add(i) }
    }
    pub fn stamp(&self) -> u64 {
        self.slot(SLOT_STAMP).fetch_add(1, Ordering::SeqCst)
    }
    pub fn abort(&self) {
        self.slot(SLOT_ABORT).store(1, Ordering::SeqCst);
    }
    pub fn aborted(&self) -> bool {
        self.slot(SLOT_ABORT).load(Ordering::SeqCst) != 0
    }
    /// sense-reversing barrier of `n` participants; Err = aborted or a participant never arrived
    pub fn barrier(&self, n: u64) -> Result<(), String> {
        let generation = self.slot(SLOT_GEN).load(Ordering::SeqCst);
        if self.slot(SLOT_COUNT).fetch_add(1, Ordering::SeqCst) + 1 == n {
            self.slot(SLOT_COUNT).store(0, Ordering::SeqCst);
            self.slot(SLOT_GEN).fetch_add(1, Ordering::SeqCst);
            return if self.aborted() { Err("aborted".into()) } else { Ok(()) };
        }
        let t0 = Instant::now();
        let mut spins = 0u32;
        while self.slot(SLOT_GEN).load(Ordering::SeqCst) == generation {
            if self.aborted() {
                return Err("aborted".into());
            }
            spins += 1;
            if spins < 200 {
                std::hint::spin_loop();
            } else if spins < 400 {
                std::thread::yield_now();
            } else {
                std::thread::sleep(Duration::from_micros(100));
                if t0.elapsed() > HANG_LIMIT {
                    self.abort();
                    return Err("hang: a participant did not reach the barrier".into());
                }
            }
        }
        if self.aborted() { Err("aborted".into()) } else { Ok(()) }
    }
}

impl Drop for Ctrl {
    fn drop(&mut self) {
        if self.map_len != 0 {
            unsafe { libc::munmap(self.base as *mut libc::c_void, self.map_len) };
        }
    }
}

fn spin(n: u64) {
    for _ in 0..n {
        std::hint::spin_loop();
    }
}

// ---------------------------------------------------------------------------------------------
// one participant (a thread of the check, or the child process)

/// what a participant observed, plus why it stopped early (if it did)
pub type Outcome = (Vec<Rec>, Option<String>);

pub fn participant<S: Service + 'static>(ctrl: &Ctrl, me: usize, config: &Config, name: &str, case: &ConcCase) -> Outcome {
    let recs = std::cell::RefCell::new(vec![]);
    let r = std::panic::catch_unwind(std::panic::AssertUnwindSafe(|| participant_inner::<S>(ctrl, me, config, name, case, &recs)));
    noise_off();
    let err = match r {
        Ok(Ok(())) => None,
        Ok(Err(e)) => {
            ctrl.abort();
            Some(e)
        }
        Err(p) => {
            ctrl.abort();
            Some(format!("panic: {}", vcore::util::panic_message(&p)))
        }
    };
    (recs.into_inner(), err)
}

fn participant_inner<S: Service + 'static>(ctrl: &Ctrl, me: usize, config: &Config, name: &str, case: &ConcCase, recs: &std::cell::RefCell<Vec<Rec>>) -> Result<(), String> {
    let n_all = case.programs.len() as u64 + 1;
    let sname = service_name(name);
    let node = NodeBuilder::new().config(config).create::<S>().map_err(|e| format!("node creation failed: {e:?}"))?;
    let program = &case.programs[me];
    let keep = case.keep.get(me).copied().unwrap_or(false);
    let mut next_hid = 0u32;
    let t = me as u8;
    // a record is written when the call starts (e = MAX) and completed when it returned, so that a
    // run that is cut short still shows what was in flight
    let begin = |rep: u16, op: COp, out: Out| {
        let b = ctrl.stamp();
        recs.borrow_mut().push(Rec { t, rep, op, b, e: u64::MAX, out });
    };
    let end = |out: Out| {
        let e = ctrl.stamp();
        let mut r = recs.borrow_mut();
        let last = r.last_mut().expect("begin before end");
        last.e = e;
        last.out = out;
    };
    for rep in 0..case.reps {
        let mut rng = SplitMix(mix(mix(case.seed, rep as u64 + 1), me as u64 + 1));
        let mut held: Vec<(u32, Box<dyn Handle>)> = vec![];
        ctrl.barrier(n_all)?;
        spin(rng.below(40_000));
        noise_on(rng.next());
        for op in program {
            spin(rng.below(4_000));
            match op {
                COp::Drop => {
                    if held.is_empty() {
                        begin(rep, *op, Out::Nop);
                        end(Out::Nop);
                    } else {
                        let (hid, h) = held.remove(0);
                        begin(rep, *op, Out::Dropped { hid });
                        drop(h);
                        end(Out::Dropped { hid });
                    }
                }
                _ => {
                    let (verb, spec) = match op {
                        COp::Create => (Verb::Create, creator_spec(case.pattern, t)),
                        COp::Open => (Verb::Open, open_spec(case.pattern)),
                        _ if case.pattern == Pattern::Blackboard => (Verb::Open, open_spec(case.pattern)),
                        _ => (Verb::OpenOrCreate, ooc_spec(case.pattern)),
                    };
                    begin(rep, *op, Out::InFlight);
                    match apply(&node, &sname, verb, &spec) {
                        Ok(h) => {
                            let hid = next_hid;
                            next_hid += 1;
                            let snap = h.snap();
                            end(Out::Got { hid, snap });
                            held.push((hid, h));
                        }
                        Err(e) => end(Out::Err(e)),
                    }
                }
            };
        }
        let drop_all = |held: &mut Vec<(u32, Box<dyn Handle>)>| {
            while !held.is_empty() {
                let (hid, h) = held.remove(0);
                begin(rep, COp::Drop, Out::Dropped { hid });
                drop(h);
                end(Out::Dropped { hid });
            }
        };
        if !keep {
            drop_all(&mut held);
        }
        noise_off();
        ctrl.slot(SLOT_SURVIVORS + me).store(held.len() as u64, Ordering::SeqCst);
        ctrl.barrier(n_all)?; // programs done
        ctrl.barrier(n_all)?; // controller looked at the quiescent state
        noise_on(rng.next());
        drop_all(&mut held);
        noise_off();
        ctrl.barrier(n_all)?; // everything dropped
    }
    drop(node);
    Ok(())
}

// ---------------------------------------------------------------------------------------------
// controller (the check's thread)

fn quiescent<S: Service>(dom: &Domain, name: &str, p: Pattern, want: bool, what: &str) -> Result<(), Failure> {
    let config = &dom.config;
    let sname = service_name(name);
    if !want {
        // ipc: the static config file is gone, too
        let dir = dom.root.join("services");
        let files: Vec<String> = std::fs::read_dir(dir).map(|rd| rd.flatten().map(|e| e.file_name().to_string_lossy().to_string()).filter(|n| n.ends_with(".service")).collect()).unwrap_or_default();
        ensure!(files.is_empty(), "conc.service_outlives_users", "{what}: static config files remain: {files:?}");
    }
    let got = does_exist::<S>(config, &sname, p).map_err(|e| Failure::new("conc.does_exist_error", format!("{what}: does_exist failed with {e}")))?;
    ensure!(got == want, if want { "conc.service_vanished_with_users" } else { "conc.service_outlives_users" }, "{what}: does_exist = {got}");
    let listed = list::<S>(config).map_err(|e| Failure::new("conc.list_error", format!("{what}: {e}")))?;
    let in_list = listed.iter().any(|s| s.name == name);
    ensure!(in_list == want, if want { "conc.service_vanished_with_users" } else { "conc.service_outlives_users" }, "{what}: Service::list {} the service", if in_list { "shows" } else { "does not show" });
    Ok(())
}

/// Err((repetition, failure))
fn controller<S: Service>(ctrl: &Ctrl, dom: &Domain, name: &str, case: &ConcCase) -> Result<(), (u16, Failure)> {
    let n = case.programs.len();
    let n_all = n as u64 + 1;
    let mut first: Option<(u16, Failure)> = None;
    let bar = |ctrl: &Ctrl, rep: u16| ctrl.barrier(n_all).map_err(|e| (rep, Failure::new(if e.starts_with("hang") { "conc.hang" } else { "conc.aborted" }, e)));
    for rep in 0..case.reps {
        bar(ctrl, rep)?;
        bar(ctrl, rep)?;
        let survivors: u64 = (0..n).map(|i| ctrl.slot(SLOT_SURVIVORS + i).load(Ordering::SeqCst)).sum();
        if first.is_none() {
            first = quiescent::<S>(dom, name, case.pattern, survivors > 0, &format!("repetition {rep}, all programs finished, {survivors} handles are still held")).err().map(|f| (rep, f));
        }
        bar(ctrl, rep)?;
        bar(ctrl, rep)?;
        if first.is_none() {
            first = quiescent::<S>(dom, name, case.pattern, false, &format!("repetition {rep}, every handle dropped")).err().map(|f| (rep, f));
        }
    }
    match first {
        Some(f) => Err(f),
        None => Ok(()),
    }
}

/// reference snapshots: what a service created with each participant's settings (and with the
/// open_or_create settings) looks like, taken sequentially on a scratch name
#[derive(Clone, Debug, PartialEq)]
struct RefCfg {
    attrs: Vec<(String, String)>,
    cfg: Cfg,
    raw: String,
}

fn reference<S: Service + 'static>(config: &Config, case: &ConcCase) -> Result<Vec<RefCfg>, Failure> {
    let node = NodeBuilder::new().config(config).create::<S>().map_err(|e| Failure::new("harness.node_create", format!("{e:?}")))?;
    let scratch = service_name("c06/conc/reference");
    let mut v = vec![];
    for t in 0..case.programs.len() as u8 {
        let h = apply(&node, &scratch, Verb::Create, &creator_spec(case.pattern, t)).map_err(|e| Failure::new("harness.reference_create", e))?;
        let s = h.snap();
        check_created(&creator_spec(case.pattern, t), &s, config, "c06/conc/reference").map_err(|m| Failure::new("conc.created_settings", m))?;
        v.push(RefCfg { attrs: s.attrs, cfg: s.cfg, raw: s.raw });
    }
    if case.pattern != Pattern::Blackboard {
        let h = apply(&node, &scratch, Verb::OpenOrCreate, &ooc_spec(case.pattern)).map_err(|e| Failure::new("harness.reference_create", e))?;
        let s = h.snap();
        v.push(RefCfg { attrs: s.attrs, cfg: s.cfg, raw: s.raw });
    }
    Ok(v)
}

/// `known(signature)`: is this an open known finding? Those are collected (returned in `Ok`) and
/// the remaining invariants are still checked.
pub type Known<'a> = &'a dyn Fn(&str) -> bool;

pub fn run(case: &ConcCase, obs: &mut Obs, known: Known) -> Result<Vec<Failure>, Failure> {
    if case.ipc || case.procs { run_on::<iceoryx2::service::ipc::Service>(case, obs, known) } else { run_on::<iceoryx2::service::local::Service>(case, obs, known) }
}

fn run_on<S: Service + 'static>(case: &ConcCase, obs: &mut Obs, known: Known) -> Result<Vec<Failure>, Failure> {
    checks_ice::silence_iceoryx_log();
    let mut dom = Domain::new();
    dom.config.global.creation_timeout = Duration::from_millis(case.timeout_ms as u64);
    let mut exposed = false;
    let r = run_in::<S>(&dom, case, obs, known, &mut exposed);
    let left = if r.is_ok() { dom.leftovers() } else { vec![] };
    dom.cleanup();
    let mut tolerated = r?;
    if !left.is_empty() {
        let f = Failure::new("conc.leftover", format!("after all participants dropped everything these remain: {left:?}"));
        let f = if exposed { reclassify(f, "some repetition") } else { f };
        if known(&f.signature) {
            tolerated.push(f);
        } else {
            return Err(f);
        }
    }
    Ok(tolerated)
}

pub const DOUBLE_DESTRUCTION: &str = "conc.double_destruction.concurrent_last_deregistrations";

/// A failure observed in a repetition in which two participants deregistered their nodes from
/// the same service at the same time is attributed to the known defect that both then consider
/// themselves the last owner and both remove the service (see known_findings.jsonl).
fn reclassify(f: Failure, what: &str) -> Failure {
    Failure::new(DOUBLE_DESTRUCTION, format!("[{}] {} — {what} contains two concurrent last deregistrations from one service, after which both participants destroy it and the slower one can remove the static config of a service created in between", f.signature, f.message))
}

fn run_in<S: Service + 'static>(dom: &Domain, case: &ConcCase, obs: &mut Obs, known: Known, any_exposed: &mut bool) -> Result<Vec<Failure>, Failure> {
    let name = "c06/conc/service";
    let n = case.programs.len();
    ensure!((2..=4).contains(&n) && case.keep.len() == n, "harness.case", "malformed case");
    let refs = reference::<S>(&dom.config, case)?;
    let (ctl, outcomes): (Result<(), (u16, Failure)>, Vec<Outcome>) = if case.procs {
        run_processes(dom, name, case)?
    } else {
        let ctrl = Ctrl::on_heap();
        std::thread::scope(|s| {
            let hs: Vec<_> = (0..n)
                .map(|i| {
                    let ctrl = &ctrl;
                    let config = &dom.config;
                    s.spawn(move || participant::<S>(ctrl, i, config, name, case))
                })
                .collect();
            let c = controller::<S>(&ctrl, dom, name, case);
            if c.is_err() {
                ctrl.abort();
            }
            (c, hs.into_iter().map(|h| h.join().unwrap_or_else(|_| (vec![], Some("panic: participant thread panicked outside the guarded region".into())))).collect())
        })
    };
    let mut all = vec![];
    let mut stopped: Vec<(usize, String, u16)> = vec![];
    for (i, (recs, err)) in outcomes.into_iter().enumerate() {
        if let Some(e) = err {
            stopped.push((i, e, recs.last().map(|r| r.rep).unwrap_or(0)));
        }
        all.extend(recs);
    }
    let exposed: Vec<u16> = (0..case.reps).filter(|rep| exposed_to_double_destruction(&all, *rep).is_some()).collect();
    *any_exposed = !exposed.is_empty();
    if *any_exposed {
        obs.class("conc/concurrent_last_deregistrations");
    }
    let classify = |rep: u16, f: Failure| if exposed.contains(&rep) { reclassify(f, &format!("repetition {rep}")) } else { f };
    let mut tolerated = vec![];
    let mut file = |f: Failure, tolerated: &mut Vec<Failure>| -> Result<(), Failure> {
        if known(&f.signature) {
            tolerated.push(f);
            Ok(())
        } else {
            Err(f)
        }
    };
    // a participant that panicked or failed explains an aborted controller: report it first
    let mut cut_short = false;
    for (i, e, rep) in &stopped {
        if e == "aborted" {
            cut_short = true;
            continue;
        }
        cut_short = true;
        let sig = if e.starts_with("panic") {
            "conc.panic"
        } else if e.starts_with("hang") {
            "conc.hang"
        } else {
            "conc.participant_failed"
        };
        file(classify(*rep, Failure::new(sig, format!("participant {i}, repetition {rep}: {e}"))), &mut tolerated)?;
    }
    if let Err((rep, f)) = ctl {
        cut_short = true;
        if f.signature != "conc.aborted" || tolerated.is_empty() {
            file(classify(rep, f), &mut tolerated)?;
        }
    }
    tolerated.extend(check_records(case, name, &all, &refs, obs, known, &exposed, cut_short)?);
    Ok(tolerated)
}

/// Two participants whose nodes left the same service (their last handle of it was dropped) in
/// overlapping drop calls: Some(description).
fn exposed_to_double_destruction(recs: &[Rec], rep: u16) -> Option<String> {
    struct D {
        t: u8,
        uid: String,
        b: u64,
        e: u64,
    }
    let rs: Vec<&Rec> = recs.iter().filter(|r| r.rep == rep).collect();
    // (participant, hid) -> (uid, stamp the handle was obtained, stamp its drop began)
    let mut hs: Vec<(u8, u32, &str, u64, u64, u64)> = vec![];
    for r in &rs {
        if let Out::Got { hid, snap } = &r.out {
            let d = rs.iter().find(|d| d.t == r.t && matches!(&d.out, Out::Dropped { hid: x } if x == hid));
            hs.push((r.t, *hid, snap.uid.as_str(), r.b, d.map(|d| d.b).unwrap_or(u64::MAX), d.map(|d| d.e).unwrap_or(u64::MAX)));
        }
    }
    // drops after which the participant holds no other handle of that service: the node deregisters
    let mut ds: Vec<D> = vec![];
    for (t, hid, uid, _, db, de) in &hs {
        if *db == u64::MAX {
            continue;
        }
        let other_alive = hs.iter().any(|(t2, hid2, uid2, got2, db2, _)| t2 == t && hid2 != hid && uid2 == uid && got2 < db && db2 > db);
        if !other_alive {
            ds.push(D { t: *t, uid: uid.to_string(), b: *db, e: *de });
        }
    }
    for (i, x) in ds.iter().enumerate() {
        for y in &ds[i + 1..] {
            if x.t != y.t && x.uid == y.uid && x.b.max(y.b) < x.e.min(y.e) {
                return Some(format!("participants {} and {} left service {} in overlapping drops [{}..{}] / [{}..{}]", x.t, y.t, x.uid, x.b, x.e, y.b, y.e));
            }
        }
    }
    None
}

// ---------------------------------------------------------------------------------------------
// processes

static CTRL_FILES: AtomicU64 = AtomicU64::new(0);

fn run_processes(dom: &Domain, name: &str, case: &ConcCase) -> Result<(Result<(), (u16, Failure)>, Vec<Outcome>), Failure> {
    use std::io::Read;
    use std::process::{Command, Stdio};
    let path = vcore::util::run_dir().join(format!("c06-ctrl-{}", CTRL_FILES.fetch_add(1, Ordering::Relaxed)));
    let ctrl = Ctrl::in_file(&path, true).map_err(|e| Failure::new("harness.ctrl", e))?;
    let exe = std::env::current_exe().map_err(|e| Failure::new("harness.exe", e.to_string()))?;
    let case_json = serde_json::to_string(case).unwrap();
    let mut children = vec![];
    for i in 0..case.programs.len() {
        let c = Command::new(&exe)
            .arg(crate::CHILD_FLAG)
            .arg(&path)
            .arg(i.to_string())
            .arg(&dom.root)
            .arg(&dom.prefix)
            .arg(name)
            .arg(&case_json)
            .stdin(Stdio::null())
            .stdout(Stdio::piped())
            .stderr(Stdio::null())
            .spawn()
            .map_err(|e| Failure::new("harness.spawn", e.to_string()));
        match c {
            Ok(c) => children.push(c),
            Err(f) => {
                ctrl.abort();
                for mut c in children {
                    let _ = c.kill();
                    let _ = c.wait();
                }
                let _ = std::fs::remove_file(&path);
                return Err(f);
            }
        }
    }
    let ctl = controller::<iceoryx2::service::ipc::Service>(&ctrl, dom, name, case);
    if ctl.is_err() {
        ctrl.abort();
    }
    let hung = matches!(&ctl, Err((_, f)) if f.signature == "conc.hang");
    let mut outs = vec![];
    for (i, mut c) in children.into_iter().enumerate() {
        if hung {
            let _ = c.kill();
        }
        let mut s = String::new();
        if let Some(mut o) = c.stdout.take() {
            let _ = o.read_to_string(&mut s);
        }
        let status = c.wait();
        let mut recs = vec![];
        let mut err: Option<String> = None;
        for line in s.lines() {
            if let Some(j) = line.strip_prefix("REC ") {
                match serde_json::from_str::<Rec>(j) {
                    Ok(r) => recs.push(r),
                    Err(e) => err = Some(format!("unreadable record from child {i}: {e}")),
                }
            } else if let Some(m) = line.strip_prefix("FAIL ") {
                err = Some(m.to_string());
            }
        }
        if err.is_none() && !s.lines().any(|l| l == "DONE") {
            err = Some(if hung { "hang: the child was killed after the hang limit".to_string() } else { format!("panic: child {i} ended without a result ({status:?})") });
        }
        outs.push((recs, err));
    }
    drop(ctrl);
    let _ = std::fs::remove_file(&path);
    Ok((ctl, outs))
}

/// entry of the child process: `<exe> --c06-child <ctrl file> <index> <root> <prefix> <service name> <case json>`
pub fn child_main(args: &[String]) -> i32 {
    iceoryx2_log::set_log_level(iceoryx2_log::LogLevel::Fatal);
    std::panic::set_hook(Box::new(|_| {}));
    if args.len() < 6 {
        println!("FAIL usage: --c06-child <ctrl> <index> <root> <prefix> <name> <case>");
        return 2;
    }
    let ctrl = match Ctrl::in_file(std::path::Path::new(&args[0]), false) {
        Ok(c) => c,
        Err(e) => {
            println!("FAIL {e}");
            return 2;
        }
    };
    let me: usize = args[1].parse().unwrap_or(0);
    let case: ConcCase = match serde_json::from_str(&args[5]) {
        Ok(c) => c,
        Err(e) => {
            ctrl.abort();
            println!("FAIL case does not decode: {e}");
            return 2;
        }
    };
    install_noise_hooks();
    let mut dom = Domain::at(&args[3], std::path::Path::new(&args[2]));
    dom.config.global.creation_timeout = Duration::from_millis(case.timeout_ms as u64);
    let (recs, err) = participant::<iceoryx2::service::ipc::Service>(&ctrl, me, &dom.config, &args[4], &case);
    for r in recs {
        println!("REC {}", serde_json::to_string(&r).unwrap());
    }
    match err {
        None => {
            println!("DONE");
            0
        }
        Some(e) => {
            println!("FAIL {}", e.replace('\n', " "));
            1
        }
    }
}

// ---------------------------------------------------------------------------------------------
// the oracle over the observed records

struct H<'a> {
    t: u8,
    snap: &'a Snap,
    /// stamp after the acquiring call returned / before the dropping call started
    alive_from: u64,
    alive_to: u64,
    by: COp,
}

#[derive(Default)]
struct Seen {
    any_ok: bool,
    any_err: bool,
    overlapped: bool,
}

#[allow(clippy::too_many_arguments)]
fn check_records(case: &ConcCase, name: &str, recs: &[Rec], refs: &[RefCfg], obs: &mut Obs, known: Known, exposed: &[u16], cut_short: bool) -> Result<Vec<Failure>, Failure> {
    let mut tolerated: Vec<Failure> = vec![];
    let p = case.pattern;
    obs.class(st(&format!("conc/{}/{}", p.name(), if case.procs { "processes" } else if case.ipc { "ipc threads" } else { "local threads" })));
    let mut seen = Seen::default();
    for rep in 0..case.reps {
        if let Err(f) = check_rep(case, name, recs, refs, obs, known, rep, cut_short, &mut seen, &mut tolerated) {
            let f = if exposed.contains(&rep) { reclassify(f, &format!("repetition {rep}")) } else { f };
            if known(&f.signature) {
                tolerated.push(f);
            } else {
                return Err(f);
            }
        }
    }
    if seen.overlapped {
        obs.class("conc/calls_overlapped");
    }
    obs.nontrivial = seen.overlapped && seen.any_ok && seen.any_err;
    Ok(tolerated)
}

#[allow(clippy::too_many_arguments)]
fn check_rep(case: &ConcCase, name: &str, recs: &[Rec], refs: &[RefCfg], obs: &mut Obs, known: Known, rep: u16, cut_short: bool, seen: &mut Seen, tolerated: &mut Vec<Failure>) -> Result<(), Failure> {
    let p = case.pattern;
    let n = case.programs.len();
    let rs: Vec<&Rec> = recs.iter().filter(|r| r.rep == rep).collect();
    // handles
    let mut hs: Vec<H> = vec![];
    for r in &rs {
        if let Out::Got { hid, snap } = &r.out {
            let dropped = rs.iter().find(|d| d.t == r.t && matches!(&d.out, Out::Dropped { hid: x } if x == hid));
            let alive_to = match dropped {
                Some(d) => d.b,
                None if cut_short => u64::MAX,
                None => fail!("harness.records", "handle {hid} of participant {} was never dropped", r.t),
            };
            hs.push(H { t: r.t, snap, alive_from: r.e, alive_to, by: r.op });
        }
    }
    let verb_of = |op: COp| match op {
        COp::Create => Verb::Create,
        COp::Open => Verb::Open,
        _ if p == Pattern::Blackboard => Verb::Open,
        _ => Verb::OpenOrCreate,
    };
    for r in &rs {
        if r.op == COp::Drop {
            continue;
        }
        let verb = verb_of(r.op);
        // every call returns a service or an error documented for contention
        match &r.out {
            Out::Err(e) => {
                seen.any_err = true;
                obs.class(st(&format!("conc/{}/{verb:?}/{e}", p.name())));
                if !contention_error_allowed(verb, e) {
                    let f = Failure::new(format!("conc.undocumented_error.{}.{verb:?}.{e}", p.name()), format!("repetition {rep}: participant {} {verb:?} failed with {e}, which the documentation does not explain by contention", r.t));
                    if known(&f.signature) {
                        tolerated.push(f);
                    } else {
                        return Err(f);
                    }
                }
            }
            Out::Got { .. } => {
                seen.any_ok = true;
                obs.class(st(&format!("conc/{}/{verb:?}/ok", p.name())));
            }
            _ => {}
        }
        if rs.iter().any(|o| o.t != r.t && o.op != COp::Drop && o.b.max(r.b) < o.e.min(r.e)) {
            seen.overlapped = true;
        }
        // calls that ran entirely while somebody held a handle
        if let Some(h) = hs.iter().find(|h| h.alive_from < r.b && h.alive_to > r.e) {
            match (&r.out, verb) {
                (Out::Got { .. }, Verb::Create) => fail!("conc.create_succeeded_on_live_service", "repetition {rep}: participant {} created the service while participant {} held a handle of it during the whole call", r.t, h.t),
                (Out::Err(e), Verb::Open | Verb::OpenOrCreate) if contention_error_allowed(verb, e) => fail!("conc.open_failed_on_live_service", "repetition {rep}: participant {} {verb:?} failed with {e} while participant {} held a handle during the whole call", r.t, h.t),
                _ => {}
            }
        }
    }
    // every handle shows a complete configuration: the one of exactly one creator
    let mut by_uid: BTreeMap<&str, Vec<&H>> = BTreeMap::new();
    for h in &hs {
        ensure!(h.snap.name == name, "conc.config_incomplete", "repetition {rep}: a handle of participant {} shows the service name {:?}", h.t, h.snap.name);
        let rc = RefCfg { attrs: h.snap.attrs.clone(), cfg: h.snap.cfg.clone(), raw: h.snap.raw.clone() };
        ensure!(refs.contains(&rc), "conc.config_incomplete", "repetition {rep}: a handle of participant {} shows a static config no creator asked for: {:?}", h.t, h.snap);
        by_uid.entry(h.snap.uid.as_str()).or_default().push(h);
    }
    for (uid, group) in &by_uid {
        let first = group[0];
        for h in group {
            ensure!(h.snap == first.snap, "conc.config_differs_between_handles", "repetition {rep}: two handles of service {uid} show different configs: {:?} / {:?}", first.snap, h.snap);
        }
        let creates: Vec<&&H> = group.iter().filter(|h| h.by == COp::Create).collect();
        ensure!(creates.len() <= 1, "conc.two_creates_one_service", "repetition {rep}: {} create calls returned the same service {uid}", creates.len());
        let marker = first.snap.attrs.iter().find(|(k, _)| *k == attr_key(MARKER_KEY)).map(|(_, v)| v.clone());
        match marker {
            Some(m) => {
                let t = (0..n as u8).find(|t| attr_val(*t) == m);
                ensure!(cut_short || (creates.len() == 1 && Some(creates[0].t) == t), "conc.service_without_creator", "repetition {rep}: service {uid} carries the settings of participant {t:?}'s create, but that create did not return it (creates returning it: {:?})", creates.iter().map(|h| h.t).collect::<Vec<_>>());
            }
            None => {
                ensure!(creates.is_empty(), "conc.creator_got_foreign_config", "repetition {rep}: a create call returned a service with the open_or_create settings");
                ensure!(cut_short || group.iter().any(|h| h.by == COp::OpenOrCreate), "conc.service_without_creator", "repetition {rep}: service {uid} has the open_or_create settings but no open_or_create returned it");
            }
        }
    }
    // at most one service of the name is alive at any instant
    for (i, g) in hs.iter().enumerate() {
        for h in &hs[i + 1..] {
            if g.snap.uid != h.snap.uid && g.alive_from.max(h.alive_from) < g.alive_to.min(h.alive_to) {
                fail!("conc.two_services_alive", "repetition {rep}: participants {} and {} held handles of two different services ({} by {:?}, {} by {:?}) of the same name at the same time", g.t, h.t, g.snap.uid, g.by, h.snap.uid, h.by);
            }
        }
    }
    if by_uid.len() > 1 {
        obs.class("conc/recreated_within_repetition");
    }
    Ok(())
}

// ---------------------------------------------------------------------------------------------
// generator

pub fn random_case(rng: &mut SplitMix, procs: bool, reps: u16) -> ConcCase {
    let pattern = PATTERNS[rng.below(4) as usize];
    let n = if procs { rng.range(2, 3) } else { rng.range(2, 4) } as usize;
    let mut programs = vec![];
    for _ in 0..n {
        let len = rng.range(1, 4);
        let mut prog = vec![];
        for _ in 0..len {
            prog.push(match rng.below(10) {
                0..=2 => COp::Create,
                3..=5 => COp::Open,
                6..=7 => COp::OpenOrCreate,
                _ => COp::Drop,
            });
        }
        programs.push(prog);
    }
    // somebody has to be able to bring the service into existence
    if !programs.iter().flatten().any(|o| matches!(o, COp::Create) || (matches!(o, COp::OpenOrCreate) && pattern != Pattern::Blackboard)) {
        let t = rng.below(n as u64) as usize;
        programs[t].insert(0, COp::Create);
    }
    ConcCase { pattern, ipc: procs || rng.chance(1, 2), procs, timeout_ms: *rng.pick(&[50u16, 100, 200]), seed: rng.next(), reps, keep: (0..n).map(|_| rng.chance(1, 2)).collect(), programs }
}
