//! C06 — service creation is atomic and its lifetime follows its users.
//!
//! Parts:
//! * `seq.exhaustive` — all op sequences of a fixed length over a reduced alphabet (two nodes,
//!   one name, two creator settings, two openers, one open_or_create, drop oldest / newest
//!   handle, create / drop port) for publish-subscribe and event on `local`;
//! * `seq.random` — proptest histories over 1..3 nodes, two names, all four patterns, `local`
//!   and `ipc`, settings / requirements from small grids (model in `model.rs`);
//! * `pairs` — the product creator setting x opener requirement, one setting varied per side;
//! * `conc.threads` / `conc.processes` — 2..4 threads / 2..3 processes (this binary re-executed
//!   with `--c06-child`, see `c06_child.rs`) racing create / open / open_or_create / drop on one
//!   name with a small creation timeout; invariants over the observed outcome only.
extern crate iceoryx2_bb_loggers;

mod conc;
mod model;
mod pairs;
mod seq;
mod sut;

use vcore::rng::hash_str;
use vcore::{Ctx, Failure, Obs, Spec};

pub const CHILD_FLAG: &str = "--c06-child";

const SPEC: Spec = Spec {
    prop: "C06",
    level: "exploration",
    rule: "seq: histories of create/open/open_or_create/drop handle/create port/drop port over 1..3 nodes, 2 names, 4 patterns, local+ipc, settings and requirements from small grids (limits {unset,0,1,2,4}, flags, 8 payload / 4 header / 3 key type descriptions, alignments, event ids, deadlines, attributes); bounded-exhaustive: every sequence of a fixed length over a 9-op alphabet for pub-sub and event (every prefix checked); oracle per op = documented result (success iff absent / present and every explicitly set requirement satisfied, else a matching error variant), opened handle == creator's static config, created config == requested settings, does_exist + Service::list + static config files == model after every step; non-trivial = an open with an explicit requirement succeeded on an existing service AND a name was created again after its last user (handle or port) was dropped. pairs: full product of one-setting creator variants x one-requirement opener variants per pattern; non-trivial = an explicit requirement was decided (satisfied, or violated with a unique expected variant); failed opens must leave existence, static config and registered nodes untouched. conc: 2..4 threads / 2..3 processes, programs of 1..4 ops on one name, N repetitions with seeded skew and seeded noise at the instrumented atomics; invariants: documented contention errors only, every handle shows exactly one creator's complete config, handles of two different services of the name are never alive at the same instant (stamps from a shared counter), calls that ran entirely while a handle was held behave as on a stable service, existence at quiescence == surviving handles, nothing left at the end; non-trivial = calls of two participants overlapped and both a success and a documented failure were seen. distinct = hash of the case",
    assumptions: &[
        "zero limits are generated only for the builders whose clamping to 1 is documented (sized payload types, event, blackboard); the slice / custom-type builders do not clamp (see C08 finding service.slice_builder_zero_limit_not_clamped)",
        "the service hash contains the messaging pattern, so the same name with another pattern is another service: IncompatibleMessagingPattern is unreachable through the public API and not part of the table",
        "user header types are varied in name and size only; the rule for a user header with a larger alignment is not documented",
        "port creation is only attempted below the service's port limits (limits are C08)",
        "under contention only AlreadyExists / IsBeingCreatedByAnotherInstance / HangsInCreation (create), DoesNotExist / HangsInCreation / IsMarkedForDestruction (open), these wrapped or SystemInFlux (open_or_create) are accepted; InternalFailure, ServiceInCorruptedState, InsufficientPermissions are documented as implementation or configuration problems and count as violations",
        "thread / process interleavings are sampled (kernel-blocking protocol), not enumerated; the process part runs as root, so permission-based locking of the static config is not an obstacle for readers",
        "a participant that does not reach a barrier within 120 s (normal: milliseconds) ends the case as discarded (counted; more than 1 % discarded cases make the run inconclusive): time never decides the property",
    ],
    watchdog_quick_s: 1500,
    watchdog_thorough_s: 10800,
};

fn conc_part(ctx: &mut Ctx, part: &str, procs: bool, total: u64, reps: u16) {
    if !ctx.part_enabled(part) {
        return;
    }
    if let Some(case) = ctx.replay_case::<conc::ConcCase>(part) {
        // not bit-reproducible: the same programs and seed, up to 20 executions
        for _ in 0..20 {
            let (obs, r) = run_conc_forked(ctx, &case);
            ctx.record(part, 0, &obs, || serde_json::to_value(&case).unwrap());
            match r {
                Ok(tolerated) => {
                    for f in tolerated {
                        ctx.violation(part, &f, serde_json::to_value(&case).unwrap());
                    }
                }
                Err(f) => {
                    ctx.violation(part, &f, serde_json::to_value(&case).unwrap());
                    break;
                }
            }
        }
        return;
    }
    let mut rng = ctx.rng(part);
    for _ in 0..ctx.share(total) {
        let case = conc::random_case(&mut rng, procs, reps);
        // every case runs in a forked copy of this (single-threaded) worker: iceoryx2's fatal panics
        // abort the process, and an abort must end one case, not the worker's whole share
        let (mut obs, r) = run_conc_forked(ctx, &case);
        let r = match r {
            // a starved machine is not a verdict, and neither is a participant that did not reach a barrier
            // within the (wall-clock) hang limit: time never decides a property; such cases are discarded
            // and counted (more than 1 % of them make the run inconclusive, exit 2)
            Err(f) if f.signature == "harness.slow" || f.signature == "conc.hang" || f.signature == "conc.case" => {
                ctx.note(format!("discarded: {}: {}", f.signature, f.message.chars().take(300).collect::<String>()));
                obs.discarded = true;
                Ok(vec![])
            }
            r => r,
        };
        let key = hash_str(&serde_json::to_string(&case).unwrap());
        ctx.record(part, key, &obs, || serde_json::to_value(&case).unwrap());
        match r {
            Ok(tolerated) => {
                for f in tolerated {
                    ctx.violation(part, &f, serde_json::to_value(&case).unwrap());
                }
            }
            Err(f) => {
                let before = ctx.violation_count();
                ctx.violation(part, &f, serde_json::to_value(&case).unwrap());
                if ctx.violation_count() > before {
                    break;
                }
            }
        }
    }
}

/// Abort signature of a consequence of the known double destruction (see known_findings.jsonl):
/// a node that still holds a handle of a service whose static config a slower second destroyer
/// removed calls `create` for that name; the creation succeeds (two services of one name) and
/// `RegisteredServices::insert` ends the process with "was already registered".
const ABORT_ALREADY_REGISTERED: &str = "conc.abort.create_by_node_still_holding_the_doubly_destroyed_service";

fn run_conc_forked(ctx: &Ctx, case: &conc::ConcCase) -> (Obs, Result<Vec<Failure>, Failure>) {
    let (obs, r) = Ctx::forked_value(std::time::Duration::from_secs(600), "conc.case", true, |obs| {
        let tolerated = conc::run(case, obs, &|s| ctx.is_open_finding(s))?;
        Ok(vcore::json!(tolerated.iter().map(|f| vcore::json!([f.signature, f.message])).collect::<Vec<_>>()))
    });
    let r = match r {
        Ok(v) => Ok(v
            .as_array()
            .map(|a| a.iter().map(|x| Failure::new(x[0].as_str().unwrap_or("?"), x[1].as_str().unwrap_or("?"))).collect())
            .unwrap_or_default()),
        Err(f) if f.signature == "conc.case.crash" && f.message.contains("RegisteredServices::insert()") && f.message.contains("was already registered") => {
            Err(Failure::new(ABORT_ALREADY_REGISTERED, f.message))
        }
        Err(f) => Err(f),
    };
    (obs, r)
}

/// Root cause probe of the known finding `conc.double_destruction...`: iceoryx2 treats
/// `ReleaseState::Locked` of `Container::remove(handle, LockIfLastIndex)` as "this node was the
/// last owner". Two owners that release the last two entries at the same time both get `Locked`.
fn dereg_probe(ctx: &mut Ctx) {
    use iceoryx2_bb_lock_free::mpmc::container::{FixedSizeContainer, OwnerId};
    use iceoryx2_bb_lock_free::mpmc::unique_index_set_enums::{ReleaseMode, ReleaseState};
    use std::sync::atomic::{AtomicU32, Ordering};
    const PART: &str = "dereg.probe";
    if !ctx.part_enabled(PART) || ctx.replay.is_some() {
        return;
    }
    let iterations = ctx.share(ctx.scale(3_000, 60_000));
    let mut rng = ctx.rng(PART);
    let mut both = 0u64;
    for _ in 0..iterations {
        let c = FixedSizeContainer::<u64, 4>::new();
        let h1 = c.add(1, OwnerId::new(1).unwrap()).expect("space").1;
        let h2 = c.add(2, OwnerId::new(2).unwrap()).expect("space").1;
        let ready = AtomicU32::new(0);
        let (s1, s2) = (rng.next(), rng.next());
        let run = |h, seed: u64| {
            ready.fetch_add(1, Ordering::SeqCst);
            while ready.load(Ordering::SeqCst) < 2 {
                std::hint::spin_loop();
            }
            conc::noise_on(seed);
            let r = unsafe { c.remove(h, ReleaseMode::LockIfLastIndex) };
            conc::noise_off();
            r
        };
        let (r1, r2) = std::thread::scope(|s| {
            let a = s.spawn(|| run(h1, s1));
            let b = s.spawn(|| run(h2, s2));
            (a.join().unwrap(), b.join().unwrap())
        });
        if r1 == Ok(ReleaseState::Locked) && r2 == Ok(ReleaseState::Locked) {
            both += 1;
        }
    }
    let mut obs = Obs::default();
    obs.nontrivial = true;
    obs.class(if both > 0 { "dereg/both_releasers_saw_locked" } else { "dereg/race_not_hit" });
    let case = vcore::json!({"iterations": iterations, "both_locked": both});
    ctx.record(PART, ctx.worker as u64, &obs, || case.clone());
    ctx.probe_finding(
        PART,
        conc::DOUBLE_DESTRUCTION,
        if both > 0 { Some(format!("{both} of {iterations} concurrent releases of the last two container entries with LockIfLastIndex returned ReleaseState::Locked to BOTH releasers; DynamicConfig::deregister_node_id maps Locked to NoMoreOwners, so both nodes destroy the service")) } else { None },
        case,
    );
}

fn body(ctx: &mut Ctx) {
    checks_ice::silence_iceoryx_log();
    conc::install_noise_hooks();

    let len = ctx.scale(4usize, 5);
    ctx.enumerate("seq.exhaustive", &format!("all sequences of {len} ops over the 9-op reduced alphabet, publish-subscribe and event, local, 2 nodes, 1 name"), seq::exh_cases(len), |c, obs| seq::run(&seq::exh_to_seq(c), obs));

    ctx.proptest("seq.random", ctx.scale(2_000, 40_000), seq::case_strategy(ctx.scale(24, 40)), |c, obs| seq::run(c, obs));

    let (ipc_every, ooc_every) = (ctx.scale(2, 1), ctx.scale(3, 1));
    ctx.enumerate("pairs", "product of one-setting creator variants x one-requirement opener variants, 4 patterns", pairs::cases(ipc_every, ooc_every).into_iter(), |c, obs| pairs::run(c, obs));

    dereg_probe(ctx);
    conc_part(ctx, "conc.threads", false, ctx.scale(300, 6_000), ctx.scale(10, 16));
    conc_part(ctx, "conc.processes", true, ctx.scale(40, 800), ctx.scale(8, 12));
}

fn main() {
    let argv: Vec<String> = std::env::args().collect();
    if argv.get(1).map(|s| s.as_str()) == Some(CHILD_FLAG) {
        std::process::exit(conc::child_main(&argv[2..]));
    }
    vcore::main(SPEC, body);
}
