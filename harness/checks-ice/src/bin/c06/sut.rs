//! Typed layer of C06: serialisable settings / requirements for the four messaging patterns, the
//! dispatch onto the instantiated payload / header / key types, type-erased service handles and
//! the snapshot (`Snap`) of what a handle or `Service::details` exposes.
//!
//! Payload and header types are varied in two ways: with real Rust types (`u64`, `u32`, `[u64]`,
//! `()`), and - to vary the type name, size, alignment and variant one at a time - through the
//! `[CustomPayloadMarker]` / `CustomHeaderMarker` path the language bindings use (the conformance
//! tests `create_with_custom_payload_type_works` / `open_with_custom_payload_type_works` show
//! that both paths describe the same service).
use iceoryx2::node::Node;
use iceoryx2::prelude::*;
use iceoryx2::service::Service;
use iceoryx2::service::attribute::{AttributeKey, AttributeSet, AttributeValue};
use iceoryx2::service::builder::blackboard::{Creator, Opener};
use iceoryx2::service::builder::event::EventOpenOrCreateError;
use iceoryx2::service::builder::publish_subscribe::PublishSubscribeOpenOrCreateError;
use iceoryx2::service::builder::request_response::RequestResponseOpenOrCreateError;
use iceoryx2::service::marker::{CustomHeaderMarker, CustomPayloadMarker};
use iceoryx2::service::port_factory::PortFactory as PortFactoryTrait;
use iceoryx2::service::port_factory::{blackboard as pf_bb, event as pf_ev, publish_subscribe as pf_ps, request_response as pf_rr};
use iceoryx2::service::static_config::StaticConfig;
use iceoryx2::service::static_config::message_type_details::{TypeDetail, TypeVariant};
use iceoryx2::service::static_config::messaging_pattern::MessagingPattern as StaticPattern;
use serde::{Deserialize, Serialize};
use std::any::Any;
use std::fmt::Debug;
use std::hash::Hash;
use std::time::Duration;

#[derive(Clone, Copy, Debug, PartialEq, Eq, Hash, PartialOrd, Ord, Serialize, Deserialize)]
pub enum Pattern {
    PubSub,
    Event,
    ReqRes,
    Blackboard,
}

pub const PATTERNS: [Pattern; 4] = [Pattern::PubSub, Pattern::Event, Pattern::ReqRes, Pattern::Blackboard];

impl Pattern {
    pub fn name(self) -> &'static str {
        match self {
            Pattern::PubSub => "pubsub",
            Pattern::Event => "event",
            Pattern::ReqRes => "reqres",
            Pattern::Blackboard => "blackboard",
        }
    }
    pub fn messaging(self) -> MessagingPattern {
        match self {
            Pattern::PubSub => MessagingPattern::PublishSubscribe,
            Pattern::Event => MessagingPattern::Event,
            Pattern::ReqRes => MessagingPattern::RequestResponse,
            Pattern::Blackboard => MessagingPattern::Blackboard,
        }
    }
}

#[derive(Clone, Copy, Debug, PartialEq, Eq, Hash, PartialOrd, Ord, Serialize, Deserialize)]
pub enum Verb {
    Create,
    Open,
    OpenOrCreate,
}

/// publish-subscribe settings (create) / requirements (open); `None` = not set by the caller
#[derive(Clone, Debug, Default, PartialEq, Eq, Hash, Serialize, Deserialize)]
pub struct PsSet {
    /// index into `PAYLOADS`
    pub ty: u8,
    /// index into `HEADERS`
    pub hdr: u8,
    /// `payload_alignment(2^n)`
    pub align: Option<u8>,
    pub pubs: Option<u8>,
    pub subs: Option<u8>,
    pub nodes: Option<u8>,
    pub history: Option<u8>,
    pub buffer: Option<u8>,
    pub borrowed: Option<u8>,
    pub overflow: Option<bool>,
}

/// event ids / deadline: `None` = not set, `Some(None)` = explicitly disabled, `Some(Some(v))`
#[derive(Clone, Debug, Default, PartialEq, Eq, Hash, Serialize, Deserialize)]
pub struct EvSet {
    pub notifiers: Option<u8>,
    pub listeners: Option<u8>,
    pub nodes: Option<u8>,
    pub max_id: Option<u8>,
    pub created: Option<Option<u8>>,
    pub dropped: Option<Option<u8>>,
    pub dead: Option<Option<u8>>,
    /// milliseconds
    pub deadline: Option<Option<u16>>,
}

#[derive(Clone, Debug, Default, PartialEq, Eq, Hash, Serialize, Deserialize)]
pub struct RrSet {
    pub req: u8,
    pub req_hdr: u8,
    pub res: u8,
    pub res_hdr: u8,
    pub req_align: Option<u8>,
    pub res_align: Option<u8>,
    pub active: Option<u8>,
    pub loaned: Option<u8>,
    pub borrowed: Option<u8>,
    pub buffer: Option<u8>,
    pub servers: Option<u8>,
    pub clients: Option<u8>,
    pub nodes: Option<u8>,
    pub ovf_req: Option<bool>,
    pub ovf_res: Option<bool>,
    pub faf: Option<bool>,
}

#[derive(Clone, Debug, PartialEq, Eq, Hash, Serialize, Deserialize)]
pub struct BbSet {
    /// index into `KEYS`
    pub key: u8,
    pub readers: Option<u8>,
    pub nodes: Option<u8>,
    /// create only: number of key-value pairs added (0 = documented `NoEntriesProvided`)
    pub entries: u8,
}

impl Default for BbSet {
    fn default() -> Self {
        BbSet { key: 0, readers: None, nodes: None, entries: 1 }
    }
}

#[derive(Clone, Debug, PartialEq, Eq, Hash, Serialize, Deserialize)]
pub enum Set {
    Ps(PsSet),
    Ev(EvSet),
    Rr(RrSet),
    Bb(BbSet),
}

/// What a caller passes to create / open / open_or_create.
#[derive(Clone, Debug, PartialEq, Eq, Hash, Serialize, Deserialize)]
pub struct Spec {
    pub set: Set,
    /// (key index, value index): defined by `create`, required by `open`, both by `open_or_create`
    pub attrs: Vec<(u8, u8)>,
    /// `AttributeVerifier::require_key` (open / open_or_create only)
    pub req_keys: Vec<u8>,
}

impl Spec {
    pub fn plain(p: Pattern) -> Spec {
        Spec {
            set: match p {
                Pattern::PubSub => Set::Ps(PsSet::default()),
                Pattern::Event => Set::Ev(EvSet::default()),
                Pattern::ReqRes => Set::Rr(RrSet::default()),
                Pattern::Blackboard => Set::Bb(BbSet::default()),
            },
            attrs: vec![],
            req_keys: vec![],
        }
    }
    pub fn pattern(&self) -> Pattern {
        match self.set {
            Set::Ps(_) => Pattern::PubSub,
            Set::Ev(_) => Pattern::Event,
            Set::Rr(_) => Pattern::ReqRes,
            Set::Bb(_) => Pattern::Blackboard,
        }
    }
    /// does the caller state anything beyond the types? (NT rule of the sequential parts)
    pub fn has_explicit_requirement(&self) -> bool {
        if !self.attrs.is_empty() || !self.req_keys.is_empty() {
            return true;
        }
        match &self.set {
            Set::Ps(s) => s.align.is_some() || s.pubs.is_some() || s.subs.is_some() || s.nodes.is_some() || s.history.is_some() || s.buffer.is_some() || s.borrowed.is_some() || s.overflow.is_some(),
            Set::Ev(s) => s.notifiers.is_some() || s.listeners.is_some() || s.nodes.is_some() || s.max_id.is_some() || s.created.is_some() || s.dropped.is_some() || s.dead.is_some() || s.deadline.is_some(),
            Set::Rr(s) => {
                s.req_align.is_some() || s.res_align.is_some() || s.active.is_some() || s.loaned.is_some() || s.borrowed.is_some() || s.buffer.is_some() || s.servers.is_some() || s.clients.is_some() || s.nodes.is_some() || s.ovf_req.is_some() || s.ovf_res.is_some() || s.faf.is_some()
            }
            Set::Bb(s) => s.readers.is_some() || s.nodes.is_some(),
        }
    }
    /// The builders for slice / custom payloads do not clamp zero limits (the sized builders do,
    /// documented by `set_*_to_zero_adjusts_it_to_one`); zero limits are only generated where the
    /// clamping is documented. Maps zeros to ones for the other builders.
    pub fn legalized(mut self) -> Spec {
        fn one(v: &mut Option<u8>) {
            if *v == Some(0) {
                *v = Some(1);
            }
        }
        match &mut self.set {
            Set::Ps(s) => {
                if !ps_is_sized_rust(s) {
                    for v in [&mut s.pubs, &mut s.subs, &mut s.nodes, &mut s.buffer, &mut s.borrowed] {
                        one(v);
                    }
                }
            }
            Set::Rr(s) => {
                if !matches!(rr_rust_combo(s), Some(0..=4)) {
                    for v in [&mut s.active, &mut s.loaned, &mut s.borrowed, &mut s.buffer, &mut s.servers, &mut s.clients, &mut s.nodes] {
                        one(v);
                    }
                }
            }
            _ => {}
        }
        self
    }
}

// ---------------------------------------------------------------------------------------------
// type tables

/// the model's description of a payload / header / key type
#[derive(Clone, Debug, PartialEq, Eq, Hash, Serialize, Deserialize)]
pub struct Td {
    pub dynamic: bool,
    pub name: String,
    pub size: usize,
    pub align: usize,
}

impl Td {
    fn new(dynamic: bool, name: &str, size: usize, align: usize) -> Td {
        Td { dynamic, name: name.to_string(), size, align }
    }
    fn of(d: &TypeDetail) -> Td {
        Td { dynamic: d.variant() == TypeVariant::Dynamic, name: d.type_name().to_string(), size: d.size(), align: d.alignment() }
    }
    fn detail(&self) -> TypeDetail {
        TypeDetail::__internal_new_from_parts(if self.dynamic { TypeVariant::Dynamic } else { TypeVariant::FixedSize }, &self.name, self.size, self.align).expect("type name fits")
    }
}

/// payload types: 0 `u64`, 1 `u32`, 2 `[u64]` (Rust types); 3.. custom descriptions that differ
/// from `u64` in exactly one component (name, size, larger alignment, smaller alignment), 7 =
/// custom twin of `u64`
pub const N_PAYLOADS: u8 = 8;
pub fn payload_td(i: u8) -> Td {
    match i {
        0 => Td::new(false, "u64", 8, 8),
        1 => Td::new(false, "u32", 4, 4),
        2 => Td::new(true, "u64", 8, 8),
        3 => Td::new(false, "i64", 8, 8),
        4 => Td::new(false, "u64", 16, 8),
        5 => Td::new(false, "u64", 8, 16),
        6 => Td::new(false, "u64", 8, 4),
        _ => Td::new(false, "u64", 8, 8),
    }
}

/// user header types: 0 `()`, 1 `u32` (Rust types); 2 custom with another name, 3 custom with
/// another size
pub const N_HEADERS: u8 = 4;
pub fn header_td(i: u8) -> Td {
    match i {
        0 => Td::new(false, "()", 0, 1),
        1 => Td::new(false, "u32", 4, 4),
        2 => Td::new(false, "i32", 4, 4),
        _ => Td::new(false, "u32", 8, 4),
    }
}

/// blackboard key types: 0 `u64`, 1 `u32`, 2 `i64`
pub const N_KEYS: u8 = 3;
pub fn key_td(i: u8) -> Td {
    match i {
        0 => Td::new(false, "u64", 8, 8),
        1 => Td::new(false, "u32", 4, 4),
        _ => Td::new(false, "i64", 8, 8),
    }
}

fn ps_is_rust(s: &PsSet) -> bool {
    s.ty <= 2 && s.hdr <= 1
}
fn ps_is_sized_rust(s: &PsSet) -> bool {
    s.ty <= 1 && s.hdr <= 1
}

/// the request-response type combinations that are instantiated with Rust types
const RR_RUST: [(u8, u8, u8, u8); 6] = [(0, 0, 0, 0), (1, 0, 0, 0), (0, 0, 1, 0), (0, 1, 0, 0), (0, 0, 0, 1), (2, 0, 0, 0)];
fn rr_rust_combo(s: &RrSet) -> Option<usize> {
    RR_RUST.iter().position(|c| *c == (s.req, s.req_hdr, s.res, s.res_hdr))
}

// ---------------------------------------------------------------------------------------------
// snapshots

#[derive(Clone, Debug, PartialEq, Serialize, Deserialize)]
pub enum Cfg {
    Ps { pubs: usize, subs: usize, nodes: usize, history: usize, buffer: usize, borrowed: usize, overflow: bool, payload: Td, hdr: Td },
    Ev { notifiers: usize, listeners: usize, nodes: usize, max_id: usize, created: Option<usize>, dropped: Option<usize>, dead: Option<usize>, deadline_ms: Option<u64> },
    Rr { active: usize, loaned: usize, borrowed: usize, buffer: usize, servers: usize, clients: usize, nodes: usize, ovf_req: bool, ovf_res: bool, faf: bool, req: Td, req_hdr: Td, res: Td, res_hdr: Td },
    Bb { readers: usize, nodes: usize, key: Td },
}

impl Cfg {
    pub fn max_nodes(&self) -> usize {
        match self {
            Cfg::Ps { nodes, .. } | Cfg::Ev { nodes, .. } | Cfg::Rr { nodes, .. } | Cfg::Bb { nodes, .. } => *nodes,
        }
    }
    /// (limit of port kind 0, limit of port kind 1)
    pub fn port_limits(&self) -> (usize, usize) {
        match self {
            Cfg::Ps { pubs, subs, .. } => (*pubs, *subs),
            Cfg::Ev { notifiers, listeners, .. } => (*notifiers, *listeners),
            Cfg::Rr { clients, servers, .. } => (*clients, *servers),
            Cfg::Bb { readers, .. } => (*readers, 1),
        }
    }
}

/// everything a handle (or `Service::details`) tells about the service
#[derive(Clone, Debug, PartialEq, Serialize, Deserialize)]
pub struct Snap {
    pub name: String,
    /// `UniqueServiceId` - a new one for every successful creation
    pub uid: String,
    pub hash: String,
    pub attrs: Vec<(String, String)>,
    pub cfg: Cfg,
    /// Debug rendering of the complete pattern specific static config
    pub raw: String,
}

fn attrs_of(a: &AttributeSet) -> Vec<(String, String)> {
    a.iter().map(|x| (x.key().to_string(), x.value().to_string())).collect()
}

fn cfg_ps(c: &iceoryx2::service::static_config::publish_subscribe::StaticConfig) -> Cfg {
    Cfg::Ps {
        pubs: c.max_publishers(),
        subs: c.max_subscribers(),
        nodes: c.max_nodes(),
        history: c.history_size(),
        buffer: c.subscriber_max_buffer_size(),
        borrowed: c.subscriber_max_borrowed_samples(),
        overflow: c.has_safe_overflow(),
        payload: Td::of(&c.message_type_details().payload),
        hdr: Td::of(&c.message_type_details().user_header),
    }
}
fn cfg_ev(c: &iceoryx2::service::static_config::event::StaticConfig) -> Cfg {
    Cfg::Ev {
        notifiers: c.max_notifiers(),
        listeners: c.max_listeners(),
        nodes: c.max_nodes(),
        max_id: c.event_id_max_value(),
        created: c.notifier_created_event().map(|e| e.as_value()),
        dropped: c.notifier_dropped_event().map(|e| e.as_value()),
        dead: c.notifier_dead_event().map(|e| e.as_value()),
        deadline_ms: c.deadline().map(|d| d.as_millis() as u64),
    }
}
fn cfg_rr(c: &iceoryx2::service::static_config::request_response::StaticConfig) -> Cfg {
    Cfg::Rr {
        active: c.max_active_requests_per_client(),
        loaned: c.max_loaned_requests(),
        borrowed: c.max_borrowed_responses_per_pending_response(),
        buffer: c.max_response_buffer_size(),
        servers: c.max_servers(),
        clients: c.max_clients(),
        nodes: c.max_nodes(),
        ovf_req: c.has_safe_overflow_for_requests(),
        ovf_res: c.has_safe_overflow_for_responses(),
        faf: c.does_support_fire_and_forget_requests(),
        req: Td::of(&c.request_message_type_details().payload),
        req_hdr: Td::of(&c.request_message_type_details().user_header),
        res: Td::of(&c.response_message_type_details().payload),
        res_hdr: Td::of(&c.response_message_type_details().user_header),
    }
}
fn cfg_bb(c: &iceoryx2::service::static_config::blackboard::StaticConfig) -> Cfg {
    Cfg::Bb { readers: c.max_readers(), nodes: c.max_nodes(), key: Td::of(c.type_details()) }
}

/// snapshot of the static details `Service::details` / `Service::list` report
pub fn snap_of_static(c: &StaticConfig) -> Snap {
    let (cfg, raw) = match c.messaging_pattern() {
        StaticPattern::PublishSubscribe(v) => (cfg_ps(v), format!("{v:?}")),
        StaticPattern::Event(v) => (cfg_ev(v), format!("{v:?}")),
        StaticPattern::RequestResponse(v) => (cfg_rr(v), format!("{v:?}")),
        StaticPattern::Blackboard(v) => (cfg_bb(v), format!("{v:?}")),
        #[allow(unreachable_patterns)]
        _ => unreachable!("unknown messaging pattern"),
    };
    Snap { name: c.name().to_string(), uid: c.unique_service_id().value().to_string(), hash: c.service_hash().to_string(), attrs: attrs_of(c.attributes()), cfg, raw }
}

fn snap_of_factory<F: PortFactoryTrait>(f: &F, cfg: Cfg, raw: String) -> Snap {
    Snap { name: f.name().to_string(), uid: f.unique_service_id().value().to_string(), hash: f.service_hash().to_string(), attrs: attrs_of(f.attributes()), cfg, raw }
}

// ---------------------------------------------------------------------------------------------
// handles

/// a type-erased service handle (port factory)
pub trait Handle {
    fn snap(&self) -> Snap;
    /// creates a port of kind 0 (publisher / notifier / client / reader) or 1 (subscriber /
    /// listener / server / writer); the returned box owns the port
    fn make_port(&self, kind: u8) -> Result<Box<dyn Any>, String>;
}

pub type Res = Result<Box<dyn Handle>, String>;

struct PsH<S: Service, T: Debug + IceoryxSend + ?Sized + 'static, H: Debug + ZeroCopySend + 'static>(pf_ps::PortFactory<S, T, H>);
impl<S: Service + 'static, T: Debug + IceoryxSend + ?Sized + 'static, H: Debug + ZeroCopySend + 'static> Handle for PsH<S, T, H> {
    fn snap(&self) -> Snap {
        let c = self.0.static_config();
        snap_of_factory(&self.0, cfg_ps(c), format!("{c:?}"))
    }
    fn make_port(&self, kind: u8) -> Result<Box<dyn Any>, String> {
        if kind == 0 {
            self.0.publisher_builder().create().map(|p| Box::new(p) as Box<dyn Any>).map_err(|e| format!("{e:?}"))
        } else {
            self.0.subscriber_builder().create().map(|p| Box::new(p) as Box<dyn Any>).map_err(|e| format!("{e:?}"))
        }
    }
}

struct EvH<S: Service>(pf_ev::PortFactory<S>);
impl<S: Service + 'static> Handle for EvH<S> {
    fn snap(&self) -> Snap {
        let c = self.0.static_config();
        snap_of_factory(&self.0, cfg_ev(c), format!("{c:?}"))
    }
    fn make_port(&self, kind: u8) -> Result<Box<dyn Any>, String> {
        if kind == 0 {
            self.0.notifier_builder().create().map(|p| Box::new(p) as Box<dyn Any>).map_err(|e| format!("{e:?}"))
        } else {
            self.0.listener_builder().create().map(|p| Box::new(p) as Box<dyn Any>).map_err(|e| format!("{e:?}"))
        }
    }
}

struct RrH<S: Service, A: Debug + IceoryxSend + ?Sized + 'static, AH: Debug + ZeroCopySend + 'static, B: Debug + IceoryxSend + ?Sized + 'static, BH: Debug + ZeroCopySend + 'static>(pf_rr::PortFactory<S, A, AH, B, BH>);
impl<S: Service + 'static, A: Debug + IceoryxSend + ?Sized + 'static, AH: Debug + ZeroCopySend + 'static, B: Debug + IceoryxSend + ?Sized + 'static, BH: Debug + ZeroCopySend + 'static> Handle for RrH<S, A, AH, B, BH> {
    fn snap(&self) -> Snap {
        let c = self.0.static_config();
        snap_of_factory(&self.0, cfg_rr(c), format!("{c:?}"))
    }
    fn make_port(&self, kind: u8) -> Result<Box<dyn Any>, String> {
        if kind == 0 {
            self.0.client_builder().create().map(|p| Box::new(p) as Box<dyn Any>).map_err(|e| format!("{e:?}"))
        } else {
            self.0.server_builder().create().map(|p| Box::new(p) as Box<dyn Any>).map_err(|e| format!("{e:?}"))
        }
    }
}

struct BbH<S: Service, K: Send + Sync + Eq + Clone + Copy + Debug + 'static + ZeroCopySend + Hash>(pf_bb::PortFactory<S, K>);
impl<S: Service + 'static, K: Send + Sync + Eq + Clone + Copy + Debug + 'static + ZeroCopySend + Hash> Handle for BbH<S, K> {
    fn snap(&self) -> Snap {
        let c = self.0.static_config();
        snap_of_factory(&self.0, cfg_bb(c), format!("{c:?}"))
    }
    fn make_port(&self, kind: u8) -> Result<Box<dyn Any>, String> {
        if kind == 0 {
            self.0.reader_builder().create().map(|p| Box::new(p) as Box<dyn Any>).map_err(|e| format!("{e:?}"))
        } else {
            self.0.writer_builder().create().map(|p| Box::new(p) as Box<dyn Any>).map_err(|e| format!("{e:?}"))
        }
    }
}

// ---------------------------------------------------------------------------------------------
// attributes

pub fn attr_key(i: u8) -> String {
    format!("k{i}")
}
pub fn attr_val(i: u8) -> String {
    format!("v{i}")
}
fn akey(i: u8) -> AttributeKey {
    attr_key(i).as_str().try_into().expect("attribute key")
}
fn aval(i: u8) -> AttributeValue {
    attr_val(i).as_str().try_into().expect("attribute value")
}
fn specifier(spec: &Spec) -> AttributeSpecifier {
    let mut a = AttributeSpecifier::new();
    for (k, v) in &spec.attrs {
        a = a.define(&akey(*k), &aval(*v)).expect("few attributes");
    }
    a
}
fn verifier(spec: &Spec) -> AttributeVerifier {
    let mut a = AttributeVerifier::new();
    for (k, v) in &spec.attrs {
        a = a.require(&akey(*k), &aval(*v)).expect("few attributes");
    }
    for k in &spec.req_keys {
        a = a.require_key(&akey(*k)).expect("few attributes");
    }
    a
}

// ---------------------------------------------------------------------------------------------
// error names: the variant name; open_or_create errors become "Open:<variant>" /
// "Create:<variant>" / "SystemInFlux"

fn dbg<E: Debug>(e: E) -> String {
    format!("{e:?}")
}
fn ooc_ps(e: PublishSubscribeOpenOrCreateError) -> String {
    match e {
        PublishSubscribeOpenOrCreateError::PublishSubscribeOpenError(e) => format!("Open:{e:?}"),
        PublishSubscribeOpenOrCreateError::PublishSubscribeCreateError(e) => format!("Create:{e:?}"),
        PublishSubscribeOpenOrCreateError::SystemInFlux => "SystemInFlux".into(),
    }
}
fn ooc_ev(e: EventOpenOrCreateError) -> String {
    match e {
        EventOpenOrCreateError::EventOpenError(e) => format!("Open:{e:?}"),
        EventOpenOrCreateError::EventCreateError(e) => format!("Create:{e:?}"),
        EventOpenOrCreateError::SystemInFlux => "SystemInFlux".into(),
    }
}
fn ooc_rr(e: RequestResponseOpenOrCreateError) -> String {
    match e {
        RequestResponseOpenOrCreateError::RequestResponseOpenError(e) => format!("Open:{e:?}"),
        RequestResponseOpenOrCreateError::RequestResponseCreateError(e) => format!("Create:{e:?}"),
        RequestResponseOpenOrCreateError::SystemInFlux => "SystemInFlux".into(),
    }
}

// ---------------------------------------------------------------------------------------------
// publish-subscribe

type PsB<T, H, S> = iceoryx2::service::builder::publish_subscribe::Builder<T, H, S>;

fn ps_cfg<S: Service, T: Debug + IceoryxSend + ?Sized, H: Debug + ZeroCopySend>(mut b: PsB<T, H, S>, s: &PsSet) -> PsB<T, H, S> {
    if let Some(v) = s.pubs {
        b = b.max_publishers(v as usize);
    }
    if let Some(v) = s.subs {
        b = b.max_subscribers(v as usize);
    }
    if let Some(v) = s.nodes {
        b = b.max_nodes(v as usize);
    }
    if let Some(v) = s.history {
        b = b.history_size(v as usize);
    }
    if let Some(v) = s.buffer {
        b = b.subscriber_max_buffer_size(v as usize);
    }
    if let Some(v) = s.borrowed {
        b = b.subscriber_max_borrowed_samples(v as usize);
    }
    if let Some(v) = s.overflow {
        b = b.enable_safe_overflow(v);
    }
    if let Some(a) = s.align {
        b = b.payload_alignment(Alignment::new(1usize << a).expect("power of two"));
    }
    b
}

fn ps_sized<S: Service + 'static, T: Debug + IceoryxSend + 'static, H: Debug + ZeroCopySend + 'static>(b: PsB<T, H, S>, verb: Verb, spec: &Spec) -> Res {
    match verb {
        Verb::Create => b.create_with_attributes(&specifier(spec)).map(|f| Box::new(PsH(f)) as Box<dyn Handle>).map_err(dbg),
        Verb::Open => b.open_with_attributes(&verifier(spec)).map(|f| Box::new(PsH(f)) as Box<dyn Handle>).map_err(dbg),
        Verb::OpenOrCreate => b.open_or_create_with_attributes(&verifier(spec)).map(|f| Box::new(PsH(f)) as Box<dyn Handle>).map_err(ooc_ps),
    }
}

fn ps_slice<S: Service + 'static, T: Debug + IceoryxSend + ZeroCopySend + 'static, H: Debug + ZeroCopySend + 'static>(b: PsB<[T], H, S>, verb: Verb, spec: &Spec) -> Res {
    match verb {
        Verb::Create => b.create_with_attributes(&specifier(spec)).map(|f| Box::new(PsH(f)) as Box<dyn Handle>).map_err(dbg),
        Verb::Open => b.open_with_attributes(&verifier(spec)).map(|f| Box::new(PsH(f)) as Box<dyn Handle>).map_err(dbg),
        Verb::OpenOrCreate => b.open_or_create_with_attributes(&verifier(spec)).map(|f| Box::new(PsH(f)) as Box<dyn Handle>).map_err(ooc_ps),
    }
}

fn ps_apply<S: Service + 'static>(node: &Node<S>, name: &ServiceName, verb: Verb, spec: &Spec, s: &PsSet) -> Res {
    let sb = || node.service_builder(name);
    if ps_is_rust(s) {
        match (s.ty, s.hdr) {
            (0, 0) => ps_sized(ps_cfg(sb().publish_subscribe::<u64>(), s), verb, spec),
            (0, _) => ps_sized(ps_cfg(sb().publish_subscribe::<u64>().user_header::<u32>(), s), verb, spec),
            (1, 0) => ps_sized(ps_cfg(sb().publish_subscribe::<u32>(), s), verb, spec),
            (1, _) => ps_sized(ps_cfg(sb().publish_subscribe::<u32>().user_header::<u32>(), s), verb, spec),
            (_, 0) => ps_slice(ps_cfg(sb().publish_subscribe::<[u64]>(), s), verb, spec),
            (_, _) => ps_slice(ps_cfg(sb().publish_subscribe::<[u64]>().user_header::<u32>(), s), verb, spec),
        }
    } else {
        let b = sb().publish_subscribe::<[CustomPayloadMarker]>().user_header::<CustomHeaderMarker>();
        let b = unsafe { b.__internal_set_payload_type_details(&payload_td(s.ty).detail()).__internal_set_user_header_type_details(&header_td(s.hdr).detail()) };
        ps_slice(ps_cfg(b, s), verb, spec)
    }
}

// ---------------------------------------------------------------------------------------------
// event

fn ev_apply<S: Service + 'static>(node: &Node<S>, name: &ServiceName, verb: Verb, spec: &Spec, s: &EvSet) -> Res {
    let mut b = node.service_builder(name).event();
    if let Some(v) = s.notifiers {
        b = b.max_notifiers(v as usize);
    }
    if let Some(v) = s.listeners {
        b = b.max_listeners(v as usize);
    }
    if let Some(v) = s.nodes {
        b = b.max_nodes(v as usize);
    }
    if let Some(v) = s.max_id {
        b = b.event_id_max_value(v as usize);
    }
    match s.created {
        Some(Some(v)) => b = b.notifier_created_event(EventId::new(v as usize)),
        Some(None) => b = b.disable_notifier_created_event(),
        None => {}
    }
    match s.dropped {
        Some(Some(v)) => b = b.notifier_dropped_event(EventId::new(v as usize)),
        Some(None) => b = b.disable_notifier_dropped_event(),
        None => {}
    }
    match s.dead {
        Some(Some(v)) => b = b.notifier_dead_event(EventId::new(v as usize)),
        Some(None) => b = b.disable_notifier_dead_event(),
        None => {}
    }
    match s.deadline {
        Some(Some(ms)) => b = b.deadline(Duration::from_millis(ms as u64)),
        Some(None) => b = b.disable_deadline(),
        None => {}
    }
    match verb {
        Verb::Create => b.create_with_attributes(&specifier(spec)).map(|f| Box::new(EvH(f)) as Box<dyn Handle>).map_err(dbg),
        Verb::Open => b.open_with_attributes(&verifier(spec)).map(|f| Box::new(EvH(f)) as Box<dyn Handle>).map_err(dbg),
        Verb::OpenOrCreate => b.open_or_create_with_attributes(&verifier(spec)).map(|f| Box::new(EvH(f)) as Box<dyn Handle>).map_err(ooc_ev),
    }
}

// ---------------------------------------------------------------------------------------------
// request-response

type RrB<A, AH, B, BH, S> = iceoryx2::service::builder::request_response::Builder<A, AH, B, BH, S>;

fn rr_cfg<S: Service, A: Debug + IceoryxSend + ?Sized, AH: Debug + ZeroCopySend, B: Debug + IceoryxSend + ?Sized, BH: Debug + ZeroCopySend>(mut b: RrB<A, AH, B, BH, S>, s: &RrSet) -> RrB<A, AH, B, BH, S> {
    if let Some(v) = s.active {
        b = b.max_active_requests_per_client(v as usize);
    }
    if let Some(v) = s.loaned {
        b = b.max_loaned_requests(v as usize);
    }
    if let Some(v) = s.borrowed {
        b = b.max_borrowed_responses_per_pending_response(v as usize);
    }
    if let Some(v) = s.buffer {
        b = b.max_response_buffer_size(v as usize);
    }
    if let Some(v) = s.servers {
        b = b.max_servers(v as usize);
    }
    if let Some(v) = s.clients {
        b = b.max_clients(v as usize);
    }
    if let Some(v) = s.nodes {
        b = b.max_nodes(v as usize);
    }
    if let Some(v) = s.ovf_req {
        b = b.enable_safe_overflow_for_requests(v);
    }
    if let Some(v) = s.ovf_res {
        b = b.enable_safe_overflow_for_responses(v);
    }
    if let Some(v) = s.faf {
        b = b.enable_fire_and_forget_requests(v);
    }
    if let Some(a) = s.req_align {
        b = b.request_payload_alignment(Alignment::new(1usize << a).expect("power of two"));
    }
    if let Some(a) = s.res_align {
        b = b.response_payload_alignment(Alignment::new(1usize << a).expect("power of two"));
    }
    b
}

macro_rules! rr_verbs {
    ($b:expr, $verb:expr, $spec:expr) => {
        match $verb {
            Verb::Create => $b.create_with_attributes(&specifier($spec)).map(|f| Box::new(RrH(f)) as Box<dyn Handle>).map_err(dbg),
            Verb::Open => $b.open_with_attributes(&verifier($spec)).map(|f| Box::new(RrH(f)) as Box<dyn Handle>).map_err(dbg),
            Verb::OpenOrCreate => $b.open_or_create_with_attributes(&verifier($spec)).map(|f| Box::new(RrH(f)) as Box<dyn Handle>).map_err(ooc_rr),
        }
    };
}

fn rr_apply<S: Service + 'static>(node: &Node<S>, name: &ServiceName, verb: Verb, spec: &Spec, s: &RrSet) -> Res {
    let sb = || node.service_builder(name);
    match rr_rust_combo(s) {
        Some(0) => rr_verbs!(rr_cfg(sb().request_response::<u64, u64>(), s), verb, spec),
        Some(1) => rr_verbs!(rr_cfg(sb().request_response::<u32, u64>(), s), verb, spec),
        Some(2) => rr_verbs!(rr_cfg(sb().request_response::<u64, u32>(), s), verb, spec),
        Some(3) => rr_verbs!(rr_cfg(sb().request_response::<u64, u64>().request_user_header::<u32>(), s), verb, spec),
        Some(4) => rr_verbs!(rr_cfg(sb().request_response::<u64, u64>().response_user_header::<u32>(), s), verb, spec),
        Some(_) => rr_verbs!(rr_cfg(sb().request_response::<[u64], u64>(), s), verb, spec),
        None => {
            let b = sb().request_response::<[CustomPayloadMarker], [CustomPayloadMarker]>().request_user_header::<CustomHeaderMarker>().response_user_header::<CustomHeaderMarker>();
            let b = unsafe {
                b.__internal_set_request_payload_type_details(&payload_td(s.req).detail())
                    .__internal_set_response_payload_type_details(&payload_td(s.res).detail())
                    .__internal_set_request_header_type_details(&header_td(s.req_hdr).detail())
                    .__internal_set_response_header_type_details(&header_td(s.res_hdr).detail())
            };
            rr_verbs!(rr_cfg(b, s), verb, spec)
        }
    }
}

// ---------------------------------------------------------------------------------------------
// blackboard

fn bb_create<S: Service + 'static, K: Send + Sync + Eq + Clone + Copy + Debug + 'static + ZeroCopySend + Hash>(mut b: Creator<K, S>, spec: &Spec, s: &BbSet, key: impl Fn(u8) -> K) -> Res {
    if let Some(v) = s.readers {
        b = b.max_readers(v as usize);
    }
    if let Some(v) = s.nodes {
        b = b.max_nodes(v as usize);
    }
    for i in 0..s.entries {
        b = b.add::<u64>(key(i), 100 + i as u64);
    }
    b.create_with_attributes(&specifier(spec)).map(|f| Box::new(BbH(f)) as Box<dyn Handle>).map_err(dbg)
}

fn bb_open<S: Service + 'static, K: Send + Sync + Eq + Clone + Copy + Debug + 'static + ZeroCopySend + Hash>(mut b: Opener<K, S>, spec: &Spec, s: &BbSet) -> Res {
    if let Some(v) = s.readers {
        b = b.max_readers(v as usize);
    }
    if let Some(v) = s.nodes {
        b = b.max_nodes(v as usize);
    }
    b.open_with_attributes(&verifier(spec)).map(|f| Box::new(BbH(f)) as Box<dyn Handle>).map_err(dbg)
}

fn bb_apply<S: Service + 'static>(node: &Node<S>, name: &ServiceName, verb: Verb, spec: &Spec, s: &BbSet) -> Res {
    let sb = || node.service_builder(name);
    match (verb, s.key) {
        (Verb::Create, 0) => bb_create(sb().blackboard_creator::<u64>(), spec, s, |i| i as u64),
        (Verb::Create, 1) => bb_create(sb().blackboard_creator::<u32>(), spec, s, |i| i as u32),
        (Verb::Create, _) => bb_create(sb().blackboard_creator::<i64>(), spec, s, |i| i as i64),
        (Verb::Open, 0) => bb_open(sb().blackboard_opener::<u64>(), spec, s),
        (Verb::Open, 1) => bb_open(sb().blackboard_opener::<u32>(), spec, s),
        (Verb::Open, _) => bb_open(sb().blackboard_opener::<i64>(), spec, s),
        (Verb::OpenOrCreate, _) => Err("harness: the blackboard has no open_or_create".into()),
    }
}

// ---------------------------------------------------------------------------------------------

/// performs one create / open / open_or_create
pub fn apply<S: Service + 'static>(node: &Node<S>, name: &ServiceName, verb: Verb, spec: &Spec) -> Res {
    match &spec.set {
        Set::Ps(s) => ps_apply(node, name, verb, spec, s),
        Set::Ev(s) => ev_apply(node, name, verb, spec, s),
        Set::Rr(s) => rr_apply(node, name, verb, spec, s),
        Set::Bb(s) => bb_apply(node, name, verb, spec, s),
    }
}

pub fn does_exist<S: Service>(config: &Config, name: &ServiceName, p: Pattern) -> Result<bool, String> {
    S::does_exist(name, config, p.messaging()).map_err(dbg)
}

pub fn details<S: Service>(config: &Config, name: &ServiceName, p: Pattern) -> Result<Option<(Snap, Option<usize>)>, String> {
    S::details(name, config, p.messaging()).map(|d| d.map(|d| (snap_of_static(&d.static_details), d.dynamic_details.map(|x| x.nodes.len())))).map_err(dbg)
}

/// `Service::list`: (snapshot, number of registered nodes) of every listed service, sorted
pub fn list<S: Service>(config: &Config) -> Result<Vec<Snap>, String> {
    let mut v = vec![];
    S::list(config, |d| {
        v.push(snap_of_static(&d.static_details));
        CallbackProgression::Continue
    })
    .map_err(dbg)?;
    v.sort_by(|a, b| (a.name.as_str(), a.hash.as_str()).cmp(&(b.name.as_str(), b.hash.as_str())));
    Ok(v)
}

pub fn service_name(s: &str) -> ServiceName {
    s.try_into().expect("valid service name")
}

/// interns a string for `Obs::class`
pub fn st(s: &str) -> &'static str {
    use std::collections::BTreeMap;
    use std::sync::Mutex;
    static M: Mutex<BTreeMap<String, &'static str>> = Mutex::new(BTreeMap::new());
    let mut m = M.lock().unwrap();
    if let Some(v) = m.get(s) {
        return v;
    }
    let l: &'static str = Box::leak(s.to_string().into_boxed_str());
    m.insert(s.to_string(), l);
    l
}
