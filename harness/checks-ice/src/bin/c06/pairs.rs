//! Part 2: pairwise compatibility. For every pattern the full product of creator settings x
//! opener requirements, where each side differs from the all-default builder in ONE setting
//! (every numeric limit from {0,1,2,4}, both values of every flag, every payload / header / key
//! type of the tables, alignments, event ids, deadlines, attribute sets). With one requirement
//! the matching error variant is unique. A failed open must leave the service untouched.
use crate::model::*;
use crate::sut::*;
use checks_ice::domain::Domain;
use iceoryx2::node::{Node, NodeBuilder};
use iceoryx2::service::Service;
use serde::{Deserialize, Serialize};
use vcore::{Failure, Obs, ensure};

#[derive(Clone, Debug, Serialize, Deserialize)]
pub struct PairCase {
    pub ipc: bool,
    /// the opener uses open_or_create (its settings are requirements then, too)
    pub via_ooc: bool,
    pub creator: Spec,
    pub opener: Spec,
}

const NUMS: [u8; 4] = [0, 1, 2, 4];
const ATTR_SETS: [&[(u8, u8)]; 4] = [&[(0, 0)], &[(0, 1)], &[(0, 0), (0, 1)], &[(1, 0)]];

/// every spec that differs from the plain one in one setting; `opener` adds the requirements only
/// an opener can state (`require_key`)
pub fn variants(p: Pattern, opener: bool) -> Vec<Spec> {
    let base = Spec::plain(p);
    let mut v = vec![base.clone()];
    let mut push = |set: Set| v.push(Spec { set, attrs: vec![], req_keys: vec![] });
    match p {
        Pattern::PubSub => {
            let d = PsSet::default();
            for n in NUMS {
                push(Set::Ps(PsSet { pubs: Some(n), ..d.clone() }));
                push(Set::Ps(PsSet { subs: Some(n), ..d.clone() }));
                push(Set::Ps(PsSet { nodes: Some(n), ..d.clone() }));
                push(Set::Ps(PsSet { history: Some(n), ..d.clone() }));
                push(Set::Ps(PsSet { buffer: Some(n), ..d.clone() }));
                push(Set::Ps(PsSet { borrowed: Some(n), ..d.clone() }));
            }
            for f in [true, false] {
                push(Set::Ps(PsSet { overflow: Some(f), ..d.clone() }));
            }
            for ty in 1..N_PAYLOADS {
                push(Set::Ps(PsSet { ty, ..d.clone() }));
            }
            for hdr in 1..N_HEADERS {
                push(Set::Ps(PsSet { hdr, ..d.clone() }));
            }
            for a in [2u8, 4, 6] {
                push(Set::Ps(PsSet { align: Some(a), ..d.clone() }));
            }
        }
        Pattern::Event => {
            let d = EvSet::default();
            for n in NUMS {
                push(Set::Ev(EvSet { notifiers: Some(n), ..d.clone() }));
                push(Set::Ev(EvSet { listeners: Some(n), ..d.clone() }));
                push(Set::Ev(EvSet { nodes: Some(n), ..d.clone() }));
                push(Set::Ev(EvSet { max_id: Some(n), ..d.clone() }));
            }
            for e in [None, Some(1u8), Some(2)] {
                push(Set::Ev(EvSet { created: Some(e), ..d.clone() }));
                push(Set::Ev(EvSet { dropped: Some(e), ..d.clone() }));
                push(Set::Ev(EvSet { dead: Some(e), ..d.clone() }));
            }
            for dl in [None, Some(10u16), Some(20)] {
                push(Set::Ev(EvSet { deadline: Some(dl), ..d.clone() }));
            }
        }
        Pattern::ReqRes => {
            let d = RrSet::default();
            for n in NUMS {
                push(Set::Rr(RrSet { active: Some(n), ..d.clone() }));
                push(Set::Rr(RrSet { loaned: Some(n), ..d.clone() }));
                push(Set::Rr(RrSet { borrowed: Some(n), ..d.clone() }));
                push(Set::Rr(RrSet { buffer: Some(n), ..d.clone() }));
                push(Set::Rr(RrSet { servers: Some(n), ..d.clone() }));
                push(Set::Rr(RrSet { clients: Some(n), ..d.clone() }));
                push(Set::Rr(RrSet { nodes: Some(n), ..d.clone() }));
            }
            for f in [true, false] {
                push(Set::Rr(RrSet { ovf_req: Some(f), ..d.clone() }));
                push(Set::Rr(RrSet { ovf_res: Some(f), ..d.clone() }));
                push(Set::Rr(RrSet { faf: Some(f), ..d.clone() }));
            }
            for ty in 1..N_PAYLOADS {
                push(Set::Rr(RrSet { req: ty, ..d.clone() }));
                push(Set::Rr(RrSet { res: ty, ..d.clone() }));
            }
            for h in 1..N_HEADERS {
                push(Set::Rr(RrSet { req_hdr: h, ..d.clone() }));
                push(Set::Rr(RrSet { res_hdr: h, ..d.clone() }));
            }
            for a in [2u8, 5] {
                push(Set::Rr(RrSet { req_align: Some(a), ..d.clone() }));
                push(Set::Rr(RrSet { res_align: Some(a), ..d.clone() }));
            }
        }
        Pattern::Blackboard => {
            let d = BbSet::default();
            for n in NUMS {
                push(Set::Bb(BbSet { readers: Some(n), ..d.clone() }));
                push(Set::Bb(BbSet { nodes: Some(n), ..d.clone() }));
            }
            for key in 1..N_KEYS {
                push(Set::Bb(BbSet { key, ..d.clone() }));
            }
            if !opener {
                push(Set::Bb(BbSet { entries: 0, ..d.clone() }));
                push(Set::Bb(BbSet { entries: 3, ..d.clone() }));
            }
        }
    }
    for a in ATTR_SETS {
        v.push(Spec { set: base.set.clone(), attrs: a.to_vec(), req_keys: vec![] });
    }
    if opener {
        for k in [0u8, 1] {
            v.push(Spec { set: base.set.clone(), attrs: vec![], req_keys: vec![k] });
        }
    }
    v.into_iter().map(|s| s.legalized()).collect()
}

/// the enumeration; `ipc_share` / `ooc_share`: every n-th pair also runs on `ipc` / through
/// open_or_create (1 = all)
pub fn cases(ipc_every: usize, ooc_every: usize) -> Vec<PairCase> {
    let mut out = vec![];
    let mut k = 0usize;
    for p in PATTERNS {
        let creators = variants(p, false);
        let openers = variants(p, true);
        for c in &creators {
            for o in &openers {
                k += 1;
                out.push(PairCase { ipc: false, via_ooc: false, creator: c.clone(), opener: o.clone() });
                if k % ipc_every == 0 {
                    out.push(PairCase { ipc: true, via_ooc: false, creator: c.clone(), opener: o.clone() });
                }
                if p != Pattern::Blackboard && k % ooc_every == 0 {
                    out.push(PairCase { ipc: (k / ooc_every) % 2 == 0, via_ooc: true, creator: c.clone(), opener: o.clone() });
                }
            }
        }
    }
    out
}

pub fn run(case: &PairCase, obs: &mut Obs) -> Result<(), Failure> {
    if case.ipc { run_on::<iceoryx2::service::ipc::Service>(case, obs) } else { run_on::<iceoryx2::service::local::Service>(case, obs) }
}

fn run_on<S: Service + 'static>(case: &PairCase, obs: &mut Obs) -> Result<(), Failure> {
    checks_ice::silence_iceoryx_log();
    let dom = Domain::new();
    let r = run_in::<S>(&dom, case, obs);
    let left = if r.is_ok() { dom.leftovers() } else { vec![] };
    dom.cleanup();
    r?;
    ensure!(left.is_empty(), "pair.leftover", "after dropping every handle and node these remain: {left:?}");
    Ok(())
}

/// the requirement-free opener of the creator's own types
fn compatible_opener(creator: &Spec) -> Spec {
    let set = match &creator.set {
        Set::Ps(s) => Set::Ps(PsSet { ty: s.ty, hdr: s.hdr, ..Default::default() }),
        Set::Ev(_) => Set::Ev(EvSet::default()),
        Set::Rr(s) => Set::Rr(RrSet { req: s.req, req_hdr: s.req_hdr, res: s.res, res_hdr: s.res_hdr, ..Default::default() }),
        Set::Bb(s) => Set::Bb(BbSet { key: s.key, ..Default::default() }),
    };
    Spec { set, attrs: vec![], req_keys: vec![] }
}

fn run_in<S: Service + 'static>(dom: &Domain, case: &PairCase, obs: &mut Obs) -> Result<(), Failure> {
    let p = case.creator.pattern();
    let mk = || NodeBuilder::new().config(&dom.config).create::<S>().map_err(|e| Failure::new("harness.node_create", format!("{e:?}")));
    let nodes: [Node<S>; 2] = [mk()?, mk()?];
    let name_s = "c06/pair";
    let name = service_name(name_s);
    obs.class(st(&format!("pair/{}/{}{}", p.name(), if case.ipc { "ipc" } else { "local" }, if case.via_ooc { "/open_or_create" } else { "" })));

    let pre = create_precondition(&case.creator, &dom.config);
    let created = apply(&nodes[0], &name, Verb::Create, &case.creator);
    if !pre.is_empty() {
        match created {
            Ok(_) => return Err(Failure::new("pair.create_succeeded_unexpectedly", format!("create {:?} succeeded, documented: {pre:?}", case.creator))),
            Err(e) => {
                ensure!(pre.contains(e.as_str()), "pair.wrong_create_error", "create {:?} failed with {e}, documented: {pre:?}", case.creator);
                ensure!(!does_exist::<S>(&dom.config, &name, p).map_err(|e| Failure::new("pair.does_exist_error", e))?, "pair.rejected_create_left_service", "the rejected create left a service behind");
                obs.class(st(&format!("pair/{}/create_err/{e}", p.name())));
                return Ok(());
            }
        }
    }
    let creator = created.map_err(|e| Failure::new("pair.create_failed", format!("create {:?} failed with {e}", case.creator)))?;
    let snap0 = creator.snap();
    check_created(&case.creator, &snap0, &dom.config, name_s).map_err(|m| Failure::new("pair.created_settings", format!("create {:?}: {m}", case.creator)))?;

    // with a service for one node only the opener has to be the creator's node
    let opener_node = if snap0.cfg.max_nodes() < 2 { &nodes[0] } else { &nodes[1] };
    let expected = open_violations(&case.opener, &snap0);
    let verb = if case.via_ooc { Verb::OpenOrCreate } else { Verb::Open };
    let res = apply(opener_node, &name, verb, &case.opener);
    let opened = match res {
        Ok(h) => {
            ensure!(expected.is_empty(), "pair.open_succeeded_unexpectedly", "{verb:?} {:?} succeeded on {:?}; the documentation demands {expected:?}", case.opener, snap0);
            let s = h.snap();
            ensure!(s == snap0, "pair.opened_config_differs", "the opened handle shows {s:?}, the creator's handle {snap0:?}");
            obs.class(st(&format!("pair/{}/compatible", p.name())));
            Some(h)
        }
        Err(e) => {
            let bare = if case.via_ooc { e.strip_prefix("Open:").unwrap_or("<create branch of open_or_create>") } else { e.as_str() };
            ensure!(!expected.is_empty(), "pair.open_failed", "{verb:?} {:?} failed with {e} on {:?} although every requirement is satisfied", case.opener, snap0);
            ensure!(expected.contains(bare), "pair.wrong_error", "{verb:?} {:?} failed with {e} on {:?}; documented for the violated requirement: {expected:?}", case.opener, snap0);
            obs.class(st(&format!("pair/{}/err/{bare}", p.name())));
            if expected.len() == 1 {
                obs.nontrivial = true;
            }
            None
        }
    };
    if opened.is_some() && case.opener.has_explicit_requirement() {
        obs.nontrivial = true;
    }
    // untouched
    ensure!(does_exist::<S>(&dom.config, &name, p).map_err(|e| Failure::new("pair.does_exist_error", e))?, "pair.service_vanished", "the service does not exist any more after the {verb:?}");
    let (d, registered) = details::<S>(&dom.config, &name, p).map_err(|e| Failure::new("pair.details_error", e))?.ok_or_else(|| Failure::new("pair.service_vanished", "details() reports no service"))?;
    ensure!(d == snap0, "pair.static_config_changed", "after the {verb:?} the service reads {d:?}, before {snap0:?}");
    let want_nodes = if opened.is_some() && !std::ptr::eq(opener_node, &nodes[0]) { 2 } else { 1 };
    ensure!(registered == Some(want_nodes), "pair.registered_nodes", "after the {verb:?} {registered:?} nodes are registered at the service, expected {want_nodes}");
    ensure!(creator.snap() == snap0, "pair.static_config_changed", "the creator's handle changed");
    let again = apply(opener_node, &name, Verb::Open, &compatible_opener(&case.creator)).map_err(|e| Failure::new("pair.compatible_open_failed", format!("a requirement-free open after the {verb:?} failed with {e}")))?;
    ensure!(again.snap() == snap0, "pair.opened_config_differs", "the second opener sees another static config");
    drop(again);
    drop(opened);
    drop(creator);
    ensure!(!does_exist::<S>(&dom.config, &name, p).map_err(|e| Failure::new("pair.does_exist_error", e))?, "pair.service_outlives_users", "the service still exists after its last handle was dropped");
    drop(nodes);
    Ok(())
}
