//! The documented rules, transcribed from the rustdoc of the builders and of each `*OpenError` /
//! `*CreateError` enum:
//!
//! * numeric limits: "If an existing Service is opened it defines how many ... must be at least
//!   supported" -> the requirement is violated iff `existing < required`; the error is the
//!   `DoesNotSupportRequested...` variant of that limit;
//! * overflow / fire-and-forget flags, event ids, deadline: "requires the service to have the
//!   defined behavior" / "does not fit the required event id" / "are not equal" -> equality;
//! * payload / header / key types: name, size and variant must be equal; the payload alignment of
//!   the service must be at least the required one (`payload_alignment` rustdoc); blackboard keys
//!   must be the same type -> `IncompatibleTypes` / `IncompatibleRequestOrResponseType` /
//!   `IncompatibleKeys`;
//! * attributes: every required key=value pair and every required key must be present ->
//!   `IncompatibleAttributes`;
//! * a requirement counts only if the opener called the setter.
use crate::sut::*;
use iceoryx2::config::Config;
use std::collections::BTreeSet;

pub type Errs = BTreeSet<&'static str>;

fn eff_align(td: &Td, over: Option<u8>) -> Td {
    let mut t = td.clone();
    if let Some(a) = over {
        t.align = t.align.max(1usize << a);
    }
    t
}

/// payload / header description a caller asks for
pub fn ps_types(s: &PsSet) -> (Td, Td) {
    (eff_align(&payload_td(s.ty), s.align), header_td(s.hdr))
}
pub fn rr_types(s: &RrSet) -> (Td, Td, Td, Td) {
    (eff_align(&payload_td(s.req), s.req_align), header_td(s.req_hdr), eff_align(&payload_td(s.res), s.res_align), header_td(s.res_hdr))
}

fn payload_compatible(req: &Td, ex: &Td) -> bool {
    req.name == ex.name && req.dynamic == ex.dynamic && req.size == ex.size && req.align <= ex.align
}

fn attrs_ok(req: &Spec, ex: &Snap) -> bool {
    req.attrs.iter().all(|(k, v)| ex.attrs.iter().any(|(ek, ev)| *ek == attr_key(*k) && *ev == attr_val(*v))) && req.req_keys.iter().all(|k| ex.attrs.iter().any(|(ek, _)| *ek == attr_key(*k)))
}

/// the error variants an `open` with the requirements `req` may report against a service whose
/// static config reads `ex` (empty = the open must succeed as far as the static settings go)
pub fn open_violations(req: &Spec, ex: &Snap) -> Errs {
    let mut e = Errs::new();
    if !attrs_ok(req, ex) {
        e.insert("IncompatibleAttributes");
    }
    let at_least = |e: &mut Errs, r: Option<u8>, have: usize, name: &'static str| {
        if let Some(r) = r {
            if have < r as usize {
                e.insert(name);
            }
        }
    };
    match (&req.set, &ex.cfg) {
        (Set::Ps(s), Cfg::Ps { pubs, subs, nodes, history, buffer, borrowed, overflow, payload, hdr }) => {
            let (p, h) = ps_types(s);
            if !payload_compatible(&p, payload) || !payload_compatible(&h, hdr) {
                e.insert("IncompatibleTypes");
            }
            at_least(&mut e, s.pubs, *pubs, "DoesNotSupportRequestedAmountOfPublishers");
            at_least(&mut e, s.subs, *subs, "DoesNotSupportRequestedAmountOfSubscribers");
            at_least(&mut e, s.nodes, *nodes, "DoesNotSupportRequestedAmountOfNodes");
            at_least(&mut e, s.history, *history, "DoesNotSupportRequestedMinHistorySize");
            at_least(&mut e, s.buffer, *buffer, "DoesNotSupportRequestedMinBufferSize");
            at_least(&mut e, s.borrowed, *borrowed, "DoesNotSupportRequestedMinSubscriberBorrowedSamples");
            if let Some(o) = s.overflow {
                if o != *overflow {
                    e.insert("IncompatibleOverflowBehavior");
                }
            }
        }
        (Set::Ev(s), Cfg::Ev { notifiers, listeners, nodes, max_id, created, dropped, dead, deadline_ms }) => {
            at_least(&mut e, s.notifiers, *notifiers, "DoesNotSupportRequestedAmountOfNotifiers");
            at_least(&mut e, s.listeners, *listeners, "DoesNotSupportRequestedAmountOfListeners");
            at_least(&mut e, s.nodes, *nodes, "DoesNotSupportRequestedAmountOfNodes");
            at_least(&mut e, s.max_id, *max_id, "DoesNotSupportRequestedMaxEventId");
            let same = |r: Option<Option<u8>>, have: &Option<usize>| r.map(|r| r.map(|x| x as usize) == *have).unwrap_or(true);
            if !same(s.created, created) {
                e.insert("IncompatibleNotifierCreatedEvent");
            }
            if !same(s.dropped, dropped) {
                e.insert("IncompatibleNotifierDroppedEvent");
            }
            if !same(s.dead, dead) {
                e.insert("IncompatibleNotifierDeadEvent");
            }
            if let Some(d) = s.deadline {
                if d.map(|x| x as u64) != *deadline_ms {
                    e.insert("IncompatibleDeadline");
                }
            }
        }
        (Set::Rr(s), Cfg::Rr { active, loaned, borrowed, buffer, servers, clients, nodes, ovf_req, ovf_res, faf, req, req_hdr, res, res_hdr }) => {
            let (a, ah, b, bh) = rr_types(s);
            if !payload_compatible(&a, req) || !payload_compatible(&ah, req_hdr) || !payload_compatible(&b, res) || !payload_compatible(&bh, res_hdr) {
                e.insert("IncompatibleRequestOrResponseType");
            }
            at_least(&mut e, s.active, *active, "DoesNotSupportRequestedAmountOfActiveRequestsPerClient");
            at_least(&mut e, s.loaned, *loaned, "DoesNotSupportRequestedAmountOfClientRequestLoans");
            at_least(&mut e, s.borrowed, *borrowed, "DoesNotSupportRequestedAmountOfBorrowedResponsesPerPendingResponse");
            at_least(&mut e, s.buffer, *buffer, "DoesNotSupportRequestedResponseBufferSize");
            at_least(&mut e, s.servers, *servers, "DoesNotSupportRequestedAmountOfServers");
            at_least(&mut e, s.clients, *clients, "DoesNotSupportRequestedAmountOfClients");
            at_least(&mut e, s.nodes, *nodes, "DoesNotSupportRequestedAmountOfNodes");
            if s.ovf_req.map(|v| v != *ovf_req).unwrap_or(false) {
                e.insert("IncompatibleOverflowBehaviorForRequests");
            }
            if s.ovf_res.map(|v| v != *ovf_res).unwrap_or(false) {
                e.insert("IncompatibleOverflowBehaviorForResponses");
            }
            if s.faf.map(|v| v != *faf).unwrap_or(false) {
                e.insert("IncompatibleBehaviorForFireAndForgetRequests");
            }
        }
        (Set::Bb(s), Cfg::Bb { readers, nodes, key }) => {
            if key_td(s.key) != *key {
                e.insert("IncompatibleKeys");
            }
            at_least(&mut e, s.readers, *readers, "DoesNotSupportRequestedAmountOfReaders");
            at_least(&mut e, s.nodes, *nodes, "DoesNotSupportRequestedAmountOfNodes");
        }
        _ => {
            // the service hash contains the pattern: an opener of another pattern never sees it
            e.insert("harness: pattern mismatch");
        }
    }
    e
}

/// creation-time rules that do not depend on the existing services
pub fn create_precondition(spec: &Spec, config: &Config) -> Errs {
    let mut e = Errs::new();
    match &spec.set {
        Set::Ps(s) => {
            let d = &config.defaults.publish_subscribe;
            let overflow = s.overflow.unwrap_or(d.enable_safe_overflow);
            let buffer = s.buffer.map(|v| v as usize).unwrap_or(d.subscriber_max_buffer_size).max(1);
            let history = s.history.map(|v| v as usize).unwrap_or(d.publisher_history_size);
            if !overflow && buffer < history {
                e.insert("SubscriberBufferMustBeLargerThanHistorySize");
            }
        }
        Set::Bb(s) => {
            if s.entries == 0 {
                e.insert("NoEntriesProvided");
            }
        }
        _ => {}
    }
    e
}

/// Does a freshly created service expose the settings its creator asked for? Unset values come
/// from the config defaults; a requested 0 may have been raised to 1 by the builder.
pub fn check_created(spec: &Spec, snap: &Snap, config: &Config, name: &str) -> Result<(), String> {
    let mut bad = vec![];
    let mut num = |what: &str, req: Option<u8>, default: usize, got: usize| {
        let want = req.map(|v| v as usize).unwrap_or(default);
        if !(got == want || (want == 0 && got == 1)) {
            bad.push(format!("{what}: requested {want}, service has {got}"));
        }
    };
    match (&spec.set, &snap.cfg) {
        (Set::Ps(s), Cfg::Ps { pubs, subs, nodes, history, buffer, borrowed, overflow, payload, hdr }) => {
            let d = &config.defaults.publish_subscribe;
            num("max_publishers", s.pubs, d.max_publishers, *pubs);
            num("max_subscribers", s.subs, d.max_subscribers, *subs);
            num("max_nodes", s.nodes, d.max_nodes, *nodes);
            num("history_size", s.history, d.publisher_history_size, *history);
            num("subscriber_max_buffer_size", s.buffer, d.subscriber_max_buffer_size, *buffer);
            num("subscriber_max_borrowed_samples", s.borrowed, d.subscriber_max_borrowed_samples, *borrowed);
            if s.overflow.unwrap_or(d.enable_safe_overflow) != *overflow {
                bad.push("enable_safe_overflow differs".into());
            }
            let (p, h) = ps_types(s);
            if p != *payload || h != *hdr {
                bad.push(format!("types: requested {p:?} / {h:?}, service has {payload:?} / {hdr:?}"));
            }
        }
        (Set::Ev(s), Cfg::Ev { notifiers, listeners, nodes, max_id, created, dropped, dead, deadline_ms }) => {
            let d = &config.defaults.event;
            num("max_notifiers", s.notifiers, d.max_notifiers, *notifiers);
            num("max_listeners", s.listeners, d.max_listeners, *listeners);
            num("max_nodes", s.nodes, d.max_nodes, *nodes);
            num("event_id_max_value", s.max_id, d.event_id_max_value, *max_id);
            let ev = |r: Option<Option<u8>>, dflt: Option<usize>| r.map(|x| x.map(|v| v as usize)).unwrap_or(dflt);
            if ev(s.created, d.notifier_created_event) != *created || ev(s.dropped, d.notifier_dropped_event) != *dropped || ev(s.dead, d.notifier_dead_event) != *dead {
                bad.push("notifier event ids differ".into());
            }
            let dl = s.deadline.map(|x| x.map(|v| v as u64)).unwrap_or(d.deadline.map(|x| x.as_millis() as u64));
            if dl != *deadline_ms {
                bad.push("deadline differs".into());
            }
        }
        (Set::Rr(s), Cfg::Rr { active, loaned, borrowed, buffer, servers, clients, nodes, ovf_req, ovf_res, faf, req, req_hdr, res, res_hdr }) => {
            let d = &config.defaults.request_response;
            num("max_active_requests_per_client", s.active, d.max_active_requests_per_client, *active);
            num("max_loaned_requests", s.loaned, d.max_loaned_requests, *loaned);
            num("max_borrowed_responses_per_pending_response", s.borrowed, d.max_borrowed_responses_per_pending_response, *borrowed);
            num("max_response_buffer_size", s.buffer, d.max_response_buffer_size, *buffer);
            num("max_servers", s.servers, d.max_servers, *servers);
            num("max_clients", s.clients, d.max_clients, *clients);
            num("max_nodes", s.nodes, d.max_nodes, *nodes);
            if s.ovf_req.unwrap_or(d.enable_safe_overflow_for_requests) != *ovf_req || s.ovf_res.unwrap_or(d.enable_safe_overflow_for_responses) != *ovf_res || s.faf.unwrap_or(d.enable_fire_and_forget_requests) != *faf {
                bad.push("overflow / fire-and-forget flags differ".into());
            }
            let (a, ah, b, bh) = rr_types(s);
            if a != *req || ah != *req_hdr || b != *res || bh != *res_hdr {
                bad.push(format!("types: requested {a:?} {ah:?} {b:?} {bh:?}, service has {req:?} {req_hdr:?} {res:?} {res_hdr:?}"));
            }
        }
        (Set::Bb(s), Cfg::Bb { readers, nodes, key }) => {
            let d = &config.defaults.blackboard;
            num("max_readers", s.readers, d.max_readers, *readers);
            num("max_nodes", s.nodes, d.max_nodes, *nodes);
            if key_td(s.key) != *key {
                bad.push("key type differs".into());
            }
        }
        _ => bad.push("messaging pattern differs".into()),
    }
    let mut want: Vec<(String, String)> = spec.attrs.iter().map(|(k, v)| (attr_key(*k), attr_val(*v))).collect();
    want.sort();
    let mut got = snap.attrs.clone();
    got.sort();
    if want != got {
        bad.push(format!("attributes: defined {want:?}, service has {got:?}"));
    }
    if snap.name != name {
        bad.push(format!("name: {} instead of {name}", snap.name));
    }
    if bad.is_empty() { Ok(()) } else { Err(bad.join("; ")) }
}

/// Errors that contention alone explains (all documented for exactly that situation).
pub fn contention_error_allowed(verb: Verb, e: &str) -> bool {
    const CREATE: [&str; 3] = ["AlreadyExists", "IsBeingCreatedByAnotherInstance", "HangsInCreation"];
    const OPEN: [&str; 3] = ["DoesNotExist", "HangsInCreation", "IsMarkedForDestruction"];
    match verb {
        Verb::Create => CREATE.contains(&e),
        Verb::Open => OPEN.contains(&e),
        Verb::OpenOrCreate => {
            if e == "SystemInFlux" {
                return true;
            }
            if let Some(x) = e.strip_prefix("Open:") {
                return OPEN.contains(&x);
            }
            if let Some(x) = e.strip_prefix("Create:") {
                return CREATE.contains(&x);
            }
            false
        }
    }
}
