fn main(){}
