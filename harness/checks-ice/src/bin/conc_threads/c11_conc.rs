//! C11 part `conc.threads` — request-response with clients and servers acting AT THE SAME TIME.
//!
//! Every thread owns its own node and one port (nothing is shared between threads, so the plain
//! `local` / `ipc` service variants are used the way separate processes would use them). All ports
//! are created (one after the other) before the start barrier and dropped after the end barrier:
//! every server is connected to every client for the whole run. Seeded noise (sched_yield, short
//! spins, 20..200 us sleeps) is injected at the instrumented atomics of every thread, a share of
//! the cases runs without noise.
//!
//! Two client disciplines:
//!  * `Held`: a pending response is kept until `PendingResponse::is_connected()` is false (every
//!    server has dropped its active request) and `receive()` has been drained to `None`; only then
//!    it is dropped. With this discipline at most `max_active_requests_per_client` requests of a
//!    client are outstanding, which is the size of the request buffer, so no request can be
//!    discarded or evicted, with and without overflow, with and without fire-and-forget; channels
//!    are recycled empty, so the open finding `rr.recycled_channel_not_clean` is not triggered.
//!  * `Forget` (fire-and-forget services only): the pending response is dropped right after `send`,
//!    servers do not respond. Requests pile up in the request buffers, so the overflow / discard
//!    rules apply (weaker oracle).
//!
//! Oracle (invariants over the recorded logs; nothing depends on time or on who was faster):
//!  (a) `Held`: every request whose `send` returned Ok is received exactly once by every server,
//!      `number_of_server_connections()` == number of servers
//!      [a request is delivered to every server whose port exists when it is sent; the buffer has
//!      max_active_requests_per_client slots; without fire-and-forget a request is discarded only
//!      when its pending response is gone — it is not];
//!      every mode: per (server, client) the received sequence numbers are strictly increasing
//!      (send order, never twice);
//!      `Forget`, no request overflow: a request is received by exactly
//!      `number_of_server_connections()` servers [DiscardData: not delivered to a full buffer, the
//!      count says so; nothing that was delivered is evicted]; `Forget`, overflow: the newest
//!      min(sent, max_active) requests of every client reach every server [overflow evicts the oldest];
//!  (b) a received request carries an intact tag of a request that was sent, `origin()` names the
//!      client of the tag; `Held`: `ActiveRequest::is_connected()` is true when it is received;
//!  (c) a response received through a pending response carries the tag of THAT request, the request
//!      id of that pending response in its header and the id of the server of its tag as origin;
//!      per (request, server) the response numbers are strictly increasing and below the number the
//!      server sent; after the drain: without response overflow the first min(sent, buffer)
//!      responses of a stream are all received (and all of them when sent <= buffer) [a full buffer
//!      discards the NEW response], with overflow the last min(sent, buffer) [overflow evicts the
//!      oldest]; `is_connected()` is false once every server has, after `send` returned, started a
//!      `receive()` that returned None and holds no active request ("returns true until the
//!      ActiveRequest goes out of scope on the server side") — this is also what ends a case in
//!      which a request vanished (no waiting, no time-out: decided from stamps of one shared counter);
//!  (d) no call fails: with these disciplines no limit is reached (`send` is only attempted below
//!      max_active, `receive` only while holding fewer than the borrow limit); no panic; iceoryx2
//!      logs none of its "This should never happen" / failed release / failed reclaim lines;
//!  (e) half of the cases use `BackpressureStrategy::RetryUntilDelivered` (the default strategy,
//!      which one thread alone cannot drive: the sender blocks until the other side consumes) for
//!      both port kinds instead of `DiscardData`. Then nothing may be discarded at a full buffer:
//!      `Held`, no response overflow: ALL responses a server sent are received
//!      [`backpressure_strategy_block_blocks_responses_when_client_buffer_is_full`]; `Forget`, no
//!      request overflow: `number_of_server_connections()` == number of servers for every request
//!      and every server receives every request
//!      [`backpressure_strategy_block_blocks_when_server_buffer_is_full`]. The receiving side of
//!      every connection exists before the first send (clients are created before servers, a
//!      server connects to the existing clients when it is created; a response is only sent after a
//!      request of that client arrived), so "no connected receiver" never excuses a discard. When
//!      a case is aborted every thread keeps consuming until the senders have left their loops, so
//!      that a blocked sender always gets out.
//!
//! Non-trivial: at least one server `receive` overlapped a client `send` and at least two requests
//! were in flight at the same time.
#[path = "common.rs"]
pub mod common;

use checks_ice::domain::Domain;
use checks_ice::pubsub::logcap;
use checks_ice::reqres::types::{Cfg, Req, Resp};
use common::*;
use iceoryx2::config::Config;
use iceoryx2::port::client::Client;
use iceoryx2::port::server::Server;
use iceoryx2::prelude::*;
use iceoryx2::service::Service;
use serde::{Deserialize, Serialize};
use std::cell::RefCell;
use std::collections::BTreeMap;
use std::sync::Mutex;
use std::sync::atomic::{AtomicU64, Ordering};
use vcore::rng::{SplitMix, mix};
use vcore::{Ctx, Failure, Obs, fail};

pub const PART: &str = "conc.threads";

#[derive(Clone, Copy, Debug, PartialEq, Eq, Serialize, Deserialize)]
pub enum Mode {
    Held,
    Forget,
}

#[derive(Clone, Debug, Serialize, Deserialize)]
pub struct ConcCase {
    pub ipc: bool,
    pub cfg: Cfg,
    pub mode: Mode,
    pub clients: u8,
    pub servers: u8,
    /// requests per client
    pub n_req: u16,
    /// a server answers every request with 0..=k_max responses (seeded)
    pub k_max: u8,
    /// active requests a server keeps before it drops the oldest (1..=max_active)
    pub server_hold: u8,
    /// responses a client keeps per pending response before it drops them (1..=borrow)
    pub resp_hold: u8,
    /// clients and servers use BackpressureStrategy::RetryUntilDelivered (the default; a send blocks
    /// while the receiving buffer is full) instead of DiscardData
    pub retry: bool,
    /// a server that got None yields the CPU before it polls again (else it polls in a tight loop)
    pub idle_yield: bool,
    /// 0 = no noise
    pub noise: u8,
    pub seed: u64,
}

pub fn random_case(rng: &mut SplitMix, n_req_max: u64) -> ConcCase {
    let clients = rng.range(1, 2) as u8;
    let servers = rng.range(1, 2) as u8;
    let max_active = rng.range(1, 3) as usize;
    let buf = rng.range(1, 3) as usize;
    let borrow = rng.range(1, 2) as usize;
    let faf = rng.chance(1, 2);
    let mode = if faf && rng.chance(2, 3) { Mode::Forget } else { Mode::Held };
    let cfg = Cfg {
        max_clients: clients as usize + rng.below(2) as usize,
        max_servers: servers as usize + rng.below(2) as usize,
        max_active,
        buf,
        borrow,
        req_overflow: rng.chance(1, 2),
        resp_overflow: rng.chance(1, 2),
        faf,
        loan_req: rng.range(1, 2) as usize,
        loan_resp: rng.range(1, 2) as usize,
    };
    ConcCase {
        ipc: rng.chance(2, 5),
        cfg,
        mode,
        clients,
        servers,
        n_req: rng.range(20, n_req_max) as u16,
        k_max: rng.range(0, (buf + borrow) as u64 + 2) as u8,
        server_hold: if rng.chance(1, 2) { max_active as u8 } else { rng.range(1, max_active as u64) as u8 },
        resp_hold: if rng.chance(1, 2) { borrow as u8 } else { rng.range(1, borrow as u64) as u8 },
        retry: rng.chance(1, 2),
        idle_yield: rng.chance(1, 2),
        noise: *rng.pick(&[0u8, 0, 1, 1, 1, 2, 2, 3]),
        seed: rng.next(),
    }
}

pub fn smaller(c: &ConcCase) -> Vec<ConcCase> {
    let mut v = vec![];
    if c.servers > 1 {
        v.push(ConcCase { servers: 1, ..c.clone() });
    }
    if c.clients > 1 {
        v.push(ConcCase { clients: 1, ..c.clone() });
    }
    if c.n_req > 20 {
        v.push(ConcCase { n_req: (c.n_req / 2).max(20), ..c.clone() });
    }
    if c.k_max > 1 {
        v.push(ConcCase { k_max: 1, ..c.clone() });
    }
    if c.ipc {
        v.push(ConcCase { ipc: false, ..c.clone() });
    }
    v
}

// ---------------------------------------------------------------------------------------------
// logs

#[derive(Clone, Debug)]
struct SendRec {
    seq: u32,
    /// `number_of_server_connections()` of the pending response
    nsc: usize,
}

#[derive(Clone, Debug, Default)]
struct PendRec {
    seq: u32,
    /// (server, k) in the order received
    got: Vec<(u32, u32)>,
    /// is_connected() was false and receive() was drained to None before the drop
    completed: bool,
}

#[derive(Default, Debug)]
struct ClientLog {
    sends: Vec<SendRec>,
    pend: Vec<PendRec>,
    /// request whose pending response stayed connected although every server is through with it
    stuck: Option<u32>,
    end: ThreadEnd,
}

#[derive(Clone, Debug)]
struct RecvRec {
    client: u32,
    seq: u32,
    /// responses whose send returned Ok
    sent: u32,
}

#[derive(Default, Debug)]
struct ServerLog {
    recv: Vec<RecvRec>,
    overlaps: u64,
    calls: u64,
    end: ThreadEnd,
}

struct Shared {
    ctrl: Ctrl,
    n_all: u64,
    client_ids: Mutex<Vec<u128>>,
    server_ids: Mutex<Vec<u128>>,
    /// clients currently inside `send`
    sending: AtomicU64,
    inflight: AtomicU64,
    max_inflight: AtomicU64,
    clients_done: AtomicU64,
    servers_done: AtomicU64,
    /// per server: begin stamp of the latest `receive()` that returned None, published after the
    /// server dropped every active request it held
    idle_begin: Vec<AtomicU64>,
}

const NAME: &str = "c11/conc";

type Cl<S> = Client<S, Req, (), Resp, ()>;
type Sv<S> = Server<S, Req, (), Resp, ()>;

fn strategy(case: &ConcCase) -> BackpressureStrategy {
    if case.retry { BackpressureStrategy::RetryUntilDelivered } else { BackpressureStrategy::DiscardData }
}

fn viol(end: &mut ThreadEnd, sh: &Shared, sig: &str, msg: String) {
    end.violations.push((sig.to_string(), msg));
    sh.ctrl.abort();
}

// ---------------------------------------------------------------------------------------------
// client

struct Pend<S: Service> {
    idx: usize,
    seq: u32,
    request_id: Option<u64>,
    /// stamp taken after `send` returned
    sent: u64,
    held: Vec<iceoryx2::response::Response<S, Resp, ()>>,
    pr: iceoryx2::pending_response::PendingResponse<S, Req, (), Resp, ()>,
}

fn client_thread<S: Service>(sh: &Shared, me: usize, case: &ConcCase, config: &Config, log: &RefCell<ClientLog>, ph: &Phase) -> Result<(), String> {
    let turn = me as u64;
    sh.ctrl.await_turn(turn)?;
    let setup = (|| -> Result<_, String> {
        let node = NodeBuilder::new().config(config).create::<S>().map_err(|e| format!("setup: node: {e:?}"))?;
        let svc = node.service_builder(&NAME.try_into().unwrap()).request_response::<Req, Resp>().open().map_err(|e| format!("setup: open: {e:?}"))?;
        let client: Cl<S> = svc.client_builder().backpressure_strategy(strategy(case)).create().map_err(|e| format!("setup: client: {e:?}"))?;
        Ok((node, svc, client))
    })();
    let (node, svc, client) = match setup {
        Ok(x) => x,
        Err(e) => {
            sh.ctrl.skip_turns();
            return Err(e);
        }
    };
    sh.client_ids.lock().unwrap()[me] = client.id().value();
    sh.ctrl.next_turn();
    sh.ctrl.barrier(sh.n_all)?;
    ph.started.set(true);
    let server_ids = sh.server_ids.lock().unwrap().clone();
    let n_servers = case.servers as usize;
    let max_active = case.cfg.max_active.max(1);
    let resp_hold = (case.resp_hold as usize).clamp(1, case.cfg.borrow.max(1));
    let mut rng = SplitMix(mix(case.seed, 100 + me as u64));
    let mut pend: Vec<Pend<S>> = vec![];
    let mut next_seq = 0u32;
    let mut iter = 0u64;
    noise_on(rng.next(), case.noise);

    // one `receive` on a pending response, all checks of clause (c) that need no other thread's log
    let poll = |p: &mut Pend<S>, log: &RefCell<ClientLog>| -> Result<bool, ()> {
        if p.held.len() >= resp_hold {
            p.held.clear();
        }
        match p.pr.receive() {
            Ok(None) => Ok(false),
            Ok(Some(r)) => {
                let x = *r.payload();
                let mut l = log.borrow_mut();
                if !x.intact() {
                    viol(&mut l.end, sh, "conc.response_corrupt", format!("client {me}: response received through the pending response of request {} is not intact: {x:?}", p.seq));
                    return Err(());
                }
                if x.client != me as u32 || x.seq != p.seq {
                    viol(&mut l.end, sh, "conc.response_of_other_request", format!("client {me}: the pending response of request {} delivered a response that answers request ({}, {}) (server {}, k {})", p.seq, x.client, x.seq, x.server, x.k));
                    return Err(());
                }
                let hid = hdr_u64(r.header(), "request_id: ChannelState(");
                if hid.is_none() || hid != p.request_id {
                    viol(&mut l.end, sh, "conc.response_header", format!("client {me}: response (server {}, k {}) of request {} carries request id {hid:?} in its header, the pending response has {:?}", x.server, x.k, p.seq, p.request_id));
                    return Err(());
                }
                if server_ids.get(x.server as usize).copied() != Some(r.origin().value()) {
                    viol(&mut l.end, sh, "conc.response_origin", format!("client {me}: Response::origin() of response (server {}, k {}) of request {} is not the id of server {}", x.server, x.k, p.seq, x.server));
                    return Err(());
                }
                l.pend[p.idx].got.push((x.server, x.k));
                drop(l);
                p.held.push(r);
                Ok(true)
            }
            Err(e) => {
                let held = p.held.len();
                viol(&mut log.borrow_mut().end, sh, "conc.limit_error", format!("client {me}: PendingResponse::receive() of request {} failed with {e:?} while the client holds {held} responses of it (hold limit {resp_hold}, borrow limit {})", p.seq, case.cfg.borrow));
                Err(())
            }
        }
    };

    'run: loop {
        if sh.ctrl.aborted() {
            break;
        }
        iter += 1;
        if iter % 512 == 0 && sh.ctrl.check_hang() {
            break;
        }
        // 1. send
        if (next_seq as usize) < case.n_req as usize && pend.len() < max_active {
            let seq = next_seq;
            sh.sending.fetch_add(1, Ordering::SeqCst);
            let r = client.send_copy(Req::new(me as u32, seq));
            sh.sending.fetch_sub(1, Ordering::SeqCst);
            let e = sh.ctrl.stamp();
            match r {
                Ok(pr) => {
                    next_seq += 1;
                    let now = sh.inflight.fetch_add(1, Ordering::SeqCst) + 1;
                    sh.max_inflight.fetch_max(now, Ordering::SeqCst);
                    let nsc = pr.number_of_server_connections();
                    let request_id = hdr_u64(pr.header(), "request_id: ChannelState(");
                    let mut l = log.borrow_mut();
                    l.sends.push(SendRec { seq, nsc });
                    if case.mode == Mode::Forget {
                        drop(l);
                        drop(pr);
                        sh.inflight.fetch_sub(1, Ordering::SeqCst);
                    } else {
                        let idx = l.pend.len();
                        l.pend.push(PendRec { seq, got: vec![], completed: false });
                        drop(l);
                        pend.push(Pend { idx, seq, request_id, sent: e, held: vec![], pr });
                    }
                }
                Err(e) => {
                    viol(&mut log.borrow_mut().end, sh, "conc.limit_error", format!("client {me}: send_copy of request {seq} failed with {e:?} while {} of {max_active} requests are active", pend.len()));
                    break 'run;
                }
            }
        }
        // 2. poll every pending response once
        for p in pend.iter_mut() {
            if poll(p, log).is_err() {
                break 'run;
            }
        }
        // 3. finished requests
        let mut i = 0;
        while i < pend.len() {
            let mut finished = !pend[i].pr.is_connected();
            if !finished && sh.idle_begin.iter().take(n_servers).all(|s| s.load(Ordering::SeqCst) > pend[i].sent) {
                // every server started a receive() after this send had returned, got None and holds
                // nothing: the request has been through the hands of every server
                finished = !pend[i].pr.is_connected();
                if !finished {
                    let p = &pend[i];
                    log.borrow_mut().stuck = Some(p.seq);
                    viol(&mut log.borrow_mut().end, sh, "conc.pending_stays_connected", format!("client {me}: request {} was sent (Ok) at stamp {}, afterwards every server started a receive() that returned None while holding no active request, and PendingResponse::is_connected() is still true", p.seq, p.sent));
                    break 'run;
                }
            }
            if finished {
                loop {
                    match poll(&mut pend[i], log) {
                        Ok(true) => {}
                        Ok(false) => break,
                        Err(()) => break 'run,
                    }
                }
                let p = pend.remove(i);
                log.borrow_mut().pend[p.idx].completed = true;
                let Pend { held, pr, .. } = p;
                drop(held);
                drop(pr);
                sh.inflight.fetch_sub(1, Ordering::SeqCst);
            } else {
                i += 1;
            }
        }
        if next_seq as usize == case.n_req as usize && pend.is_empty() {
            break;
        }
    }
    noise_off();
    sh.clients_done.fetch_add(1, Ordering::SeqCst);
    ph.counted.set(true);
    if sh.ctrl.aborted() {
        // a server may be blocked in a response send (RetryUntilDelivered): keep consuming, without
        // recording, until every server has left its loop
        while sh.servers_done.load(Ordering::SeqCst) != n_servers as u64 && !sh.ctrl.check_hang() {
            let mut broken = false;
            for p in pend.iter_mut() {
                p.held.clear();
                broken |= p.pr.receive().is_err();
            }
            if broken {
                // receiving is broken (that is the violation being reported): dropping the pending
                // responses closes their channels, which also ends a server's wait
                pend.clear();
            }
            std::thread::yield_now();
        }
    }
    let r = sh.ctrl.barrier_end(sh.n_all);
    ph.ended.set(true);
    // tear-down, one participant after the other
    for p in pend.drain(..) {
        let Pend { held, pr, .. } = p;
        drop(held);
        drop(pr);
    }
    let _ = sh.ctrl.await_turn_end(turn);
    drop(client);
    drop(svc);
    drop(node);
    sh.ctrl.next_turn();
    ph.turned.set(true);
    r
}

// ---------------------------------------------------------------------------------------------
// server

fn server_thread<S: Service>(sh: &Shared, me: usize, case: &ConcCase, config: &Config, log: &RefCell<ServerLog>, ph: &Phase) -> Result<(), String> {
    let turn = case.clients as u64 + me as u64;
    sh.ctrl.await_turn(turn)?;
    let setup = (|| -> Result<_, String> {
        let node = NodeBuilder::new().config(config).create::<S>().map_err(|e| format!("setup: node: {e:?}"))?;
        let svc = node.service_builder(&NAME.try_into().unwrap()).request_response::<Req, Resp>().open().map_err(|e| format!("setup: open: {e:?}"))?;
        let server: Sv<S> = svc
            .server_builder()
            .backpressure_strategy(strategy(case))
            .max_loaned_responses_per_request(case.cfg.loan_resp)
            .create()
            .map_err(|e| format!("setup: server: {e:?}"))?;
        Ok((node, svc, server))
    })();
    let (node, svc, server) = match setup {
        Ok(x) => x,
        Err(e) => {
            sh.ctrl.skip_turns();
            return Err(e);
        }
    };
    sh.server_ids.lock().unwrap()[me] = server.id().value();
    sh.ctrl.next_turn();
    sh.ctrl.barrier(sh.n_all)?;
    ph.started.set(true);
    // an Option: on abort the port is dropped early if receiving cannot free a blocked client
    let mut server = Some(server);
    let client_ids = sh.client_ids.lock().unwrap().clone();
    let n_clients = case.clients as u64;
    let hold = (case.server_hold as usize).clamp(1, case.cfg.max_active.max(1));
    let mut rng = SplitMix(mix(case.seed, 200 + me as u64));
    let mut held = std::collections::VecDeque::new();
    let mut none_streak = 0u32;
    let mut iter = 0u64;
    noise_on(rng.next(), case.noise);
    'run: loop {
        if sh.ctrl.aborted() {
            break;
        }
        iter += 1;
        if iter % 512 == 0 && sh.ctrl.check_hang() {
            break;
        }
        let done = sh.clients_done.load(Ordering::SeqCst) == n_clients;
        while held.len() >= hold {
            held.pop_front();
        }
        let b = sh.ctrl.stamp();
        let r = server.as_ref().unwrap().receive();
        let overlapped = sh.sending.load(Ordering::SeqCst) > 0;
        {
            let mut l = log.borrow_mut();
            l.calls += 1;
            l.overlaps += overlapped as u64;
        }
        match r {
            Ok(None) => {
                held.clear();
                sh.idle_begin[me].store(b, Ordering::SeqCst);
                if done {
                    none_streak += 1;
                    if none_streak >= 3 {
                        break;
                    }
                }
                if case.idle_yield {
                    std::thread::yield_now();
                }
            }
            Ok(Some(ar)) => {
                none_streak = 0;
                let x = *ar.payload();
                let mut l = log.borrow_mut();
                if !x.intact() {
                    viol(&mut l.end, sh, "conc.request_corrupt", format!("server {me}: received request is not intact: {x:?}"));
                    break 'run;
                }
                if client_ids.get(x.client as usize).copied() != Some(ar.origin().value()) {
                    viol(&mut l.end, sh, "conc.request_origin", format!("server {me}: ActiveRequest::origin() of request ({}, {}) is not the id of client {}", x.client, x.seq, x.client));
                    break 'run;
                }
                if case.mode == Mode::Held && !ar.is_connected() {
                    viol(&mut l.end, sh, "conc.active_request_not_connected", format!("server {me}: request ({}, {}) was received with ActiveRequest::is_connected() == false although its pending response is alive", x.client, x.seq));
                    break 'run;
                }
                l.recv.push(RecvRec { client: x.client, seq: x.seq, sent: 0 });
                let at = l.recv.len() - 1;
                drop(l);
                let n = if case.mode == Mode::Forget { 0 } else { rng.range(0, case.k_max as u64) as u32 };
                for k in 0..n {
                    match ar.send_copy(Resp::new(me as u32, x.client, x.seq, k)) {
                        Ok(()) => log.borrow_mut().recv[at].sent = k + 1,
                        Err(e) => {
                            viol(&mut log.borrow_mut().end, sh, "conc.limit_error", format!("server {me}: send_copy of response {k} to request ({}, {}) failed with {e:?}", x.client, x.seq));
                            break 'run;
                        }
                    }
                }
                held.push_back(ar);
            }
            Err(e) => {
                viol(&mut log.borrow_mut().end, sh, "conc.limit_error", format!("server {me}: receive() failed with {e:?} while the server holds {} active requests (max_active_requests_per_client {})", held.len(), case.cfg.max_active));
                break 'run;
            }
        }
    }
    noise_off();
    held.clear();
    sh.servers_done.fetch_add(1, Ordering::SeqCst);
    ph.counted.set(true);
    if sh.ctrl.aborted() {
        // a client may be blocked in a request send (RetryUntilDelivered): keep consuming
        while sh.clients_done.load(Ordering::SeqCst) != n_clients && !sh.ctrl.check_hang() {
            if server.as_ref().is_some_and(|s| s.receive().is_err()) {
                server = None;
            }
            std::thread::yield_now();
        }
    }
    let r = sh.ctrl.barrier_end(sh.n_all);
    ph.ended.set(true);
    let _ = sh.ctrl.await_turn_end(turn);
    drop(server);
    drop(svc);
    drop(node);
    sh.ctrl.next_turn();
    ph.turned.set(true);
    r
}

// ---------------------------------------------------------------------------------------------
// the case

pub fn run(case: &ConcCase, obs: &mut Obs) -> Result<(), Failure> {
    if case.ipc { run_on::<iceoryx2::service::ipc::Service>(case, obs) } else { run_on::<iceoryx2::service::local::Service>(case, obs) }
}

fn run_on<S: Service>(case: &ConcCase, obs: &mut Obs) -> Result<(), Failure> {
    // warn! / error! lines of iceoryx2 are captured (nothing is printed)
    let _ = logcap::drain();
    let dom = Domain::new();
    let r = run_in::<S>(&dom, case, obs);
    dom.cleanup();
    r
}

fn run_in<S: Service>(dom: &Domain, case: &ConcCase, obs: &mut Obs) -> Result<(), Failure> {
    let (nc, ns) = (case.clients as usize, case.servers as usize);
    if !(1..=2).contains(&nc) || !(1..=2).contains(&ns) || (case.mode == Mode::Forget && !case.cfg.faf) {
        fail!("harness.case", "malformed case");
    }
    let cfg = &case.cfg;
    let node = NodeBuilder::new().config(&dom.config).create::<S>().map_err(|e| Failure::new("harness.setup", format!("node: {e:?}")))?;
    let svc = node
        .service_builder(&NAME.try_into().unwrap())
        .request_response::<Req, Resp>()
        .max_clients(cfg.max_clients)
        .max_servers(cfg.max_servers)
        .max_nodes(8)
        .max_active_requests_per_client(cfg.max_active)
        .max_response_buffer_size(cfg.buf)
        .max_borrowed_responses_per_pending_response(cfg.borrow)
        .max_loaned_requests(cfg.loan_req)
        .enable_safe_overflow_for_requests(cfg.req_overflow)
        .enable_safe_overflow_for_responses(cfg.resp_overflow)
        .enable_fire_and_forget_requests(cfg.faf)
        .create()
        .map_err(|e| Failure::new("harness.setup", format!("service {cfg:?}: {e:?}")))?;
    let sh = Shared {
        ctrl: Ctrl::new(),
        n_all: (nc + ns + 1) as u64,
        client_ids: Mutex::new(vec![0; nc]),
        server_ids: Mutex::new(vec![0; ns]),
        sending: AtomicU64::new(0),
        inflight: AtomicU64::new(0),
        max_inflight: AtomicU64::new(0),
        clients_done: AtomicU64::new(0),
        servers_done: AtomicU64::new(0),
        idle_begin: (0..ns).map(|_| AtomicU64::new(0)).collect(),
    };
    let (clogs, slogs) = std::thread::scope(|s| {
        let sh = &sh;
        let config = &dom.config;
        let chs: Vec<_> = (0..nc)
            .map(|i| {
                s.spawn(move || {
                    let log = RefCell::new(ClientLog::default());
                    let ph = Phase::default();
                    let stopped = guarded_thread(&sh.ctrl, || client_thread::<S>(sh, i, case, config, &log, &ph));
                    finish_phases(&sh.ctrl, sh.n_all, i as u64, &ph, || {
                        sh.clients_done.fetch_add(1, Ordering::SeqCst);
                    });
                    let mut l = log.into_inner();
                    l.end.stopped = stopped;
                    l
                })
            })
            .collect();
        let shs: Vec<_> = (0..ns)
            .map(|i| {
                s.spawn(move || {
                    let log = RefCell::new(ServerLog::default());
                    let ph = Phase::default();
                    let stopped = guarded_thread(&sh.ctrl, || server_thread::<S>(sh, i, case, config, &log, &ph));
                    finish_phases(&sh.ctrl, sh.n_all, (nc + i) as u64, &ph, || {
                        sh.servers_done.fetch_add(1, Ordering::SeqCst);
                    });
                    let mut l = log.into_inner();
                    l.end.stopped = stopped;
                    l
                })
            })
            .collect();
        // start barrier (all ports exist), end barrier (all loops finished); between the two the
        // turn counter is rewound for the tear-down
        if sh.ctrl.barrier(sh.n_all).is_ok() {
            sh.ctrl.reset_turn();
            let _ = sh.ctrl.barrier_end(sh.n_all);
        }
        let panicked = |what: &str| format!("panic: {what} thread panicked outside the guarded region");
        let c: Vec<ClientLog> = chs.into_iter().map(|h| h.join().unwrap_or_else(|_| ClientLog { end: ThreadEnd { stopped: Some(panicked("client")), ..Default::default() }, ..Default::default() })).collect();
        let s: Vec<ServerLog> = shs.into_iter().map(|h| h.join().unwrap_or_else(|_| ServerLog { end: ThreadEnd { stopped: Some(panicked("server")), ..Default::default() }, ..Default::default() })).collect();
        (c, s)
    });
    drop(svc);
    drop(node);
    let alarms: Vec<String> = logcap::drain().into_iter().filter(|l| logcap::is_alarm(l)).collect();
    judge(case, &sh, &clogs, &slogs, &alarms, obs)
}

fn st(s: String) -> &'static str {
    // class names: a small closed set, leaked once per distinct name
    use std::collections::BTreeSet;
    static NAMES: Mutex<BTreeSet<&'static str>> = Mutex::new(BTreeSet::new());
    let mut n = NAMES.lock().unwrap();
    if let Some(x) = n.get(s.as_str()) {
        return x;
    }
    let l: &'static str = Box::leak(s.into_boxed_str());
    n.insert(l);
    l
}

fn judge(case: &ConcCase, sh: &Shared, clogs: &[ClientLog], slogs: &[ServerLog], alarms: &[String], obs: &mut Obs) -> Result<(), Failure> {
    let cfg = &case.cfg;
    let ns = case.servers as usize;
    let a = cfg.max_active.max(1);
    let buf = cfg.buf.max(1);
    // evidence
    let overlaps: u64 = slogs.iter().map(|l| l.overlaps).sum();
    let max_inflight = sh.max_inflight.load(Ordering::SeqCst);
    obs.nontrivial = overlaps > 0 && max_inflight >= 2;
    obs.class(st(format!("rr.conc/{}/{:?}/{}c{}s", if case.ipc { "ipc" } else { "local" }, case.mode, case.clients, case.servers)));
    obs.class(st(format!("rr.conc/faf={} req_overflow={} resp_overflow={}", cfg.faf, cfg.req_overflow, cfg.resp_overflow)));
    obs.class(st(format!("rr.conc/noise level {}", case.noise)));
    if case.retry && ((case.mode == Mode::Held && !cfg.resp_overflow && case.k_max as usize > buf) || (case.mode == Mode::Forget && !cfg.req_overflow)) {
        obs.class("rr.conc/blocking sender can meet a full buffer");
    }
    if overlaps > 0 {
        obs.class("rr.conc/receive overlapped a send");
    }
    if max_inflight >= 2 {
        obs.class("rr.conc/>=2 requests in flight");
    }
    if case.mode == Mode::Held && case.k_max as usize > buf {
        obs.class("rr.conc/more responses than the buffer holds");
    }
    // 1. what the threads saw themselves; a panic / failed call first
    let mut cut_short = sh.ctrl.aborted();
    let ends: Vec<(String, &ThreadEnd)> = clogs.iter().enumerate().map(|(i, l)| (format!("client {i}"), &l.end)).chain(slogs.iter().enumerate().map(|(i, l)| (format!("server {i}"), &l.end))).collect();
    if sh.ctrl.hung() {
        fail!(SIG_HANG, "the case did not finish within {:?} (normal: milliseconds): {:?}", HANG_LIMIT, ends.iter().map(|(w, e)| (w, &e.stopped)).collect::<Vec<_>>());
    }
    for (who, e) in &ends {
        if let Some(s) = &e.stopped {
            cut_short = true;
            if s.starts_with("panic") {
                fail!("conc.panic", "{who}: {s}");
            }
            if s.starts_with("setup") {
                fail!("harness.setup", "{who}: {s}");
            }
        }
    }
    // 2. safety clauses over the logs (hold for every prefix of a run)
    let mut first: Option<Failure> = None;
    let mut file = |f: Failure| {
        if first.is_none() {
            first = Some(f);
        }
    };
    // per (server, client): strictly increasing, only sent requests
    let mut received: Vec<BTreeMap<(u32, u32), u32>> = vec![BTreeMap::new(); ns];
    for (s, sl) in slogs.iter().enumerate() {
        let mut last: BTreeMap<u32, u32> = BTreeMap::new();
        for r in &sl.recv {
            let Some(cl) = clogs.get(r.client as usize) else {
                file(Failure::new("conc.request_not_sent", format!("server {s} received a request tagged with client {} which does not exist", r.client)));
                continue;
            };
            // a send that was cut short by the abort may have delivered without being logged
            if r.seq as usize >= cl.sends.len() + cut_short as usize {
                file(Failure::new("conc.request_not_sent", format!("server {s} received request ({}, {}), client {} has sent only {} requests", r.client, r.seq, r.client, cl.sends.len())));
            }
            if let Some(prev) = last.get(&r.client) {
                if *prev == r.seq {
                    file(Failure::new("conc.request_received_twice", format!("server {s} received request ({}, {}) twice", r.client, r.seq)));
                } else if *prev > r.seq {
                    file(Failure::new(if received[s].contains_key(&(r.client, r.seq)) { "conc.request_received_twice" } else { "conc.request_order" }, format!("server {s} received request ({}, {}) after request ({}, {prev})", r.client, r.seq, r.client)));
                }
            }
            last.insert(r.client, r.seq);
            received[s].insert((r.client, r.seq), r.sent);
        }
    }
    // responses: per (request, server) strictly increasing and below the number sent
    for (c, cl) in clogs.iter().enumerate() {
        for p in &cl.pend {
            let mut last: BTreeMap<u32, u32> = BTreeMap::new();
            for (s, k) in &p.got {
                let sent = received.get(*s as usize).and_then(|m| m.get(&(c as u32, p.seq))).copied();
                match sent {
                    // the server logs the request before it responds; its counter may lag one behind
                    // when the run was cut short
                    Some(n) if *k < n + cut_short as u32 => {}
                    _ => file(Failure::new("conc.response_not_sent", format!("client {c}: request {} received response (server {s}, k {k}), server {s} has sent {sent:?} responses to it", p.seq))),
                }
                if let Some(prev) = last.get(s) {
                    if *prev == *k {
                        file(Failure::new("conc.response_received_twice", format!("client {c}: request {} received response (server {s}, k {k}) twice", p.seq)));
                    } else if *prev > *k {
                        file(Failure::new("conc.response_order", format!("client {c}: request {} received response (server {s}, k {k}) after k {prev}", p.seq)));
                    }
                }
                last.insert(*s, *k);
            }
        }
    }
    // 3. violations seen by the threads (they explain an abort), then the log-level ones
    for (_, e) in &ends {
        if let Some((sig, msg)) = e.violations.first() {
            // a request that vanished is reported as such, with the symptom attached
            if sig == "conc.pending_stays_connected" && case.mode == Mode::Held {
                if let Some(f) = lost_request(case, clogs, &received, true) {
                    return Err(Failure::new(f.signature, format!("{} [noticed as: {msg}]", f.message)));
                }
            }
            return Err(Failure::new(sig.clone(), msg.clone()));
        }
    }
    if let Some(f) = first {
        return Err(f);
    }
    if let Some(l) = alarms.first() {
        fail!("conc.alarm_log", "iceoryx2 logged {} line(s) that must never appear while every participant stays inside the limits, first: {l:?}", alarms.len());
    }
    if cut_short {
        fail!("harness.aborted", "the case was cut short without a recorded reason: {:?}", ends.iter().map(|(w, e)| (w, &e.stopped)).collect::<Vec<_>>());
    }
    // 4. completeness clauses (the run reached quiescence)
    for (c, cl) in clogs.iter().enumerate() {
        if cl.sends.len() != case.n_req as usize {
            fail!("harness.incomplete", "client {c} sent {} of {} requests", cl.sends.len(), case.n_req);
        }
    }
    match case.mode {
        Mode::Held => {
            if let Some(f) = lost_request(case, clogs, &received, false) {
                return Err(f);
            }
            for (c, cl) in clogs.iter().enumerate() {
                for p in &cl.pend {
                    if !p.completed {
                        fail!("harness.incomplete", "client {c}: request {} was not completed", p.seq);
                    }
                    for s in 0..ns {
                        let n = received[s].get(&(c as u32, p.seq)).copied().unwrap_or(0) as usize;
                        let got: Vec<u32> = p.got.iter().filter(|(x, _)| *x as usize == s).map(|(_, k)| *k).collect();
                        // overflow: the newest stay; blocking server: nothing is discarded; else the first `buf` fit
                        let must: Vec<u32> = if cfg.resp_overflow {
                            (n - n.min(buf)..n).map(|k| k as u32).collect()
                        } else if case.retry {
                            (0..n).map(|k| k as u32).collect()
                        } else {
                            (0..n.min(buf)).map(|k| k as u32).collect()
                        };
                        if let Some(k) = must.iter().find(|k| !got.contains(k)) {
                            fail!(
                                "conc.response_lost",
                                "client {c}: server {s} sent {n} responses (all Ok) to request {}, the client drained the pending response after is_connected() turned false and received {got:?}; response {k} is missing (buffer {buf}, response overflow {}, server strategy {:?})",
                                p.seq,
                                cfg.resp_overflow,
                                strategy(case)
                            );
                        }
                    }
                }
            }
        }
        Mode::Forget => {
            for (c, cl) in clogs.iter().enumerate() {
                for (i, sr) in cl.sends.iter().enumerate() {
                    let by = (0..ns).filter(|s| received[*s].contains_key(&(c as u32, sr.seq))).count();
                    if !cfg.req_overflow && case.retry && sr.nsc != ns {
                        fail!("conc.blocking_send_discarded", "client {c}: request {} reported number_of_server_connections() == {} with BackpressureStrategy::RetryUntilDelivered; all {ns} servers were connected before the first send and kept receiving", sr.seq, sr.nsc);
                    }
                    if !cfg.req_overflow && by != sr.nsc {
                        fail!("conc.recipient_count", "client {c}: request {} reported number_of_server_connections() == {}, {by} servers received it (no request overflow, fire-and-forget, all servers drained)", sr.seq, sr.nsc);
                    }
                    if cfg.req_overflow && i + a >= cl.sends.len() && by != ns {
                        fail!("conc.overflow_lost_newest", "client {c}: request {} is among the newest {a} of {} requests, only {by} of {ns} servers received it (request overflow evicts the oldest)", sr.seq, cl.sends.len());
                    }
                }
            }
        }
    }
    Ok(())
}

/// clause (a) of the `Held` discipline; `partial`: the run was cut short, only requests whose
/// pending response was reported as stuck or completed are judged
fn lost_request(case: &ConcCase, clogs: &[ClientLog], received: &[BTreeMap<(u32, u32), u32>], partial: bool) -> Option<Failure> {
    let ns = case.servers as usize;
    for (c, cl) in clogs.iter().enumerate() {
        for sr in &cl.sends {
            if partial && cl.stuck != Some(sr.seq) {
                continue;
            }
            for (s, rec) in received.iter().enumerate() {
                if !rec.contains_key(&(c as u32, sr.seq)) {
                    return Some(Failure::new(
                        "conc.request_lost",
                        format!("client {c}: send of request {} returned Ok (number_of_server_connections {}), its pending response was kept alive, server {s} (connected during the whole run, fire-and-forget {}) never received it", sr.seq, sr.nsc, case.cfg.faf),
                    ));
                }
            }
            if !partial && sr.nsc != ns {
                return Some(Failure::new("conc.recipient_count", format!("client {c}: request {} reported number_of_server_connections() == {}, {ns} servers are connected and have a free slot", sr.seq, sr.nsc)));
            }
        }
    }
    None
}

pub fn part(ctx: &mut Ctx) {
    let total = ctx.scale(480u64, 8_000);
    let n_req_max = ctx.scale(60u64, 200);
    logcap::install();
    drive(ctx, PART, total, |rng, _| random_case(rng, n_req_max), run, smaller);
    logcap::uninstall_level();
}
