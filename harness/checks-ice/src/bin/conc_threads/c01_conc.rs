//! C01 part `conc.threads` — publish-subscribe with publishers and subscribers acting AT THE SAME
//! TIME (the sequential parts never let a `receive` fall into the middle of a `send`).
//!
//! Every thread owns its own node and one port (nothing is shared between threads; the plain
//! `local` / `ipc` service variants are used the way separate processes would use them). All ports
//! are created (one after the other) before the start barrier and dropped after the end barrier,
//! history size 0: every subscriber is connected to every publisher for the whole run and there are
//! no late joiners (subscribers are created after the publishers: a subscriber connects to the
//! existing publishers when it is created, so the receiving side of every connection exists before
//! the first send). Publishers use `BackpressureStrategy::DiscardData` or, without safe overflow in
//! half of the cases, `RetryUntilDelivered` (the default strategy; one thread alone cannot drive
//! it: `send` blocks until the subscriber consumes), never a handler. Seeded noise (sched_yield, short spins, 20..200 us sleeps) is injected at the
//! instrumented atomics of every thread, a share of the cases runs without noise. Quiescence: the
//! publishers finish, then every subscriber polls until `receive()` returned None three times in a
//! row (each of these calls started after the last `send` had returned).
//!
//! Oracle (invariants over the recorded logs, nothing depends on time):
//!  (1) every received sample is intact (tag + checksum), `origin()` names the publisher of its tag,
//!      and it was sent (sequence number below the number of sends of that publisher);
//!  (2) per (publisher, subscriber) the received sequence numbers are strictly increasing: a
//!      subsequence of the sent sequence, in order, nothing twice [DESIGN C01 O(2)];
//!  (3) no safe overflow (DiscardData): `send` returns the number of subscribers the sample was
//!      delivered to; nothing that was delivered is ever evicted and every subscriber drains to the
//!      end, so for EVERY sample the number of subscribers that received it == the value `send`
//!      returned [O(1), O(4): "a skip happens only when the FIFO was full and then the reported
//!      recipient count is one lower"];
//!  (3b) `RetryUntilDelivered`, no safe overflow: additionally every `send` returns the number of
//!      subscribers, i.e. every subscriber receives every sample exactly once
//!      [`backpressure_strategy_blocks_when_subscriber_buffer_is_full`]. When a case is aborted the
//!      subscribers keep consuming until the publishers have left their loops, so that a blocked
//!      publisher always gets out;
//!  (4) safe overflow: `send` returns the number of connected subscribers, and the newest
//!      min(sent, buffer) samples of every publisher are received by every subscriber [O(4): "the
//!      model evicts the oldest and the newest min(sent, buffer) remain"; a sample can only be
//!      evicted by `buffer` later pushes of the same publisher];
//!  (5) no call fails: `send_copy` / `loan` stay inside max_loaned_samples, `receive` is only called
//!      while the subscriber holds fewer than subscriber_max_borrowed_samples samples, so
//!      `ExceedsMaxBorrows`, `ExceedsMaxLoans`, `OutOfMemory` are never legitimate; no panic;
//!      iceoryx2 logs none of its "This should never happen" / failed release / failed reclaim lines.
//!
//! Non-trivial: at least one `receive` overlapped a `send` (decided by a shared counter of sends in
//! progress, read when the `receive` returned) and at least one sample was received.
#[path = "common.rs"]
pub mod common;

use checks_ice::domain::Domain;
use checks_ice::pubsub::logcap;
use common::*;
use iceoryx2::config::Config;
use iceoryx2::prelude::*;
use iceoryx2::service::Service;
use serde::{Deserialize, Serialize};
use std::cell::RefCell;
use std::collections::{BTreeMap, BTreeSet};
use std::sync::Mutex;
use std::sync::atomic::{AtomicU64, Ordering};
use vcore::rng::{SplitMix, mix};
use vcore::{Ctx, Failure, Obs, fail};
use vice::msg::Msg;

pub const PART: &str = "conc.threads";

#[derive(Clone, Debug, Serialize, Deserialize)]
pub struct ConcCase {
    pub ipc: bool,
    pub pubs: u8,
    pub subs: u8,
    pub max_pubs: u8,
    pub max_subs: u8,
    /// subscriber_max_buffer_size
    pub buffer: u8,
    /// subscriber_max_borrowed_samples
    pub borrow: u8,
    pub overflow: bool,
    /// publishers use BackpressureStrategy::RetryUntilDelivered (the default strategy; `send` blocks
    /// while a subscriber buffer is full) instead of DiscardData; only without safe overflow
    pub retry: bool,
    /// publisher: max_loaned_samples
    pub loans: u8,
    /// samples per publisher
    pub n_msg: u16,
    /// samples a subscriber keeps before it releases (1..=borrow)
    pub hold: u8,
    /// subscriber releases everything it holds at once (else the oldest only)
    pub release_all: bool,
    /// a publisher sends `burst` samples back to back, then spins 0..pause iterations (seeded)
    pub burst: u8,
    pub pause: u32,
    /// loan + write + send instead of send_copy
    pub loan: bool,
    /// a subscriber that got None yields the CPU before it polls again (else it polls in a tight loop)
    pub idle_yield: bool,
    /// 0 = no noise
    pub noise: u8,
    pub seed: u64,
}

pub fn random_case(rng: &mut SplitMix, n_max: u64) -> ConcCase {
    let pubs = rng.range(1, 2) as u8;
    let subs = rng.range(1, 2) as u8;
    let buffer = rng.range(1, 4) as u8;
    let borrow = rng.range(1, 3) as u8;
    let overflow = rng.chance(1, 2);
    ConcCase {
        ipc: rng.chance(2, 5),
        pubs,
        subs,
        max_pubs: pubs + rng.below(2) as u8,
        max_subs: subs + rng.below(2) as u8,
        buffer,
        borrow,
        overflow,
        retry: !overflow && rng.chance(1, 2),
        loans: rng.range(1, 2) as u8,
        n_msg: rng.range(50, n_max) as u16,
        hold: if rng.chance(1, 2) { borrow } else { rng.range(1, borrow as u64) as u8 },
        release_all: rng.chance(1, 2),
        burst: rng.range(1, 8) as u8,
        pause: *rng.pick(&[0u32, 0, 300, 3_000, 30_000]),
        loan: rng.chance(1, 3),
        idle_yield: rng.chance(1, 2),
        noise: *rng.pick(&[0u8, 0, 1, 1, 1, 2, 2, 3]),
        seed: rng.next(),
    }
}

pub fn smaller(c: &ConcCase) -> Vec<ConcCase> {
    let mut v = vec![];
    if c.subs > 1 {
        v.push(ConcCase { subs: 1, ..c.clone() });
    }
    if c.pubs > 1 {
        v.push(ConcCase { pubs: 1, ..c.clone() });
    }
    if c.n_msg > 50 {
        v.push(ConcCase { n_msg: (c.n_msg / 2).max(50), ..c.clone() });
    }
    if c.ipc {
        v.push(ConcCase { ipc: false, ..c.clone() });
    }
    v
}

#[derive(Default, Debug)]
struct PubLog {
    /// value returned by the q-th send
    recipients: Vec<usize>,
    end: ThreadEnd,
}

#[derive(Default, Debug)]
struct SubLog {
    /// (publisher, sequence number) in the order received
    recv: Vec<(u32, u32)>,
    overlaps: u64,
    calls: u64,
    end: ThreadEnd,
}

struct Shared {
    ctrl: Ctrl,
    n_all: u64,
    pub_ids: Mutex<Vec<u128>>,
    sending: AtomicU64,
    pubs_done: AtomicU64,
}

const NAME: &str = "c01/conc";

fn tag(p: u32, q: u32) -> u64 {
    ((p as u64 + 1) << 32) | q as u64
}

fn viol(end: &mut ThreadEnd, sh: &Shared, sig: &str, msg: String) {
    end.violations.push((sig.to_string(), msg));
    sh.ctrl.abort();
}

fn publisher_thread<S: Service>(sh: &Shared, me: usize, case: &ConcCase, config: &Config, log: &RefCell<PubLog>, ph: &Phase) -> Result<(), String> {
    let turn = me as u64;
    sh.ctrl.await_turn(turn)?;
    let setup = (|| -> Result<_, String> {
        let node = NodeBuilder::new().config(config).create::<S>().map_err(|e| format!("setup: node: {e:?}"))?;
        let svc = node.service_builder(&NAME.try_into().unwrap()).publish_subscribe::<Msg>().open().map_err(|e| format!("setup: open: {e:?}"))?;
        let p = svc.publisher_builder().max_loaned_samples(case.loans as usize).backpressure_strategy(if case.retry { BackpressureStrategy::RetryUntilDelivered } else { BackpressureStrategy::DiscardData }).create().map_err(|e| format!("setup: publisher: {e:?}"))?;
        Ok((node, svc, p))
    })();
    let (node, svc, publisher) = match setup {
        Ok(x) => x,
        Err(e) => {
            sh.ctrl.skip_turns();
            return Err(e);
        }
    };
    sh.pub_ids.lock().unwrap()[me] = publisher.id().value();
    sh.ctrl.next_turn();
    sh.ctrl.barrier(sh.n_all)?;
    ph.started.set(true);
    let mut rng = SplitMix(mix(case.seed, 100 + me as u64));
    noise_on(rng.next(), case.noise);
    let burst = case.burst.max(1) as u32;
    for q in 0..case.n_msg as u32 {
        if sh.ctrl.aborted() {
            break;
        }
        if q % 256 == 255 && sh.ctrl.check_hang() {
            break;
        }
        if q % burst == 0 && case.pause > 0 {
            for _ in 0..rng.below(case.pause as u64) {
                std::hint::spin_loop();
            }
        }
        let m = Msg::new(tag(me as u32, q));
        sh.sending.fetch_add(1, Ordering::SeqCst);
        let r = if case.loan {
            match publisher.loan_uninit() {
                Ok(l) => l.write_payload(m).send().map_err(|e| format!("send failed with {e:?}")),
                Err(e) => Err(format!("loan_uninit failed with {e:?}")),
            }
        } else {
            publisher.send_copy(m).map_err(|e| format!("send_copy failed with {e:?}"))
        };
        sh.sending.fetch_sub(1, Ordering::SeqCst);
        match r {
            Ok(n) => log.borrow_mut().recipients.push(n),
            Err(e) => {
                viol(&mut log.borrow_mut().end, sh, "conc.limit_error", format!("publisher {me}: sample {q}: {e} with no loan outstanding (max_loaned_samples {}, buffer {}, borrow {}, {} subscribers)", case.loans, case.buffer, case.borrow, case.subs));
                break;
            }
        }
    }
    noise_off();
    sh.pubs_done.fetch_add(1, Ordering::SeqCst);
    ph.counted.set(true);
    let r = sh.ctrl.barrier_end(sh.n_all);
    ph.ended.set(true);
    let _ = sh.ctrl.await_turn_end(turn);
    drop(publisher);
    drop(svc);
    drop(node);
    sh.ctrl.next_turn();
    ph.turned.set(true);
    r
}

fn subscriber_thread<S: Service>(sh: &Shared, me: usize, case: &ConcCase, config: &Config, log: &RefCell<SubLog>, ph: &Phase) -> Result<(), String> {
    let turn = case.pubs as u64 + me as u64;
    sh.ctrl.await_turn(turn)?;
    let setup = (|| -> Result<_, String> {
        let node = NodeBuilder::new().config(config).create::<S>().map_err(|e| format!("setup: node: {e:?}"))?;
        let svc = node.service_builder(&NAME.try_into().unwrap()).publish_subscribe::<Msg>().open().map_err(|e| format!("setup: open: {e:?}"))?;
        let s = svc.subscriber_builder().create().map_err(|e| format!("setup: subscriber: {e:?}"))?;
        Ok((node, svc, s))
    })();
    let (node, svc, subscriber) = match setup {
        Ok(x) => x,
        Err(e) => {
            sh.ctrl.skip_turns();
            return Err(e);
        }
    };
    sh.ctrl.next_turn();
    sh.ctrl.barrier(sh.n_all)?;
    ph.started.set(true);
    // an Option: on abort the port is dropped early if receiving cannot free a blocked publisher
    let mut subscriber = Some(subscriber);
    let pub_ids = sh.pub_ids.lock().unwrap().clone();
    let n_pubs = case.pubs as u64;
    let hold = (case.hold as usize).clamp(1, case.borrow.max(1) as usize);
    let mut rng = SplitMix(mix(case.seed, 200 + me as u64));
    let mut held = std::collections::VecDeque::new();
    let mut none_streak = 0u32;
    let mut iter = 0u64;
    let mut last_seq: BTreeMap<u32, u32> = BTreeMap::new();
    noise_on(rng.next(), case.noise);
    loop {
        if sh.ctrl.aborted() {
            break;
        }
        iter += 1;
        if iter % 512 == 0 && sh.ctrl.check_hang() {
            break;
        }
        let done = sh.pubs_done.load(Ordering::SeqCst) == n_pubs;
        if held.len() >= hold {
            if case.release_all {
                held.clear();
            } else {
                held.pop_front();
            }
        }
        let r = subscriber.as_ref().unwrap().receive();
        let overlapped = sh.sending.load(Ordering::SeqCst) > 0;
        let mut l = log.borrow_mut();
        l.calls += 1;
        l.overlaps += overlapped as u64;
        match r {
            Ok(None) => {
                if done {
                    none_streak += 1;
                    if none_streak >= 3 {
                        break;
                    }
                }
                if case.idle_yield {
                    drop(l);
                    std::thread::yield_now();
                }
            }
            Ok(Some(s)) => {
                none_streak = 0;
                let m = *s.payload();
                if !m.ok() {
                    viol(&mut l.end, sh, "conc.sample_corrupt", format!("subscriber {me}: received sample is not intact: {m:?}"));
                    break;
                }
                let (p, q) = (((m.tag >> 32) as u32).wrapping_sub(1), m.tag as u32);
                if pub_ids.get(p as usize).copied() != Some(s.origin().value()) {
                    viol(&mut l.end, sh, "conc.sample_origin", format!("subscriber {me}: Sample::origin() of sample ({p}, {q}) is not the id of publisher {p}"));
                    break;
                }
                l.recv.push((p, q));
                // the order clause is also looked at here, so that a stream of repeated samples ends
                // the case instead of keeping it alive (the verdict comes from the log)
                let bad = last_seq.get(&p).is_some_and(|prev| *prev >= q);
                last_seq.insert(p, q);
                drop(l);
                held.push_back(s);
                if bad {
                    sh.ctrl.abort();
                }
            }
            Err(e) => {
                viol(&mut l.end, sh, "conc.limit_error", format!("subscriber {me}: receive() failed with {e:?} while the subscriber holds {} samples (subscriber_max_borrowed_samples {})", held.len(), case.borrow));
                break;
            }
        }
    }
    noise_off();
    held.clear();
    if sh.ctrl.aborted() {
        // a publisher may be blocked in `send` (RetryUntilDelivered): keep consuming, without
        // recording, until every publisher has left its loop
        while sh.pubs_done.load(Ordering::SeqCst) != n_pubs && !sh.ctrl.check_hang() {
            if subscriber.as_ref().is_some_and(|s| s.receive().is_err()) {
                // receiving is broken (that is the violation being reported): a vanished
                // subscriber also ends the publisher's wait
                subscriber = None;
            }
            std::thread::yield_now();
        }
    }
    let r = sh.ctrl.barrier_end(sh.n_all);
    ph.ended.set(true);
    let _ = sh.ctrl.await_turn_end(turn);
    drop(subscriber);
    drop(svc);
    drop(node);
    sh.ctrl.next_turn();
    ph.turned.set(true);
    r
}

pub fn run(case: &ConcCase, obs: &mut Obs) -> Result<(), Failure> {
    if case.ipc { run_on::<iceoryx2::service::ipc::Service>(case, obs) } else { run_on::<iceoryx2::service::local::Service>(case, obs) }
}

fn run_on<S: Service>(case: &ConcCase, obs: &mut Obs) -> Result<(), Failure> {
    // warn! / error! lines of iceoryx2 are captured (nothing is printed)
    let _ = logcap::drain();
    let dom = Domain::new();
    let r = run_in::<S>(&dom, case, obs);
    dom.cleanup();
    r
}

fn run_in<S: Service>(dom: &Domain, case: &ConcCase, obs: &mut Obs) -> Result<(), Failure> {
    let (np, nsub) = (case.pubs as usize, case.subs as usize);
    if !(1..=2).contains(&np) || !(1..=2).contains(&nsub) || case.buffer == 0 || case.borrow == 0 {
        fail!("harness.case", "malformed case");
    }
    let node = NodeBuilder::new().config(&dom.config).create::<S>().map_err(|e| Failure::new("harness.setup", format!("node: {e:?}")))?;
    let svc = node
        .service_builder(&NAME.try_into().unwrap())
        .publish_subscribe::<Msg>()
        .max_publishers(case.max_pubs.max(case.pubs) as usize)
        .max_subscribers(case.max_subs.max(case.subs) as usize)
        .max_nodes(8)
        .subscriber_max_buffer_size(case.buffer as usize)
        .subscriber_max_borrowed_samples(case.borrow as usize)
        .history_size(0)
        .enable_safe_overflow(case.overflow)
        .create()
        .map_err(|e| Failure::new("harness.setup", format!("service: {e:?}")))?;
    let sh = Shared { ctrl: Ctrl::new(), n_all: (np + nsub + 1) as u64, pub_ids: Mutex::new(vec![0; np]), sending: AtomicU64::new(0), pubs_done: AtomicU64::new(0) };
    let (plogs, slogs) = std::thread::scope(|s| {
        let sh = &sh;
        let config = &dom.config;
        let phs: Vec<_> = (0..np)
            .map(|i| {
                s.spawn(move || {
                    let log = RefCell::new(PubLog::default());
                    let ph = Phase::default();
                    let stopped = guarded_thread(&sh.ctrl, || publisher_thread::<S>(sh, i, case, config, &log, &ph));
                    finish_phases(&sh.ctrl, sh.n_all, i as u64, &ph, || {
                        sh.pubs_done.fetch_add(1, Ordering::SeqCst);
                    });
                    let mut l = log.into_inner();
                    l.end.stopped = stopped;
                    l
                })
            })
            .collect();
        let shs: Vec<_> = (0..nsub)
            .map(|i| {
                s.spawn(move || {
                    let log = RefCell::new(SubLog::default());
                    let ph = Phase::default();
                    let stopped = guarded_thread(&sh.ctrl, || subscriber_thread::<S>(sh, i, case, config, &log, &ph));
                    finish_phases(&sh.ctrl, sh.n_all, (np + i) as u64, &ph, || {});
                    let mut l = log.into_inner();
                    l.end.stopped = stopped;
                    l
                })
            })
            .collect();
        if sh.ctrl.barrier(sh.n_all).is_ok() {
            sh.ctrl.reset_turn();
            let _ = sh.ctrl.barrier_end(sh.n_all);
        }
        let panicked = |what: &str| format!("panic: {what} thread panicked outside the guarded region");
        let p: Vec<PubLog> = phs.into_iter().map(|h| h.join().unwrap_or_else(|_| PubLog { end: ThreadEnd { stopped: Some(panicked("publisher")), ..Default::default() }, ..Default::default() })).collect();
        let s: Vec<SubLog> = shs.into_iter().map(|h| h.join().unwrap_or_else(|_| SubLog { end: ThreadEnd { stopped: Some(panicked("subscriber")), ..Default::default() }, ..Default::default() })).collect();
        (p, s)
    });
    drop(svc);
    drop(node);
    let alarms: Vec<String> = logcap::drain().into_iter().filter(|l| logcap::is_alarm(l)).collect();
    judge(case, &sh, &plogs, &slogs, &alarms, obs)
}

fn st(s: String) -> &'static str {
    static NAMES: Mutex<BTreeSet<&'static str>> = Mutex::new(BTreeSet::new());
    let mut n = NAMES.lock().unwrap();
    if let Some(x) = n.get(s.as_str()) {
        return x;
    }
    let l: &'static str = Box::leak(s.into_boxed_str());
    n.insert(l);
    l
}

fn judge(case: &ConcCase, sh: &Shared, plogs: &[PubLog], slogs: &[SubLog], alarms: &[String], obs: &mut Obs) -> Result<(), Failure> {
    let nsub = case.subs as usize;
    let buffer = case.buffer as usize;
    let overlaps: u64 = slogs.iter().map(|l| l.overlaps).sum();
    let received: usize = slogs.iter().map(|l| l.recv.len()).sum();
    let sent: usize = plogs.iter().map(|l| l.recipients.len()).sum();
    let delivered: usize = plogs.iter().map(|l| l.recipients.iter().sum::<usize>()).sum();
    obs.nontrivial = overlaps > 0 && received > 0;
    obs.class(st(format!("ps.conc/{}/{}p{}s/{}", if case.ipc { "ipc" } else { "local" }, case.pubs, case.subs, if case.overflow { "overflow" } else if case.retry { "blocking" } else { "discard" })));
    obs.class(st(format!("ps.conc/noise level {}", case.noise)));
    if overlaps > 0 {
        obs.class("ps.conc/receive overlapped a send");
    }
    if !case.overflow && !case.retry && delivered < sent * nsub {
        obs.class("ps.conc/sample discarded at a full buffer");
    }
    if case.overflow && received < sent * nsub {
        obs.class("ps.conc/sample evicted by overflow");
    }
    if received == sent * nsub {
        obs.class("ps.conc/everything received");
    }
    let mut cut_short = sh.ctrl.aborted();
    let ends: Vec<(String, &ThreadEnd)> = plogs.iter().enumerate().map(|(i, l)| (format!("publisher {i}"), &l.end)).chain(slogs.iter().enumerate().map(|(i, l)| (format!("subscriber {i}"), &l.end))).collect();
    if sh.ctrl.hung() {
        fail!(SIG_HANG, "the case did not finish within {:?} (normal: milliseconds): {:?}", HANG_LIMIT, ends.iter().map(|(w, e)| (w, &e.stopped)).collect::<Vec<_>>());
    }
    for (who, e) in &ends {
        if let Some(s) = &e.stopped {
            cut_short = true;
            if s.starts_with("panic") {
                fail!("conc.panic", "{who}: {s}");
            }
            if s.starts_with("setup") {
                fail!("harness.setup", "{who}: {s}");
            }
        }
    }
    // safety clauses (hold for every prefix of a run)
    let mut first: Option<Failure> = None;
    let mut file = |f: Failure| {
        if first.is_none() {
            first = Some(f);
        }
    };
    // who[(p, q)] = subscribers that received sample q of publisher p
    let mut who: BTreeMap<(u32, u32), Vec<usize>> = BTreeMap::new();
    for (s, sl) in slogs.iter().enumerate() {
        let mut last: BTreeMap<u32, u32> = BTreeMap::new();
        let mut seen: BTreeSet<(u32, u32)> = BTreeSet::new();
        for (p, q) in &sl.recv {
            let Some(pl) = plogs.get(*p as usize) else {
                file(Failure::new("conc.sample_not_sent", format!("subscriber {s} received a sample tagged with publisher {p} which does not exist")));
                continue;
            };
            // a send that was cut short by the abort may have delivered without being logged
            if *q as usize >= pl.recipients.len() + cut_short as usize {
                file(Failure::new("conc.sample_not_sent", format!("subscriber {s} received sample ({p}, {q}), publisher {p} has sent only {} samples", pl.recipients.len())));
            }
            if let Some(prev) = last.get(p) {
                if *prev >= *q {
                    let twice = seen.contains(&(*p, *q));
                    file(Failure::new(if twice { "conc.sample_received_twice" } else { "conc.sample_order" }, format!("subscriber {s} received sample ({p}, {q}) after sample ({p}, {prev}){}", if twice { ": for the second time" } else { "" })));
                }
            }
            last.insert(*p, *q);
            seen.insert((*p, *q));
            who.entry((*p, *q)).or_default().push(s);
        }
    }
    for (_, e) in &ends {
        if let Some((sig, msg)) = e.violations.first() {
            return Err(Failure::new(sig.clone(), msg.clone()));
        }
    }
    if let Some(f) = first {
        return Err(f);
    }
    if let Some(l) = alarms.first() {
        fail!("conc.alarm_log", "iceoryx2 logged {} line(s) that must never appear while every participant stays inside the limits, first: {l:?}", alarms.len());
    }
    if cut_short {
        fail!("harness.aborted", "the case was cut short without a recorded reason: {:?}", ends.iter().map(|(w, e)| (w, &e.stopped)).collect::<Vec<_>>());
    }
    // completeness clauses (quiescence reached)
    for (p, pl) in plogs.iter().enumerate() {
        if pl.recipients.len() != case.n_msg as usize {
            fail!("harness.incomplete", "publisher {p} sent {} of {} samples", pl.recipients.len(), case.n_msg);
        }
        let n = pl.recipients.len();
        for (q, r) in pl.recipients.iter().enumerate() {
            let empty = vec![];
            let by = who.get(&(p as u32, q as u32)).unwrap_or(&empty);
            if case.retry && *r != nsub {
                fail!(
                    "conc.blocking_send_discarded",
                    "publisher {p}: send of sample {q} returned {r} recipients with BackpressureStrategy::RetryUntilDelivered; all {nsub} subscribers were connected before the first send and kept receiving (subscribers that received it: {by:?})"
                );
            }
            if !case.overflow {
                if by.len() != *r {
                    fail!(
                        "conc.recipient_count",
                        "publisher {p}: send of sample {q} returned {r} recipients, {} subscribers received it ({by:?}); no overflow, DiscardData, every subscriber drained until receive() returned None three times after the last send",
                        by.len()
                    );
                }
            } else {
                if *r != nsub {
                    fail!("conc.recipient_count", "publisher {p}: send of sample {q} returned {r} recipients, {nsub} subscribers are connected and the service overflows safely");
                }
                if q + buffer >= n && by.len() != nsub {
                    fail!("conc.overflow_lost_newest", "publisher {p}: sample {q} is among the newest {buffer} of {n} samples, only subscribers {by:?} of {nsub} received it (overflow evicts the oldest)");
                }
            }
        }
    }
    Ok(())
}

pub fn part(ctx: &mut Ctx) {
    let total = ctx.scale(768u64, 10_000);
    let n_max = ctx.scale(150u64, 400);
    logcap::install();
    drive(ctx, PART, total, |rng, _| random_case(rng, n_max), run, smaller);
    logcap::uninstall_level();
}
