//! Shared machinery of the perturbed real-thread parts `conc.threads` of C11 and C01
//! (DESIGN 3.2 "Perturbed mode", 3.5): seeded noise at the instrumented atomics, a control block
//! (stamp counter, abort flag, barrier, turn baton) built from std atomics only (std atomics are
//! not hooked), and the driver loop (generate, run, file, replay up to 30 times).
//!
//! Nothing here decides anything from time: the only clock is the hang limit, and a hang is
//! reported as inconclusive (exit 2), never as a violation.
#![allow(dead_code)]
use iceoryx2_pal_concurrency_sync::atomic as a;
use serde::Serialize;
use serde::de::DeserializeOwned;
use std::cell::Cell;
use std::sync::atomic::{AtomicBool, AtomicU64, Ordering};
use std::time::{Duration, Instant};
use vcore::rng::{SplitMix, hash_str};
use vcore::{Ctx, Failure, Obs};

// ---------------------------------------------------------------------------------------------
// seeded noise at the instrumented atomics

thread_local! {
    /// (splitmix state, level); state 0 = off
    static NOISE: Cell<(u64, u8)> = const { Cell::new((0, 0)) };
    /// delays this thread may still inject in the current case. On a machine with many more
    /// runnable threads than cores every sleep / yield costs a whole scheduling round (tens of
    /// milliseconds), so the number of delays per thread and case is bounded (fixed work).
    static BUDGET: Cell<u32> = const { Cell::new(0) };
}

pub const NOISE_BUDGET: u32 = 400;

fn noise_pre(_addr: usize, _size: u8, _kind: a::Kind, _order: a::Ordering) {
    NOISE.with(|n| {
        let (s, level) = n.get();
        if s == 0 {
            return;
        }
        let mut r = SplitMix(s);
        let x = r.next();
        n.set((r.0 | 1, level));
        let v = x & 0xff;
        // level 1: ~1.5 % of the atomic operations are delayed, level 2: ~4 %, level 3: ~9 %.
        // Sleeping (the thread leaves the CPU, the others run into the window) is what stretches a
        // window on a machine that has more runnable threads than cores; spinning is kept short.
        let (yield_to, spin_to, sleep_to) = match level {
            1 => (2, 3, 4),
            2 => (5, 8, 11),
            _ => (10, 15, 22),
        };
        if v < sleep_to {
            let left = BUDGET.with(|b| b.get());
            if left == 0 {
                n.set((0, 0));
                return;
            }
            BUDGET.with(|b| b.set(left - 1));
        }
        if v < yield_to {
            unsafe {
                libc::sched_yield();
            }
        } else if v < spin_to {
            let spins = (x >> 8) % 3_000;
            for _ in 0..spins {
                std::hint::spin_loop();
            }
        } else if v < sleep_to {
            std::thread::sleep(Duration::from_micros(10 + (x >> 8) % 90));
        }
    });
}
fn noise_load(_addr: usize, _size: u8, _order: a::Ordering, real: u64) -> u64 {
    real
}
fn noise_post(_addr: usize, _size: u8, _kind: a::Kind, _order: a::Ordering, _old: u64, _new: u64) {}
static NOISE_HOOKS: a::Hooks = a::Hooks { pre: noise_pre, load: noise_load, post: noise_post };

pub fn install_noise_hooks() {
    unsafe { a::set_hooks(&NOISE_HOOKS) };
}
/// level 0 switches the noise of the calling thread off
pub fn noise_on(seed: u64, level: u8) {
    BUDGET.with(|b| b.set(NOISE_BUDGET));
    NOISE.with(|n| n.set(if level == 0 { (0, 0) } else { (seed | 1, level) }));
}
pub fn noise_off() {
    NOISE.with(|n| n.set((0, 0)));
}

// ---------------------------------------------------------------------------------------------
// control block

pub const HANG_LIMIT: Duration = Duration::from_secs(240);

pub struct Ctrl {
    stamp: AtomicU64,
    abort: AtomicBool,
    hang: AtomicBool,
    count: AtomicU64,
    generation: AtomicU64,
    turn: AtomicU64,
    start: Instant,
}

impl Ctrl {
    pub fn new() -> Ctrl {
        Ctrl { stamp: AtomicU64::new(1), abort: AtomicBool::new(false), hang: AtomicBool::new(false), count: AtomicU64::new(0), generation: AtomicU64::new(0), turn: AtomicU64::new(0), start: Instant::now() }
    }
    pub fn stamp(&self) -> u64 {
        self.stamp.fetch_add(1, Ordering::SeqCst)
    }
    pub fn abort(&self) {
        self.abort.store(true, Ordering::SeqCst);
    }
    pub fn aborted(&self) -> bool {
        self.abort.load(Ordering::SeqCst)
    }
    pub fn hung(&self) -> bool {
        self.hang.load(Ordering::SeqCst)
    }
    /// called now and then from every loop: ends the case (inconclusive) when it takes absurdly long
    pub fn check_hang(&self) -> bool {
        if self.start.elapsed() > HANG_LIMIT {
            self.hang.store(true, Ordering::SeqCst);
            self.abort();
            return true;
        }
        false
    }
    /// `abortable`: give up (Err) as soon as the case is aborted. The condition is looked at first,
    /// so a participant that was released is released even if somebody aborted right afterwards.
    fn wait(&self, what: &str, abortable: bool, done: impl Fn() -> bool) -> Result<(), String> {
        let mut spins = 0u32;
        while !done() {
            if abortable && self.aborted() {
                return Err("aborted".into());
            }
            spins += 1;
            if spins < 200 {
                std::hint::spin_loop();
            } else if spins < 400 {
                std::thread::yield_now();
            } else {
                std::thread::sleep(Duration::from_micros(100));
                if self.check_hang() {
                    return Err(format!("hang: {what}"));
                }
            }
        }
        Ok(())
    }
    fn barrier_impl(&self, n: u64, abortable: bool) -> Result<(), String> {
        let generation = self.generation.load(Ordering::SeqCst);
        if self.count.fetch_add(1, Ordering::SeqCst) + 1 == n {
            self.count.store(0, Ordering::SeqCst);
            self.generation.fetch_add(1, Ordering::SeqCst);
            return Ok(());
        }
        self.wait("a participant did not reach the barrier", abortable, || self.generation.load(Ordering::SeqCst) != generation)
    }
    /// start barrier of `n` participants: either all of them pass, or (a participant failed before
    /// it and aborted the case) none of those that wait
    pub fn barrier(&self, n: u64) -> Result<(), String> {
        self.barrier_impl(n, true)
    }
    /// end barrier: every participant that passed the start barrier reaches it (loops end on abort),
    /// so it does not give up on abort
    pub fn barrier_end(&self, n: u64) -> Result<(), String> {
        self.barrier_impl(n, false)
    }
    /// serialises set-up: participant `i` runs when it is its turn
    pub fn await_turn(&self, i: u64) -> Result<(), String> {
        self.wait("a participant did not hand the turn on", true, || self.turn.load(Ordering::SeqCst) == i)
    }
    /// serialises tear-down (after the end barrier)
    pub fn await_turn_end(&self, i: u64) -> Result<(), String> {
        self.wait("a participant did not hand the turn on", false, || self.turn.load(Ordering::SeqCst) == i)
    }
    pub fn next_turn(&self) {
        self.turn.fetch_add(1, Ordering::SeqCst);
    }
    pub fn reset_turn(&self) {
        self.turn.store(0, Ordering::SeqCst);
    }
    /// a participant that fails during its turn must not block the others
    pub fn skip_turns(&self) {
        self.turn.store(u64::MAX / 2, Ordering::SeqCst);
    }
}

/// How far a participant got. A participant that panics or fails in the middle must still be
/// counted as done, arrive at the end barrier and hand the tear-down turn on, or the others would
/// wait for it until the hang limit; `finish_phases` does whatever is missing.
#[derive(Default)]
pub struct Phase {
    pub started: Cell<bool>,
    pub counted: Cell<bool>,
    pub ended: Cell<bool>,
    pub turned: Cell<bool>,
}

pub fn finish_phases(ctrl: &Ctrl, n_all: u64, turn: u64, ph: &Phase, count: impl FnOnce()) {
    if !ph.started.get() {
        return;
    }
    if !ph.counted.get() {
        count();
    }
    if !ph.ended.get() {
        let _ = ctrl.barrier_end(n_all);
    }
    if !ph.turned.get() {
        let _ = ctrl.await_turn_end(turn);
        ctrl.next_turn();
    }
}

/// what one thread reports: violations it saw while running (signature, message), and why it
/// stopped early (set-up failure, panic, abort)
#[derive(Default, Debug)]
pub struct ThreadEnd {
    pub violations: Vec<(String, String)>,
    pub stopped: Option<String>,
}

/// runs `f` with panic capture; a panic becomes `stopped = "panic: .."` and aborts the case
pub fn guarded_thread(ctrl: &Ctrl, f: impl FnOnce() -> Result<(), String>) -> Option<String> {
    let r = std::panic::catch_unwind(std::panic::AssertUnwindSafe(f));
    noise_off();
    match r {
        Ok(Ok(())) => None,
        Ok(Err(e)) => {
            ctrl.abort();
            Some(e)
        }
        Err(p) => {
            ctrl.abort();
            Some(format!("panic: {}", vcore::util::panic_message(&p)))
        }
    }
}

pub fn hdr_u64<T: std::fmt::Debug>(h: &T, key: &str) -> Option<u64> {
    let s = format!("{h:?}");
    let i = s.find(key)? + key.len();
    s[i..].split(')').next()?.trim().parse().ok()
}

// ---------------------------------------------------------------------------------------------
// driver

pub const SIG_HANG: &str = "harness.hang";

/// Generates and runs `total` cases (split over the workers). A failure is filed with the case as
/// replay input; the replay runs the same case up to 30 times (not bit-reproducible: real threads).
/// After a failure a few smaller variants of the case (`smaller`) are tried, each a few times, and
/// the smallest one that still fails with the same signature is the one reported.
pub fn drive<C: Serialize + DeserializeOwned + Clone>(
    ctx: &mut Ctx,
    part: &str,
    total: u64,
    mut generate: impl FnMut(&mut SplitMix, &mut Ctx) -> C,
    run: impl Fn(&C, &mut Obs) -> Result<(), Failure>,
    smaller: impl Fn(&C) -> Vec<C>,
) {
    if !ctx.part_enabled(part) {
        return;
    }
    install_noise_hooks();
    if let Some(case) = ctx.replay_case::<C>(part) {
        for _ in 0..30 {
            let mut obs = Obs::default();
            let r = Ctx::guarded(|| run(&case, &mut obs));
            ctx.record(part, 0, &obs, || serde_json::to_value(&case).unwrap());
            if let Err(f) = r {
                if f.signature == SIG_HANG {
                    ctx.inconclusive(format!("{part}: {}", f.message));
                } else {
                    ctx.violation(part, &f, serde_json::to_value(&case).unwrap());
                }
                break;
            }
        }
        return;
    }
    let mut rng = ctx.rng(part);
    let mut stats = Stats::default();
    let mut hangs = 0;
    for _ in 0..ctx.share(total) {
        let case = generate(&mut rng, ctx);
        let mut obs = Obs::default();
        let t0 = Instant::now();
        let r = Ctx::guarded(|| run(&case, &mut obs));
        stats.add(&obs, t0.elapsed());
        let key = hash_str(&serde_json::to_string(&case).unwrap());
        ctx.record(part, key, &obs, || serde_json::to_value(&case).unwrap());
        let Err(f) = r else { continue };
        if f.signature == SIG_HANG {
            // one case beyond the (wall-clock) limit decides nothing: it is discarded and counted; a third
            // one ends the part as inconclusive (exit 2) — never as a violation
            hangs += 1;
            ctx.count_discarded();
            ctx.note(format!("discarded: {part}: {}", f.message));
            if hangs >= 3 {
                ctx.inconclusive(format!("{part}: three cases exceeded the time limit; last: {}", f.message));
                break;
            }
            continue;
        }
        if ctx.is_open_finding(&f.signature) {
            ctx.violation(part, &f, serde_json::to_value(&case).unwrap());
            continue;
        }
        // smaller variants (bounded effort; every candidate gets a few executions)
        let mut best = (case.clone(), f);
        let mut budget = 40usize;
        let shrink_start = Instant::now();
        'shrink: loop {
            for cand in smaller(&best.0) {
                for _ in 0..4 {
                    // bounded effort: a defect that makes cases hang must not cost 240 s per attempt
                    if budget == 0 || shrink_start.elapsed() > Duration::from_secs(60) {
                        break 'shrink;
                    }
                    budget -= 1;
                    let mut o = Obs::default();
                    if let Err(g) = Ctx::guarded(|| run(&cand, &mut o)) {
                        if g.signature == SIG_HANG {
                            break 'shrink;
                        }
                        if g.signature == best.1.signature {
                            best = (cand, g);
                            continue 'shrink;
                        }
                    }
                }
            }
            break;
        }
        ctx.violation(part, &best.1, serde_json::to_value(&best.0).unwrap());
        break;
    }
    stats.dump(ctx, part);
}

/// development / report aid: with VERIF_CONC_STATS=<file> every worker appends one JSON line with
/// its class histogram and the seconds spent per class (the evidence file is not written for
/// `--part` runs)
#[derive(Default)]
struct Stats {
    cases: u64,
    nontrivial: u64,
    seconds: f64,
    slowest: f64,
    classes: std::collections::BTreeMap<&'static str, (u64, f64)>,
}

impl Stats {
    fn add(&mut self, obs: &Obs, d: Duration) {
        self.cases += 1;
        self.nontrivial += obs.nontrivial as u64;
        self.seconds += d.as_secs_f64();
        self.slowest = self.slowest.max(d.as_secs_f64());
        for c in &obs.classes {
            let e = self.classes.entry(c).or_default();
            e.0 += 1;
            e.1 += d.as_secs_f64();
        }
    }
    fn dump(&self, ctx: &Ctx, part: &str) {
        use std::io::Write;
        let Ok(path) = std::env::var("VERIF_CONC_STATS") else { return };
        let line = vcore::json!({"prop": ctx.prop, "part": part, "worker": ctx.worker, "cases": self.cases, "nontrivial": self.nontrivial, "seconds": self.seconds, "slowest_case_s": self.slowest,
            "classes": self.classes.iter().map(|(k, v)| (k.to_string(), vcore::json!([v.0, v.1]))).collect::<serde_json::Map<_, _>>()});
        if let Ok(mut f) = std::fs::OpenOptions::new().create(true).append(true).open(path) {
            let _ = writeln!(f, "{line}");
        }
    }
}
