//! Helpers shared by the iceoryx2-level checks: isolated domains and leftover scanning.
extern crate iceoryx2_bb_loggers;

pub use vice::domain;
pub mod limits;
pub mod pubsub;
pub mod reqres;
pub use vice::vcrash;

pub fn silence_iceoryx_log() {
    iceoryx2_log::set_log_level(iceoryx2_log::LogLevel::Fatal);
}
