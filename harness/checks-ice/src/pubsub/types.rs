//! Configuration records, the op alphabet and the proptest strategies of the publish-subscribe
//! interpreter (DESIGN §3.3, C01 "G").

use proptest::prelude::*;
use serde::{Deserialize, Serialize};

/// Service-level QoS (small ranges). `slice == false`: payload `u64`, `true`: payload `[u8]`
/// with allocation strategy Static.
#[derive(Clone, Debug, Serialize, Deserialize, PartialEq, Eq)]
pub struct SvcCfg {
    pub max_pubs: usize,
    pub max_subs: usize,
    pub max_buf: usize,
    pub hist: usize,
    pub max_borrow: usize,
    pub overflow: bool,
    pub slice: bool,
}

impl SvcCfg {
    /// `create()` is documented to refuse non-overflowing services whose buffer cannot hold the
    /// history (`SubscriberBufferMustBeLargerThanHistorySize`); zero values are clamped to one first.
    pub fn creatable(&self) -> bool {
        self.overflow || self.max_buf.max(1) >= self.hist
    }
}

/// What a publisher does when a subscriber buffer is full and the service does not overflow.
/// Only combinations that cannot block are part of the domain (DESIGN C01 "Lim").
#[derive(Clone, Copy, Debug, Serialize, Deserialize, PartialEq, Eq)]
pub enum Bp {
    /// `BackpressureStrategy::DiscardData`, no handler (plain `try_send`)
    Discard,
    /// `DiscardData` + handler answering `FollowBackpressureyStrategy` (one handler call, discard)
    DiscardFollow,
    /// `RetryUntilDelivered` + handler answering `Retry` k times and `DiscardData` afterwards
    /// (k + 1 handler calls, discard)
    RetryThenDiscard(u8),
    /// `RetryUntilDelivered` + handler answering `DiscardDataAndFail` (one call, send fails with
    /// `UnableToDeliver`, the remaining subscribers are still served)
    DiscardAndFail,
}

#[derive(Clone, Debug, Serialize, Deserialize, PartialEq, Eq)]
pub struct PubCfg {
    pub max_loans: usize,
    pub bp: Bp,
    /// `initial_max_slice_len` (slice services only)
    pub max_slice: usize,
}

/// `None` = builder default (service maximum / min(history, buffer)). Values beyond the service
/// limits are generated on purpose: the creation must fail with the documented error.
#[derive(Clone, Debug, Serialize, Deserialize, PartialEq, Eq)]
pub struct SubCfg {
    pub buffer: Option<usize>,
    pub hist_req: Option<usize>,
}

/// The op alphabet. Every `u16` is an index into the list of currently live objects of that kind
/// (mapped monotonically with `vcore::util::idx`); an op whose list is empty is skipped.
#[derive(Clone, Debug, Serialize, Deserialize, PartialEq, Eq)]
pub enum Op {
    CreatePub(PubCfg),
    DropPub(u16),
    CreateSub(SubCfg),
    DropSub(u16),
    /// loan from publisher `p`; `len` = requested slice length (ignored for `u64`);
    /// `init`: `loan()/loan_slice()` (default initialised) instead of `loan_uninit + write`
    Loan { p: u16, len: u16, init: bool },
    /// rewrite the payload of an unsent loan with a fresh tag
    Write(u16),
    Send(u16),
    SendCopy { p: u16, len: u16 },
    DropLoan(u16),
    Receive(u16),
    DropSample(u16),
    HasSamples(u16),
    UpdatePub(u16),
    UpdateSub(u16),
    /// C02 conservation probe on publisher `p`: loan to exhaustion, return the loans
    Probe(u16),
}

#[derive(Clone, Debug, Serialize, Deserialize, PartialEq, Eq)]
pub struct Case {
    pub svc: SvcCfg,
    pub ops: Vec<Op>,
    /// selects one of the tear-down orders at the end of the case
    pub teardown: u8,
}

pub fn svc_strategy() -> impl Strategy<Value = SvcCfg> {
    (1usize..=3, 1usize..=3, 1usize..=4, 0usize..=3, 1usize..=3, any::<bool>(), prop::bool::weighted(0.3)).prop_map(
        |(max_pubs, max_subs, max_buf, hist, max_borrow, overflow, slice)| {
            // the domain contains only services `create()` accepts; the refusal itself is a C08 case
            let hist = if overflow { hist } else { hist.min(max_buf) };
            SvcCfg { max_pubs, max_subs, max_buf, hist, max_borrow, overflow, slice }
        },
    )
}

pub fn bp_strategy() -> impl Strategy<Value = Bp> {
    prop_oneof![
        5 => Just(Bp::Discard),
        1 => Just(Bp::DiscardFollow),
        2 => (0u8..=2).prop_map(Bp::RetryThenDiscard),
        1 => Just(Bp::DiscardAndFail),
    ]
}

pub fn pub_cfg_strategy() -> impl Strategy<Value = PubCfg> {
    (1usize..=3, bp_strategy(), prop_oneof![Just(1usize), Just(7), Just(8), Just(33)])
        .prop_map(|(max_loans, bp, max_slice)| PubCfg { max_loans, bp, max_slice })
}

/// Subscriber settings relative to a service: mostly legal, now and then one step too large.
pub fn sub_cfg_strategy() -> impl Strategy<Value = SubCfg> {
    (prop::option::weighted(0.6, 0usize..=5), prop::option::weighted(0.6, 0usize..=4))
        .prop_map(|(buffer, hist_req)| SubCfg { buffer, hist_req })
}

/// Relative weights of the op kinds; the three checks use different biases.
#[derive(Clone, Copy, Debug)]
pub struct Weights {
    pub create_pub: u32,
    pub drop_pub: u32,
    pub create_sub: u32,
    pub drop_sub: u32,
    pub loan: u32,
    pub write: u32,
    pub send: u32,
    pub send_copy: u32,
    pub drop_loan: u32,
    pub receive: u32,
    pub drop_sample: u32,
    pub has_samples: u32,
    pub update: u32,
    pub probe: u32,
}

impl Weights {
    /// C01: delivery oriented
    pub const DELIVERY: Weights = Weights {
        create_pub: 4,
        drop_pub: 2,
        create_sub: 5,
        drop_sub: 2,
        loan: 4,
        write: 1,
        send: 5,
        send_copy: 14,
        drop_loan: 1,
        receive: 14,
        drop_sample: 9,
        has_samples: 2,
        update: 3,
        probe: 0,
    };
    /// C02: hold samples and loans, drop ports under them, probe
    pub const HOLDING: Weights = Weights {
        create_pub: 4,
        drop_pub: 3,
        create_sub: 5,
        drop_sub: 4,
        loan: 7,
        write: 2,
        send: 5,
        send_copy: 14,
        drop_loan: 1,
        receive: 16,
        drop_sample: 4,
        has_samples: 1,
        update: 4,
        probe: 3,
    };
}

pub fn op_strategy(w: Weights) -> impl Strategy<Value = Op> {
    let i = || any::<u16>();
    prop_oneof![
        w.create_pub => pub_cfg_strategy().prop_map(Op::CreatePub),
        w.drop_pub => i().prop_map(Op::DropPub),
        w.create_sub => sub_cfg_strategy().prop_map(Op::CreateSub),
        w.drop_sub => i().prop_map(Op::DropSub),
        w.loan => (i(), 0u16..=40, prop::bool::weighted(0.25)).prop_map(|(p, len, init)| Op::Loan { p, len, init }),
        w.write => i().prop_map(Op::Write),
        w.send => i().prop_map(Op::Send),
        w.send_copy => (i(), 0u16..=40).prop_map(|(p, len)| Op::SendCopy { p, len }),
        w.drop_loan => i().prop_map(Op::DropLoan),
        w.receive => i().prop_map(Op::Receive),
        w.drop_sample => i().prop_map(Op::DropSample),
        w.has_samples => i().prop_map(Op::HasSamples),
        w.update => i().prop_map(Op::UpdatePub),
        w.update => i().prop_map(Op::UpdateSub),
        w.probe.max(1) => i().prop_map(Op::Probe),
    ]
}

/// the nearest settings the service accepts
pub fn legal_sub(svc: &SvcCfg, c: &SubCfg) -> SubCfg {
    let buffer = c.buffer.map(|b| b.clamp(1, svc.max_buf.max(1)));
    let eff = buffer.unwrap_or(svc.max_buf.max(1));
    SubCfg { buffer, hist_req: c.hist_req.map(|h| h.min(svc.hist).min(eff)) }
}

/// A whole case: service, a prologue that makes most cases start with live ports, random ops.
pub fn case_strategy(w: Weights, max_ops: usize) -> impl Strategy<Value = Case> {
    (svc_strategy(), pub_cfg_strategy(), sub_cfg_strategy(), 0u8..8, proptest::collection::vec((op_strategy(w), 0u8..6), 0..max_ops), any::<u8>()).prop_map(
        move |(svc, pc, sc, prologue, ops, teardown)| {
            // subscriber settings are drawn independently of the service; five out of six are made
            // legal for this service here (the stored case contains the final values)
            let mut ops: Vec<Op> = ops
                .into_iter()
                .map(|(op, legalize)| match op {
                    Op::CreateSub(c) if legalize != 0 => Op::CreateSub(legal_sub(&svc, &c)),
                    o => o,
                })
                .collect();
            let sc = legal_sub(&svc, &sc);
            // prologue: nothing (1/8), publisher first (3/8), subscriber first (3/8), publisher only (1/8)
            let mut pre = vec![];
            match prologue {
                1..=3 => {
                    pre.push(Op::CreatePub(pc));
                    pre.push(Op::CreateSub(sc));
                }
                4..=6 => {
                    pre.push(Op::CreateSub(sc));
                    pre.push(Op::CreatePub(pc));
                }
                7 => pre.push(Op::CreatePub(pc)),
                _ => {}
            }
            if w.probe == 0 {
                ops.retain(|o| !matches!(o, Op::Probe(_)));
            }
            pre.append(&mut ops);
            Case { svc, ops: pre, teardown }
        },
    )
}
