//! Reference model of publish-subscribe (DESIGN C01 "O").
//!
//! The model is the *documented* behaviour, including the lazy connection rule:
//!  * a publisher learns of subscribers when it is created, on `send*` and on
//!    `update_connections`; a subscriber learns of publishers when it is created, on
//!    `receive`, `has_samples` and `update_connections` (rustdoc of `UpdateConnections`,
//!    conformance tests `publish_history_is_delivered_on_subscription`,
//!    `publisher_updates_connections_after_reconnect`, `subscriber_updates_connections_after_reconnect`);
//!  * every (publisher, subscriber) pair has its own bounded FIFO of capacity = buffer size of
//!    the subscriber and its own borrow budget of `subscriber_max_borrowed_samples`
//!    (the zero-copy connection is per pair; `communication_with_max_subscribers_and_publishers`);
//!  * a connection object lives as long as one of its two ends is attached. Samples a publisher
//!    put into a connection the subscriber never attached to vanish with the publisher
//!    (DESIGN C01 "Allowed", §6 row 8) — they are remembered as *ghosts*: they may legally never
//!    arrive, and if they did arrive they would still have to be in order and intact;
//!  * a subscriber keeps the connection of a vanished publisher while it holds data or borrowed
//!    samples ("expired connection") and drains expired connections before active ones
//!    (`subscriber_acquires_samples_of_disconnected_publisher_first`,
//!    `subscriber_can_still_receive_sample_when_publisher_was_disconnected`);
//!  * a publisher reclaims everything a vanished subscriber still owned when it next refreshes
//!    (`publisher_reclaims_all_samples_after_disconnect`); a `Sample` that outlives its
//!    `Subscriber` stops being a reference at that point (DESIGN C02 "Allowed").

use super::types::*;
use iceoryx2::port::publisher::PublisherCreateError;
use iceoryx2::port::subscriber::SubscriberCreateError;
use iceoryx2::port::{LoanError, ReceiveError, SendError};
use std::collections::{BTreeMap, BTreeSet, VecDeque};

pub type PubId = usize;
pub type SubId = usize;

/// unique tag of a written payload: (publisher serial, per-publisher write counter)
#[derive(Clone, Copy, Debug, PartialEq, Eq, PartialOrd, Ord, Hash)]
pub struct Tag {
    pub p: PubId,
    pub n: u32,
}

/// The service limits the model works with (the *clamped* values read back from `static_config()`).
#[derive(Clone, Debug)]
pub struct Limits {
    pub max_pubs: usize,
    pub max_subs: usize,
    pub max_buf: usize,
    pub hist: usize,
    pub max_borrow: usize,
    pub overflow: bool,
}

#[derive(Debug, Clone)]
pub struct MPub {
    pub cfg: PubCfg,
    /// present in the service registry (the `Publisher` object exists)
    pub registered: bool,
    /// the sending side is gone for good (publisher and all of its loans dropped)
    pub finalized: bool,
    pub history: VecDeque<Tag>,
    pub loans: BTreeSet<Tag>,
    /// subscribers the publisher is connected to (its own view)
    pub connected: BTreeSet<SubId>,
    pub next_n: u32,
}

#[derive(Debug, Clone)]
pub struct MSub {
    pub buffer: usize,
    pub hist_req: usize,
    pub registered: bool,
    pub finalized: bool,
    /// number of `Sample` objects of this subscriber that exist (they keep its receiving side alive)
    pub samples_out: usize,
    /// publishers the subscriber is attached to and considers present
    pub active: BTreeSet<PubId>,
    /// retained connections of vanished publishers
    pub expired: BTreeSet<PubId>,
    /// Open known finding C01 `recv.active_before_expired.after_multi_cleanup`: when one
    /// `receive` lets go of two or more drained expired connections while another expired
    /// connection stays, `receive_from_to_be_removed_connections` removes a wrong list entry
    /// (relative instead of absolute index), and the connection that stays is no longer drained
    /// first. Set (conservatively) as soon as that constellation was possible for this subscriber.
    pub expired_list_suspect: bool,
}

#[derive(Debug, Default, Clone)]
pub struct Pair {
    pub fifo: VecDeque<Tag>,
    pub borrowed: BTreeSet<Tag>,
    pub pub_att: bool,
    pub sub_att: bool,
}

/// What happened so far (non-triviality rules and class histogram).
#[derive(Debug, Default, Clone)]
pub struct Events {
    pub received: u64,
    pub overflow_evictions: u64,
    pub history_delivered: u64,
    pub port_dropped_with_undelivered: u64,
    pub preconnect_drop: u64,
    pub discarded_full: u64,
    pub handler_calls: u64,
    pub unable_to_deliver: u64,
    pub exceeds_max_borrows: u64,
    pub exceeds_max_loans: u64,
    pub exceeds_max_pubs: u64,
    pub exceeds_max_subs: u64,
    pub sub_cfg_rejected: u64,
    pub loan_too_large: u64,
    pub send_after_pub_drop: u64,
    pub expired_drained: u64,
    pub expired_first_enforced: u64,
    pub known_order_defect_tolerated: u64,
    pub sample_outlived_subscriber: u64,
    pub dead_references: u64,
    pub loan_outlived_publisher: u64,
    pub reclaimed_from_vanished_sub: u64,
    pub history_evictions: u64,
    pub pubs_that_delivered: BTreeSet<PubId>,
    pub received_from: BTreeSet<PubId>,
    pub ghost_delivery: bool,
    /// a limit error was provoked (kind) and the same call succeeded later
    pub limit_hit: BTreeSet<&'static str>,
    pub limit_lifted: BTreeSet<&'static str>,
    pub saturated_success: u64,
}

#[derive(Clone)]
pub struct Model {
    pub lim: Limits,
    pub pubs: Vec<MPub>,
    pub subs: Vec<MSub>,
    pub pairs: BTreeMap<(PubId, SubId), Pair>,
    /// FIFOs that vanished in the pre-connect window: (publisher, subscriber) -> remaining tags
    pub ghosts: BTreeMap<(PubId, SubId), VecDeque<Tag>>,
    pub ev: Events,
}

pub struct SendOutcome {
    pub result: Result<usize, SendError>,
    pub handler_calls: u64,
}

/// Verdict on an observed `receive()`.
pub enum RecvVerdict {
    Ok,
    /// the sample belongs to a ghost FIFO (allowed, DESIGN C01); the model stops tracking the case
    Ghost,
    Wrong(&'static str, String),
}

impl Model {
    pub fn new(lim: Limits) -> Self {
        Model { lim, pubs: vec![], subs: vec![], pairs: BTreeMap::new(), ghosts: BTreeMap::new(), ev: Events::default() }
    }

    pub fn registered_pubs(&self) -> usize {
        self.pubs.iter().filter(|p| p.registered).count()
    }

    pub fn registered_subs(&self) -> usize {
        self.subs.iter().filter(|s| s.registered).count()
    }

    fn drop_pair_if_unattached(&mut self, key: (PubId, SubId)) {
        if let Some(pair) = self.pairs.get(&key) {
            if !pair.pub_att && !pair.sub_att {
                self.pairs.remove(&key);
            }
        }
    }

    // ------------------------------------------------------------------ connection updates

    /// The publisher brings its connections in line with the registry.
    /// Returns the tags that stopped being references (reclaimed from vanished subscribers).
    pub fn refresh_pub(&mut self, p: PubId) -> Vec<(SubId, Tag)> {
        let mut reclaimed = vec![];
        // vanished subscribers: reclaim everything they still owned
        let gone: Vec<SubId> = self.pubs[p].connected.iter().copied().filter(|s| !self.subs[*s].registered).collect();
        for s in gone {
            self.pubs[p].connected.remove(&s);
            if let Some(pair) = self.pairs.get_mut(&(p, s)) {
                for t in pair.fifo.drain(..) {
                    reclaimed.push((s, t));
                }
                for t in std::mem::take(&mut pair.borrowed) {
                    // a Sample that outlived its Subscriber: no longer a reference (C02 "Allowed")
                    self.ev.dead_references += 1;
                    reclaimed.push((s, t));
                }
                pair.pub_att = false;
                self.ev.reclaimed_from_vanished_sub += 1;
            }
            self.drop_pair_if_unattached((p, s));
        }
        // new subscribers: connect and deliver the requested part of the history
        let fresh: Vec<SubId> =
            (0..self.subs.len()).filter(|s| self.subs[*s].registered && !self.pubs[p].connected.contains(s)).collect();
        for s in fresh {
            self.pubs[p].connected.insert(s);
            let cap = self.subs[s].buffer;
            let want = self.subs[s].hist_req.min(cap);
            let hist: Vec<Tag> = self.pubs[p].history.iter().copied().collect();
            let pair = self.pairs.entry((p, s)).or_default();
            pair.pub_att = true;
            let start = hist.len().saturating_sub(want);
            for t in &hist[start..] {
                // want <= capacity and the FIFO of a new connection is empty: always fits
                pair.fifo.push_back(*t);
                self.ev.history_delivered += 1;
            }
        }
        reclaimed
    }

    /// The subscriber brings its connections in line with the registry.
    pub fn refresh_sub(&mut self, s: SubId) {
        let vanished: Vec<PubId> = self.subs[s].active.iter().copied().filter(|p| !self.pubs[*p].registered).collect();
        for p in vanished {
            self.subs[s].active.remove(&p);
            let keep = self.pairs.get(&(p, s)).map(|pr| !pr.fifo.is_empty() || !pr.borrowed.is_empty()).unwrap_or(false);
            if keep {
                self.subs[s].expired.insert(p);
            } else {
                if let Some(pair) = self.pairs.get_mut(&(p, s)) {
                    pair.sub_att = false;
                }
                self.drop_pair_if_unattached((p, s));
            }
        }
        let fresh: Vec<PubId> = (0..self.pubs.len()).filter(|p| self.pubs[*p].registered && !self.subs[s].active.contains(p)).collect();
        for p in fresh {
            self.subs[s].active.insert(p);
            let pair = self.pairs.entry((p, s)).or_default();
            pair.sub_att = true;
        }
    }

    // ------------------------------------------------------------------ ports

    pub fn create_pub(&mut self, cfg: PubCfg) -> Result<PubId, PublisherCreateError> {
        if self.registered_pubs() >= self.lim.max_pubs {
            self.ev.exceeds_max_pubs += 1;
            self.ev.limit_hit.insert("publishers");
            return Err(PublisherCreateError::ExceedsMaxSupportedPublishers);
        }
        if self.ev.limit_hit.contains("publishers") {
            self.ev.limit_lifted.insert("publishers");
        }
        let id = self.pubs.len();
        self.pubs.push(MPub {
            cfg,
            registered: false,
            finalized: false,
            history: VecDeque::new(),
            loans: BTreeSet::new(),
            connected: BTreeSet::new(),
            next_n: 0,
        });
        // connects to the subscribers known at creation, then becomes visible
        self.refresh_pub(id);
        self.pubs[id].registered = true;
        Ok(id)
    }

    /// effective (buffer, history request) or the documented creation error
    pub fn sub_settings(&self, cfg: &SubCfg) -> Result<(usize, usize), SubscriberCreateError> {
        let buffer = match cfg.buffer {
            // PortFactorySubscriber::buffer_size clamps to >= 1
            Some(b) => {
                let b = b.max(1);
                if b > self.lim.max_buf {
                    return Err(SubscriberCreateError::BufferSizeExceedsMaxSupportedBufferSizeOfService);
                }
                b
            }
            None => self.lim.max_buf,
        };
        let hist_req = match cfg.hist_req {
            Some(h) => {
                if h > self.lim.hist {
                    return Err(SubscriberCreateError::HistoryRequestExceedsHistorySizeOfService);
                }
                if h > buffer {
                    return Err(SubscriberCreateError::HistoryRequestExceedsBufferSizeOfSubscriber);
                }
                h
            }
            None => self.lim.hist.min(buffer),
        };
        Ok((buffer, hist_req))
    }

    pub fn create_sub(&mut self, cfg: &SubCfg) -> Result<SubId, SubscriberCreateError> {
        let (buffer, hist_req) = match self.sub_settings(cfg) {
            Ok(v) => v,
            Err(e) => {
                self.ev.sub_cfg_rejected += 1;
                return Err(e);
            }
        };
        if self.registered_subs() >= self.lim.max_subs {
            self.ev.exceeds_max_subs += 1;
            self.ev.limit_hit.insert("subscribers");
            return Err(SubscriberCreateError::ExceedsMaxSupportedSubscribers);
        }
        if self.ev.limit_hit.contains("subscribers") {
            self.ev.limit_lifted.insert("subscribers");
        }
        let id = self.subs.len();
        self.subs.push(MSub {
            buffer,
            hist_req,
            registered: false,
            finalized: false,
            samples_out: 0,
            active: BTreeSet::new(),
            expired: BTreeSet::new(),
            expired_list_suspect: false,
        });
        self.refresh_sub(id);
        self.subs[id].registered = true;
        Ok(id)
    }

    fn finalize_pub(&mut self, p: PubId) {
        self.pubs[p].finalized = true;
        let conns: Vec<SubId> = std::mem::take(&mut self.pubs[p].connected).into_iter().collect();
        for s in conns {
            let mut lost: Option<VecDeque<Tag>> = None;
            if let Some(pair) = self.pairs.get_mut(&(p, s)) {
                pair.pub_att = false;
                if !pair.sub_att && !pair.fifo.is_empty() {
                    lost = Some(std::mem::take(&mut pair.fifo));
                }
            }
            if let Some(l) = lost {
                // the subscriber never attached: the connection vanishes with its contents
                self.ev.preconnect_drop += 1;
                self.ghosts.insert((p, s), l);
            }
            self.drop_pair_if_unattached((p, s));
        }
    }

    pub fn drop_pub(&mut self, p: PubId) {
        let undelivered = self.pubs[p].connected.iter().any(|s| self.pairs.get(&(p, *s)).map(|pr| !pr.fifo.is_empty()).unwrap_or(false));
        if undelivered {
            self.ev.port_dropped_with_undelivered += 1;
        }
        self.pubs[p].registered = false;
        if self.pubs[p].loans.is_empty() {
            self.finalize_pub(p);
        } else {
            self.ev.loan_outlived_publisher += 1;
        }
    }

    fn finalize_sub(&mut self, s: SubId) {
        self.subs[s].finalized = true;
        let mut conns: Vec<PubId> = std::mem::take(&mut self.subs[s].active).into_iter().collect();
        conns.extend(std::mem::take(&mut self.subs[s].expired));
        for p in conns {
            if let Some(pair) = self.pairs.get_mut(&(p, s)) {
                pair.sub_att = false;
            }
            self.drop_pair_if_unattached((p, s));
        }
    }

    pub fn drop_sub(&mut self, s: SubId) {
        let undelivered = self.pairs.iter().any(|((_, ss), pr)| *ss == s && pr.sub_att && !pr.fifo.is_empty());
        if undelivered {
            self.ev.port_dropped_with_undelivered += 1;
        }
        self.subs[s].registered = false;
        if self.subs[s].samples_out == 0 {
            self.finalize_sub(s);
        } else {
            self.ev.sample_outlived_subscriber += 1;
        }
    }

    // ------------------------------------------------------------------ publisher side

    /// `Ok(tag)` = the loan must succeed; never `OutOfMemory` inside the limits (C02/C08).
    pub fn loan(&mut self, p: PubId, len: usize, slice: bool) -> Result<Tag, LoanError> {
        if slice && len > self.pubs[p].cfg.max_slice {
            self.ev.loan_too_large += 1;
            return Err(LoanError::ExceedsMaxLoanSize);
        }
        if self.pubs[p].loans.len() >= self.pubs[p].cfg.max_loans {
            self.ev.exceeds_max_loans += 1;
            self.ev.limit_hit.insert("loans");
            return Err(LoanError::ExceedsMaxLoans);
        }
        if self.ev.limit_hit.contains("loans") {
            self.ev.limit_lifted.insert("loans");
        }
        let t = self.fresh_tag(p);
        self.pubs[p].loans.insert(t);
        Ok(t)
    }

    pub fn fresh_tag(&mut self, p: PubId) -> Tag {
        let t = Tag { p, n: self.pubs[p].next_n };
        self.pubs[p].next_n += 1;
        t
    }

    /// a loan was rewritten: it carries a new tag from now on
    pub fn retag_loan(&mut self, old: Tag) -> Tag {
        let t = self.fresh_tag(old.p);
        self.pubs[old.p].loans.remove(&old);
        self.pubs[old.p].loans.insert(t);
        t
    }

    pub fn drop_loan(&mut self, t: Tag) {
        self.pubs[t.p].loans.remove(&t);
        if !self.pubs[t.p].registered && self.pubs[t.p].loans.is_empty() && !self.pubs[t.p].finalized {
            self.finalize_pub(t.p);
        }
    }

    /// number of chunks the worst case formula reserves for publisher `p`
    pub fn pool_size(&self, p: PubId) -> usize {
        self.lim.max_subs * (self.lim.max_buf + self.lim.max_borrow) + self.lim.hist + self.pubs[p].cfg.max_loans
    }

    /// `send` of loan `t` (the loan is consumed whatever the outcome).
    /// `reclaimed` receives the tags that stopped being references because of the refresh.
    pub fn send(&mut self, t: Tag, reclaimed: &mut Vec<(SubId, Tag)>) -> SendOutcome {
        let p = t.p;
        self.pubs[p].loans.remove(&t);
        if !self.pubs[p].registered {
            self.ev.send_after_pub_drop += 1;
            if self.pubs[p].loans.is_empty() && !self.pubs[p].finalized {
                self.finalize_pub(p);
            }
            return SendOutcome { result: Err(SendError::ConnectionBrokenSinceSenderNoLongerExists), handler_calls: 0 };
        }
        // 1. connections first (new subscribers get the history *without* this sample) ...
        reclaimed.extend(self.refresh_pub(p));
        // 2. ... then the sample enters the history ...
        if self.lim.hist > 0 {
            self.pubs[p].history.push_back(t);
            if self.pubs[p].history.len() > self.lim.hist {
                self.pubs[p].history.pop_front();
                self.ev.history_evictions += 1;
            }
        }
        // 3. ... and is delivered to every connection
        let mut delivered = 0;
        let mut handler_calls = 0u64;
        let mut failed = false;
        let conns: Vec<SubId> = self.pubs[p].connected.iter().copied().collect();
        let bp = self.pubs[p].cfg.bp;
        for s in conns {
            let cap = self.subs[s].buffer;
            let pair = self.pairs.get_mut(&(p, s)).expect("connected pair exists");
            if self.lim.overflow {
                pair.fifo.push_back(t);
                if pair.fifo.len() > cap {
                    pair.fifo.pop_front();
                    self.ev.overflow_evictions += 1;
                }
                delivered += 1;
            } else if pair.fifo.len() >= cap {
                self.ev.discarded_full += 1;
                // a handler is consulted only while the receiving side is attached; otherwise the
                // sample is skipped silently ("no connected receiver and buffer is full")
                if pair.sub_att {
                    match bp {
                        Bp::Discard => {}
                        Bp::DiscardFollow => handler_calls += 1,
                        Bp::RetryThenDiscard(k) => handler_calls += k as u64 + 1,
                        Bp::DiscardAndFail => {
                            handler_calls += 1;
                            failed = true;
                        }
                    }
                }
            } else {
                pair.fifo.push_back(t);
                delivered += 1;
            }
        }
        if delivered > 0 {
            self.ev.pubs_that_delivered.insert(p);
        }
        self.ev.handler_calls += handler_calls;
        let result = if failed {
            self.ev.unable_to_deliver += 1;
            Err(SendError::UnableToDeliver)
        } else {
            Ok(delivered)
        };
        SendOutcome { result, handler_calls }
    }

    // ------------------------------------------------------------------ subscriber side

    fn attached(&self, s: SubId) -> Vec<(PubId, bool)> {
        let mut v: Vec<(PubId, bool)> = self.subs[s].active.iter().map(|p| (*p, false)).collect();
        v.extend(self.subs[s].expired.iter().map(|p| (*p, true)));
        v
    }

    pub fn has_samples(&mut self, s: SubId) -> bool {
        self.refresh_sub(s);
        self.attached(s).iter().any(|(p, _)| self.pairs.get(&(*p, s)).map(|pr| !pr.fifo.is_empty()).unwrap_or(false))
    }

    /// Called *before* the real receive: refreshes the connections.
    pub fn pre_receive(&mut self, s: SubId) {
        self.refresh_sub(s);
    }

    /// What the real `receive()` must have returned, given the model state after `pre_receive`.
    /// `got`: `Ok(None)`, `Err(e)` or `Ok(Some(publisher))`.
    /// Across pairs any order is allowed, except that expired connections come first (a connection
    /// that is at its borrow maximum cannot deliver and is passed over).
    pub fn judge_receive(&mut self, s: SubId, got: Result<Option<PubId>, ReceiveError>, tolerate_known_order_defect: bool) -> (RecvVerdict, Option<Tag>) {
        let att = self.attached(s);
        let max_borrow = self.lim.max_borrow;
        {
            let drained = self.subs[s].expired.iter().filter(|p| self.pairs.get(&(**p, s)).map(|pr| pr.fifo.is_empty() && pr.borrowed.is_empty()).unwrap_or(true)).count();
            if drained >= 2 && self.subs[s].expired.len() > drained {
                self.subs[s].expired_list_suspect = true;
            }
        }
        let mut with_data = vec![];
        let mut ready = vec![];
        for (p, expired) in &att {
            let pr = &self.pairs[&(*p, s)];
            if !pr.fifo.is_empty() {
                with_data.push(*p);
                if pr.borrowed.len() < max_borrow {
                    ready.push((*p, *expired));
                }
            }
        }
        let verdict;
        let mut tag = None;
        match got {
            Ok(None) => {
                verdict = if with_data.is_empty() {
                    RecvVerdict::Ok
                } else if ready.is_empty() {
                    RecvVerdict::Wrong("recv.none_instead_of_exceeds_max_borrows", format!("receive returned None but pairs {with_data:?} hold data and all are at the borrow maximum"))
                } else {
                    RecvVerdict::Wrong("recv.none_with_data", format!("receive returned None but publishers {ready:?} (publisher, expired) have deliverable samples"))
                };
            }
            Err(ReceiveError::ExceedsMaxBorrows) => {
                verdict = if !with_data.is_empty() && ready.is_empty() {
                    self.ev.exceeds_max_borrows += 1;
                    self.ev.limit_hit.insert("borrows");
                    RecvVerdict::Ok
                } else {
                    RecvVerdict::Wrong("recv.spurious_exceeds_max_borrows", format!("receive failed with ExceedsMaxBorrows; pairs with data {with_data:?}, deliverable {ready:?}, max_borrow {max_borrow}"))
                };
            }
            Err(e) => {
                verdict = RecvVerdict::Wrong("recv.error", format!("receive failed with {e:?}"));
            }
            Ok(Some(p)) => {
                if let Some(&(_, expired)) = ready.iter().find(|(q, _)| *q == p) {
                    let any_expired_ready = ready.iter().any(|(_, e)| *e);
                    let suspect = self.subs[s].expired_list_suspect;
                    if any_expired_ready && !expired && !(suspect && tolerate_known_order_defect) {
                        let sig = if self.subs[s].expired_list_suspect { "recv.active_before_expired.after_multi_cleanup" } else { "recv.active_before_expired" };
                        verdict = RecvVerdict::Wrong(sig, format!("sample of active publisher {p} delivered while expired connections {ready:?} still have deliverable samples"));
                    } else {
                        if any_expired_ready && !expired {
                            self.ev.known_order_defect_tolerated += 1;
                        } else if any_expired_ready && ready.iter().any(|(_, e)| !*e) {
                            self.ev.expired_first_enforced += 1;
                        }
                        if self.ev.limit_hit.contains("borrows") {
                            self.ev.limit_lifted.insert("borrows");
                        }
                        let pr = self.pairs.get_mut(&(p, s)).unwrap();
                        let t = pr.fifo.pop_front().unwrap();
                        pr.borrowed.insert(t);
                        self.subs[s].samples_out += 1;
                        self.ev.received += 1;
                        self.ev.received_from.insert(p);
                        if expired {
                            self.ev.expired_drained += 1;
                        }
                        tag = Some(t);
                        verdict = RecvVerdict::Ok;
                    }
                } else if self.ghosts.contains_key(&(p, s)) {
                    self.ev.ghost_delivery = true;
                    tag = self.ghosts.get_mut(&(p, s)).and_then(|g| g.pop_front());
                    verdict = RecvVerdict::Ghost;
                } else if with_data.contains(&p) {
                    verdict = RecvVerdict::Wrong("recv.beyond_max_borrows", format!("sample of publisher {p} delivered although {max_borrow} samples of that connection are already borrowed"));
                } else {
                    verdict = RecvVerdict::Wrong("recv.phantom", format!("sample of publisher {p} delivered but the model has nothing queued for that pair (queued: {with_data:?})"));
                }
            }
        }
        // drained expired connections without borrows are let go (not observable). The real pass
        // stops at the first expired connection that yields data, so nothing is swept then.
        let from_expired = matches!((&verdict, tag), (RecvVerdict::Ok, Some(t)) if self.subs[s].expired.contains(&t.p));
        if !from_expired {
            self.sweep_expired(s);
        }
        (verdict, tag)
    }

    fn sweep_expired(&mut self, s: SubId) {
        let done: Vec<PubId> = self.subs[s]
            .expired
            .iter()
            .copied()
            .filter(|p| self.pairs.get(&(*p, s)).map(|pr| pr.fifo.is_empty() && pr.borrowed.is_empty()).unwrap_or(true))
            .collect();
        for p in done {
            self.subs[s].expired.remove(&p);
            if let Some(pair) = self.pairs.get_mut(&(p, s)) {
                pair.sub_att = false;
            }
            self.drop_pair_if_unattached((p, s));
        }
    }

    /// A `Sample` object of subscriber `s` carrying `t` is dropped. `live`: the model still
    /// counted it as a reference.
    pub fn drop_sample(&mut self, s: SubId, t: Tag, live: bool) {
        if live {
            if let Some(pr) = self.pairs.get_mut(&(t.p, s)) {
                pr.borrowed.remove(&t);
            }
        }
        self.subs[s].samples_out -= 1;
        if !self.subs[s].registered && self.subs[s].samples_out == 0 && !self.subs[s].finalized {
            self.finalize_sub(s);
        }
    }

    // ------------------------------------------------------------------ reference accounting (C02)

    /// Every tag of publisher `p` that something still refers to: unsent loans, history, queued
    /// and borrowed entries of the connections the publisher has not given up.
    pub fn live_tags(&self, p: PubId) -> BTreeSet<Tag> {
        let mut v: BTreeSet<Tag> = self.pubs[p].loans.iter().copied().collect();
        v.extend(self.pubs[p].history.iter().copied());
        for ((pp, _), pr) in &self.pairs {
            if *pp == p && pr.pub_att {
                v.extend(pr.fifo.iter().copied());
                v.extend(pr.borrowed.iter().copied());
            }
        }
        v
    }

    /// number of limits of publisher `p` / its subscribers that are at their maximum right now
    pub fn saturated_limits(&self, p: PubId) -> usize {
        let mut n = 0;
        if self.pubs[p].loans.len() >= self.pubs[p].cfg.max_loans && self.pubs[p].cfg.max_loans > 0 {
            n += 1;
        }
        if self.lim.hist > 0 && self.pubs[p].history.len() >= self.lim.hist {
            n += 1;
        }
        if self.registered_subs() >= self.lim.max_subs {
            n += 1;
        }
        if self.registered_pubs() >= self.lim.max_pubs {
            n += 1;
        }
        let conns: Vec<&Pair> = self.pairs.iter().filter(|((pp, s), pr)| *pp == p && pr.pub_att && self.subs[*s].registered).map(|(_, pr)| pr).collect();
        if !conns.is_empty() {
            if self.pairs.iter().filter(|((pp, s), pr)| *pp == p && pr.pub_att && self.subs[*s].registered).all(|((_, s), pr)| pr.fifo.len() >= self.subs[*s].buffer) {
                n += 1;
            }
            if conns.iter().all(|pr| pr.borrowed.len() >= self.lim.max_borrow) {
                n += 1;
            }
        }
        n
    }
}

// --------------------------------------------------------------------------------------------------
// model-only execution (used to enumerate op sequences without no-ops; never an oracle)
// --------------------------------------------------------------------------------------------------

/// The model plus the lists of live handles, driven without the real system. `receive` picks the
/// first deliverable pair (expired first), which is exact for one publisher.
#[derive(Clone)]
pub struct Abstract {
    pub model: Model,
    pub slice: bool,
    pub pubs: Vec<PubId>,
    pub subs: Vec<SubId>,
    pub loans: Vec<Tag>,
    pub samples: Vec<(SubId, Tag, bool)>,
}

impl Abstract {
    pub fn new(svc: &SvcCfg) -> Self {
        Abstract {
            model: Model::new(Limits {
                max_pubs: svc.max_pubs.max(1),
                max_subs: svc.max_subs.max(1),
                max_buf: svc.max_buf.max(1),
                hist: svc.hist,
                max_borrow: svc.max_borrow.max(1),
                overflow: svc.overflow,
            }),
            slice: svc.slice,
            pubs: vec![],
            subs: vec![],
            loans: vec![],
            samples: vec![],
        }
    }

    fn mark_dead(&mut self, reclaimed: &[(SubId, Tag)]) {
        for (s, t) in reclaimed {
            for x in self.samples.iter_mut() {
                if x.0 == *s && x.1 == *t {
                    x.2 = false;
                }
            }
        }
    }

    /// (kind, resolved target) of an op in the current state; two alphabet entries with the same
    /// resolution are the same op here
    pub fn target(&self, op: &Op) -> (u8, usize, u64) {
        use vcore::util::idx;
        match op {
            Op::CreatePub(c) => (0, c.max_loans, match c.bp { Bp::Discard => 0, Bp::DiscardFollow => 1, Bp::RetryThenDiscard(k) => 2 + k as u64, Bp::DiscardAndFail => 9 }),
            Op::CreateSub(c) => (1, c.buffer.map(|b| b + 1).unwrap_or(0), c.hist_req.map(|b| b as u64 + 1).unwrap_or(0)),
            Op::DropPub(i) => (2, idx(*i, self.pubs.len()), 0),
            Op::DropSub(i) => (3, idx(*i, self.subs.len()), 0),
            Op::Loan { p, len, init } => (4, idx(*p, self.pubs.len()), (*len as u64) << 1 | *init as u64),
            Op::Write(l) => (5, idx(*l, self.loans.len()), 0),
            Op::DropLoan(l) => (6, idx(*l, self.loans.len()), 0),
            Op::Send(l) => (7, idx(*l, self.loans.len()), 0),
            Op::SendCopy { p, len } => (8, idx(*p, self.pubs.len()), *len as u64),
            Op::Receive(s) => (9, idx(*s, self.subs.len()), 0),
            Op::DropSample(x) => (10, idx(*x, self.samples.len()), 0),
            Op::HasSamples(s) => (11, idx(*s, self.subs.len()), 0),
            Op::UpdatePub(p) => (12, idx(*p, self.pubs.len()), 0),
            Op::UpdateSub(s) => (13, idx(*s, self.subs.len()), 0),
            Op::Probe(p) => (14, idx(*p, self.pubs.len()), 0),
        }
    }

    /// Applies `op` to the model. `false`: the op has no target (it would be skipped).
    pub fn step(&mut self, op: &Op) -> bool {
        use vcore::util::idx;
        match op {
            Op::CreatePub(c) => {
                if let Ok(id) = self.model.create_pub(c.clone()) {
                    self.pubs.push(id);
                }
                true
            }
            Op::CreateSub(c) => {
                if let Ok(id) = self.model.create_sub(c) {
                    self.subs.push(id);
                }
                true
            }
            Op::DropPub(i) => {
                if self.pubs.is_empty() {
                    return false;
                }
                let p = self.pubs.remove(idx(*i, self.pubs.len()));
                self.model.drop_pub(p);
                true
            }
            Op::DropSub(i) => {
                if self.subs.is_empty() {
                    return false;
                }
                let s = self.subs.remove(idx(*i, self.subs.len()));
                self.model.drop_sub(s);
                true
            }
            Op::Loan { p, len, .. } => {
                if self.pubs.is_empty() {
                    return false;
                }
                let p = self.pubs[idx(*p, self.pubs.len())];
                if let Ok(t) = self.model.loan(p, *len as usize, self.slice) {
                    self.loans.push(t);
                }
                true
            }
            Op::Write(l) => {
                if self.loans.is_empty() {
                    return false;
                }
                let k = idx(*l, self.loans.len());
                self.loans[k] = self.model.retag_loan(self.loans[k]);
                true
            }
            Op::DropLoan(l) => {
                if self.loans.is_empty() {
                    return false;
                }
                let t = self.loans.remove(idx(*l, self.loans.len()));
                self.model.drop_loan(t);
                true
            }
            Op::Send(l) => {
                if self.loans.is_empty() {
                    return false;
                }
                let t = self.loans.remove(idx(*l, self.loans.len()));
                let mut r = vec![];
                self.model.send(t, &mut r);
                self.mark_dead(&r);
                true
            }
            Op::SendCopy { p, len } => {
                if self.pubs.is_empty() {
                    return false;
                }
                let p = self.pubs[idx(*p, self.pubs.len())];
                if let Ok(t) = self.model.loan(p, *len as usize, self.slice) {
                    let mut r = vec![];
                    self.model.send(t, &mut r);
                    self.mark_dead(&r);
                }
                true
            }
            Op::Receive(s) => {
                if self.subs.is_empty() {
                    return false;
                }
                let s = self.subs[idx(*s, self.subs.len())];
                self.model.pre_receive(s);
                let mut pick = None;
                let mut any_data = false;
                for expired in [true, false] {
                    let set = if expired { &self.model.subs[s].expired } else { &self.model.subs[s].active };
                    for p in set {
                        let pr = &self.model.pairs[&(*p, s)];
                        if !pr.fifo.is_empty() {
                            any_data = true;
                            if pr.borrowed.len() < self.model.lim.max_borrow && pick.is_none() {
                                pick = Some(*p);
                            }
                        }
                    }
                }
                let got = match pick {
                    Some(p) => Ok(Some(p)),
                    None if any_data => Err(ReceiveError::ExceedsMaxBorrows),
                    None => Ok(None),
                };
                if let (_, Some(t)) = self.model.judge_receive(s, got, true) {
                    self.samples.push((s, t, true));
                }
                true
            }
            Op::DropSample(x) => {
                if self.samples.is_empty() {
                    return false;
                }
                let (s, t, live) = self.samples.remove(idx(*x, self.samples.len()));
                self.model.drop_sample(s, t, live);
                true
            }
            Op::HasSamples(s) => {
                if self.subs.is_empty() {
                    return false;
                }
                let s = self.subs[idx(*s, self.subs.len())];
                self.model.has_samples(s);
                true
            }
            Op::UpdatePub(p) => {
                if self.pubs.is_empty() {
                    return false;
                }
                let p = self.pubs[idx(*p, self.pubs.len())];
                let r = self.model.refresh_pub(p);
                self.mark_dead(&r);
                true
            }
            Op::UpdateSub(s) => {
                if self.subs.is_empty() {
                    return false;
                }
                let s = self.subs[idx(*s, self.subs.len())];
                self.model.refresh_sub(s);
                true
            }
            Op::Probe(_) => !self.pubs.is_empty(),
        }
    }
}
