//! Capturing logger (DESIGN C08 "O" (1)): records the `warn!` / `error!` lines iceoryx2 emits so
//! that the "should never happen" release / reclaim failures become observable. Nothing is printed.
//!
//! `iceoryx2_log::set_logger` accepts a logger once per process, before the first log line; the
//! check binaries call `install()` first thing in `body`. If another logger is already active the
//! capture is empty and `installed()` says so (the checks then rely on API return values only).

use iceoryx2_log::{Log, LogLevel};
use std::sync::Mutex;
use std::sync::atomic::{AtomicBool, Ordering};

struct Capture {
    lines: Mutex<Vec<String>>,
}

static CAPTURE: Capture = Capture { lines: Mutex::new(Vec::new()) };
static INSTALLED: AtomicBool = AtomicBool::new(false);

impl Log for Capture {
    fn log(&self, log_level: LogLevel, _origin: core::fmt::Arguments, formatted_message: core::fmt::Arguments) {
        if log_level >= LogLevel::Warn {
            let tag = if log_level >= LogLevel::Error { 'E' } else { 'W' };
            if let Ok(mut g) = self.lines.lock() {
                if g.len() < 4096 {
                    g.push(format!("{tag}: {formatted_message}"));
                }
            }
        }
    }
}

/// Installs the capture (idempotent) and sets the log level to `Warn`.
pub fn install() -> bool {
    if !INSTALLED.load(Ordering::Relaxed) {
        if iceoryx2_log::set_logger(&CAPTURE) {
            INSTALLED.store(true, Ordering::Relaxed);
        }
    }
    if INSTALLED.load(Ordering::Relaxed) {
        iceoryx2_log::set_log_level(LogLevel::Warn);
    }
    INSTALLED.load(Ordering::Relaxed)
}

pub fn installed() -> bool {
    INSTALLED.load(Ordering::Relaxed)
}

/// Back to silence for code of other builders that runs afterwards in the same process.
pub fn uninstall_level() {
    iceoryx2_log::set_log_level(LogLevel::Fatal);
}

pub fn drain() -> Vec<String> {
    match CAPTURE.lines.lock() {
        Ok(mut g) => std::mem::take(&mut *g),
        Err(_) => vec![],
    }
}

/// Lines that must never appear while every participant stays inside the declared limits:
/// any `error!`, the failed release / reclaim / history delivery warnings.
pub fn is_alarm(line: &str) -> bool {
    line.starts_with("E:")
        || line.contains("This should never happen")
        || line.contains("Unable to reclaim")
        || line.contains("Failed to deliver history")
        || line.contains("Lost chunk")
        || line.contains("Expired connection buffer exceeded")
}
