//! Interpreter: applies one op to the real ports and to the reference model, compares the return
//! value of that op and runs the invariants (canaries, registry counts, captured log lines).
//! Generic over the service variant (`local::Service`, `ipc::Service`) and the payload flavour
//! (`u64`, `[u8]` slices).

use super::logcap;
use super::model::*;
use super::types::*;
use crate::domain::Domain;
use iceoryx2::node::{Node, NodeBuilder};
use iceoryx2::port::publisher::Publisher;
use iceoryx2::port::subscriber::Subscriber;
use iceoryx2::port::update_connections::UpdateConnections;
use iceoryx2::port::{BackpressureAction, BackpressureInfo, LoanError, ReceiveError, SendError};
use iceoryx2::prelude::{AllocationStrategy, BackpressureStrategy, ServiceName};
use iceoryx2::sample::Sample;
use iceoryx2::sample_mut::SampleMut;
use iceoryx2::service::Service;
use iceoryx2::service::builder::publish_subscribe::PublishSubscribeCreateError;
use iceoryx2::service::header::payload_header::PayloadHeader;
use iceoryx2::service::port_factory::PortFactory as _;
use iceoryx2::service::port_factory::publish_subscribe::PortFactory;
use iceoryx2_bb_elementary_traits::iceoryx_send::IceoryxSend;
use std::collections::{BTreeMap, BTreeSet};
use std::fmt::Debug;
use std::sync::Arc;
use std::sync::atomic::{AtomicU64, Ordering};
use vcore::util::idx;
use vcore::{Failure, Obs, ensure, fail};

// ----------------------------------------------------------------------------------------------
// payload flavours
// ----------------------------------------------------------------------------------------------

type Handler = Box<dyn Fn(&BackpressureInfo) -> BackpressureAction + Send + 'static>;

pub trait Flavor: 'static + Sized {
    type P: ?Sized + IceoryxSend + Debug + 'static;
    const SLICE: bool;

    fn create_service<S: Service>(node: &Node<S>, name: &ServiceName, c: &SvcCfg) -> Result<PortFactory<S, Self::P, ()>, PublishSubscribeCreateError>;
    fn create_pub<S: Service>(
        f: &PortFactory<S, Self::P, ()>,
        c: &PubCfg,
        strategy: BackpressureStrategy,
        handler: Option<Handler>,
    ) -> Result<Publisher<S, Self::P, ()>, iceoryx2::port::publisher::PublisherCreateError>;
    /// `bytes == None`: `loan()` / `loan_slice(len)` (default initialised)
    fn loan<S: Service>(p: &Publisher<S, Self::P, ()>, len: usize, bytes: Option<&[u8]>) -> Result<SampleMut<S, Self::P, ()>, LoanError>;
    fn loan_bytes<S: Service>(l: &SampleMut<S, Self::P, ()>) -> &[u8];
    fn loan_write<S: Service>(l: &mut SampleMut<S, Self::P, ()>, bytes: &[u8]);
    fn send_copy<S: Service>(p: &Publisher<S, Self::P, ()>, bytes: &[u8]) -> Result<usize, SendError>;
    fn receive<S: Service>(s: &Subscriber<S, Self::P, ()>) -> Result<Option<Sample<S, Self::P, ()>>, ReceiveError>;
    fn sample_bytes<S: Service>(s: &Sample<S, Self::P, ()>) -> &[u8];
}

pub struct U64;
pub struct Bytes;

fn apply_svc<S: Service, P: ?Sized + IceoryxSend + Debug>(
    b: iceoryx2::service::builder::publish_subscribe::Builder<P, (), S>,
    c: &SvcCfg,
) -> iceoryx2::service::builder::publish_subscribe::Builder<P, (), S> {
    b.max_publishers(c.max_pubs)
        .max_subscribers(c.max_subs)
        .subscriber_max_buffer_size(c.max_buf)
        .history_size(c.hist)
        .subscriber_max_borrowed_samples(c.max_borrow)
        .enable_safe_overflow(c.overflow)
        .max_nodes(2)
}

impl Flavor for U64 {
    type P = u64;
    const SLICE: bool = false;

    fn create_service<S: Service>(node: &Node<S>, name: &ServiceName, c: &SvcCfg) -> Result<PortFactory<S, u64, ()>, PublishSubscribeCreateError> {
        apply_svc(node.service_builder(name).publish_subscribe::<u64>(), c).create()
    }
    fn create_pub<S: Service>(
        f: &PortFactory<S, u64, ()>,
        c: &PubCfg,
        strategy: BackpressureStrategy,
        handler: Option<Handler>,
    ) -> Result<Publisher<S, u64, ()>, iceoryx2::port::publisher::PublisherCreateError> {
        let b = f.publisher_builder().max_loaned_samples(c.max_loans).backpressure_strategy(strategy);
        match handler {
            Some(h) => b.set_backpressure_handler(move |i: &BackpressureInfo| h(i)).create(),
            None => b.create(),
        }
    }
    fn loan<S: Service>(p: &Publisher<S, u64, ()>, _len: usize, bytes: Option<&[u8]>) -> Result<SampleMut<S, u64, ()>, LoanError> {
        match bytes {
            None => p.loan(),
            Some(b) => Ok(p.loan_uninit()?.write_payload(u64::from_le_bytes(b.try_into().unwrap()))),
        }
    }
    fn loan_bytes<S: Service>(l: &SampleMut<S, u64, ()>) -> &[u8] {
        unsafe { core::slice::from_raw_parts(l.payload() as *const u64 as *const u8, 8) }
    }
    fn loan_write<S: Service>(l: &mut SampleMut<S, u64, ()>, bytes: &[u8]) {
        *l.payload_mut() = u64::from_le_bytes(bytes.try_into().unwrap());
    }
    fn send_copy<S: Service>(p: &Publisher<S, u64, ()>, bytes: &[u8]) -> Result<usize, SendError> {
        p.send_copy(u64::from_le_bytes(bytes.try_into().unwrap()))
    }
    fn receive<S: Service>(s: &Subscriber<S, u64, ()>) -> Result<Option<Sample<S, u64, ()>>, ReceiveError> {
        s.receive()
    }
    fn sample_bytes<S: Service>(s: &Sample<S, u64, ()>) -> &[u8] {
        unsafe { core::slice::from_raw_parts(s.payload() as *const u64 as *const u8, 8) }
    }
}

impl Flavor for Bytes {
    type P = [u8];
    const SLICE: bool = true;

    fn create_service<S: Service>(node: &Node<S>, name: &ServiceName, c: &SvcCfg) -> Result<PortFactory<S, [u8], ()>, PublishSubscribeCreateError> {
        apply_svc(node.service_builder(name).publish_subscribe::<[u8]>(), c).create()
    }
    fn create_pub<S: Service>(
        f: &PortFactory<S, [u8], ()>,
        c: &PubCfg,
        strategy: BackpressureStrategy,
        handler: Option<Handler>,
    ) -> Result<Publisher<S, [u8], ()>, iceoryx2::port::publisher::PublisherCreateError> {
        let b = f
            .publisher_builder()
            .max_loaned_samples(c.max_loans)
            .backpressure_strategy(strategy)
            .initial_max_slice_len(c.max_slice)
            .allocation_strategy(AllocationStrategy::Static);
        match handler {
            Some(h) => b.set_backpressure_handler(move |i: &BackpressureInfo| h(i)).create(),
            None => b.create(),
        }
    }
    fn loan<S: Service>(p: &Publisher<S, [u8], ()>, len: usize, bytes: Option<&[u8]>) -> Result<SampleMut<S, [u8], ()>, LoanError> {
        match bytes {
            None => p.loan_slice(len),
            Some(b) => Ok(p.loan_slice_uninit(len)?.write_from_fn(|i| b[i])),
        }
    }
    fn loan_bytes<S: Service>(l: &SampleMut<S, [u8], ()>) -> &[u8] {
        l.payload()
    }
    fn loan_write<S: Service>(l: &mut SampleMut<S, [u8], ()>, bytes: &[u8]) {
        l.payload_mut().copy_from_slice(bytes);
    }
    fn send_copy<S: Service>(p: &Publisher<S, [u8], ()>, bytes: &[u8]) -> Result<usize, SendError> {
        // there is no send_copy for slices; the documented one-shot form is
        // loan_slice_uninit + write_from_slice + send
        let l = p.loan_slice_uninit(bytes.len()).map_err(SendError::LoanError)?;
        l.write_from_slice(bytes).send()
    }
    fn receive<S: Service>(s: &Subscriber<S, [u8], ()>) -> Result<Option<Sample<S, [u8], ()>>, ReceiveError> {
        s.receive()
    }
    fn sample_bytes<S: Service>(s: &Sample<S, [u8], ()>) -> &[u8] {
        s.payload()
    }
}

// ----------------------------------------------------------------------------------------------
// payload contents
// ----------------------------------------------------------------------------------------------

/// unique tag + checksum fill: the first 8 bytes are a bijective scramble of (publisher serial,
/// counter), the rest repeats it xor the position
pub fn payload_for(t: Tag, len: usize) -> Vec<u8> {
    let packed = ((t.p as u64 + 1) << 32) | t.n as u64;
    let v = packed.wrapping_mul(0x9E37_79B9_7F4A_7C15) ^ 0xA5A5_5A5A_C3C3_3C3C;
    let w = v.to_le_bytes();
    (0..len).map(|i| w[i % 8] ^ ((i / 8) as u8).wrapping_mul(29)).collect()
}

// ----------------------------------------------------------------------------------------------
// interpreter
// ----------------------------------------------------------------------------------------------

#[derive(Clone, Copy, Debug)]
pub struct Opts {
    /// C02 probe 2: the address of a new loan must not be the address of a live reference
    pub address_probe: bool,
    /// SendCopy is executed as loan + write + send so that the chunk address is known
    pub send_copy_via_loan: bool,
    /// inspect the captured warn/error lines after every op
    pub check_log: bool,
    /// C02/C08: the cross-connection receive order is C01's business; the open C01 finding
    /// `recv.active_before_expired.after_multi_cleanup` is accepted (and counted) there
    pub tolerate_known_order_defect: bool,
}

impl Default for Opts {
    fn default() -> Self {
        Opts { address_probe: true, send_copy_via_loan: false, check_log: true, tolerate_known_order_defect: false }
    }
}

struct RPub<S: Service, F: Flavor> {
    id: PubId,
    port: Publisher<S, F::P, ()>,
}
struct RSub<S: Service, F: Flavor> {
    id: SubId,
    port: Subscriber<S, F::P, ()>,
}
struct RLoan<S: Service, F: Flavor> {
    tag: Tag,
    loan: SampleMut<S, F::P, ()>,
}
struct RSample<S: Service, F: Flavor> {
    sub: SubId,
    tag: Tag,
    /// the model still counts the sample as a reference (canary checks apply)
    live: bool,
    /// payload address and length as seen when the sample was received (`Sample::payload()` itself reads
    /// the chunk header in shared memory, so the probe for "still mapped" must not go through it)
    addr: usize,
    len: usize,
    sample: Sample<S, F::P, ()>,
}

struct TagInfo {
    bytes: Vec<u8>,
    /// payload address in the publisher's mapping (known for loans)
    addr: Option<usize>,
}

pub struct Interp<S: Service, F: Flavor> {
    pub model: Model,
    pub opts: Opts,
    pub step_no: usize,
    /// the model stopped tracking (ghost delivery accepted): remaining ops are skipped
    pub stopped: bool,
    /// C02 NT: a chunk address was handed out again while an older sample was still held
    pub reuse_while_held: u64,
    pub chunk_reuses: u64,
    pub probes_run: u64,
    tags: BTreeMap<Tag, TagInfo>,
    seen_addr: BTreeSet<(PubId, usize)>,
    pub_uid: Vec<u128>,
    handler_ctr: Vec<Arc<AtomicU64>>,
    // real objects; declaration order = drop order of whatever is still there when the
    // interpreter itself is dropped (after a failure): references first, then ports
    samples: Vec<RSample<S, F>>,
    loans: Vec<RLoan<S, F>>,
    subs: Vec<RSub<S, F>>,
    pubs: Vec<RPub<S, F>>,
    svc: Option<PortFactory<S, F::P, ()>>,
    node: Option<Node<S>>,
    domain: Domain,
}

fn limits_of<S: Service, F: Flavor>(svc: &PortFactory<S, F::P, ()>) -> Limits {
    let sc = svc.static_config();
    Limits {
        max_pubs: sc.max_publishers(),
        max_subs: sc.max_subscribers(),
        max_buf: sc.subscriber_max_buffer_size(),
        hist: sc.history_size(),
        max_borrow: sc.subscriber_max_borrowed_samples(),
        overflow: sc.has_safe_overflow(),
    }
}

impl<S: Service, F: Flavor> Interp<S, F> {
    /// Fresh domain, node and service. `Ok(Err(e))`: the service was refused with `e`
    /// (everything created so far is torn down and checked for leftovers).
    pub fn new(cfg: &SvcCfg, opts: Opts) -> Result<Result<Self, PublishSubscribeCreateError>, Failure> {
        let domain = Domain::new();
        let node = match NodeBuilder::new().config(&domain.config).create::<S>() {
            Ok(n) => n,
            Err(e) => {
                domain.cleanup();
                fail!("setup.node", "node creation failed: {e:?}");
            }
        };
        let name: ServiceName = "pubsub/under/test".try_into().expect("valid service name");
        let svc = match F::create_service::<S>(&node, &name, cfg) {
            Ok(s) => s,
            Err(e) => {
                drop(node);
                let left = domain.leftovers();
                domain.cleanup();
                ensure!(left.is_empty(), "leftovers.refused_service", "service creation failed with {e:?} and left {left:?}");
                return Ok(Err(e));
            }
        };
        let lim = limits_of::<S, F>(&svc);
        // documented clamping: zero becomes one (conformance tests set_*_to_zero_adjusts_it_to_one)
        let want = Limits {
            max_pubs: cfg.max_pubs.max(1),
            max_subs: cfg.max_subs.max(1),
            max_buf: cfg.max_buf.max(1),
            hist: cfg.hist,
            max_borrow: cfg.max_borrow.max(1),
            overflow: cfg.overflow,
        };
        let same = lim.max_pubs == want.max_pubs
            && lim.max_subs == want.max_subs
            && lim.max_buf == want.max_buf
            && lim.hist == want.hist
            && lim.max_borrow == want.max_borrow
            && lim.overflow == want.overflow;
        let mut me = Interp {
            model: Model::new(lim.clone()),
            opts,
            step_no: 0,
            stopped: false,
            reuse_while_held: 0,
            chunk_reuses: 0,
            probes_run: 0,
            tags: BTreeMap::new(),
            seen_addr: BTreeSet::new(),
            pub_uid: vec![],
            handler_ctr: vec![],
            samples: vec![],
            loans: vec![],
            subs: vec![],
            pubs: vec![],
            svc: Some(svc),
            node: Some(node),
            domain,
        };
        if !same {
            let f = Failure::new("static_config.clamp", format!("static_config() reports {lim:?} for requested {cfg:?} (expected {want:?})"));
            me.abort();
            return Err(f);
        }
        if opts.check_log {
            logcap::drain();
        }
        Ok(Ok(me))
    }

    pub fn live_pubs(&self) -> Vec<PubId> {
        self.pubs.iter().map(|p| p.id).collect()
    }
    pub fn live_subs(&self) -> Vec<SubId> {
        self.subs.iter().map(|s| s.id).collect()
    }
    pub fn loan_tags(&self) -> Vec<Tag> {
        self.loans.iter().map(|l| l.tag).collect()
    }
    /// (subscriber, tag, live) of every held sample, in list order
    pub fn held_samples(&self) -> Vec<(SubId, Tag, bool)> {
        self.samples.iter().map(|s| (s.sub, s.tag, s.live)).collect()
    }
    pub fn svc_is_slice(&self) -> bool {
        F::SLICE
    }

    fn svc(&self) -> &PortFactory<S, F::P, ()> {
        self.svc.as_ref().unwrap()
    }

    fn mark_dead(&mut self, reclaimed: &[(SubId, Tag)]) {
        for (s, t) in reclaimed {
            for x in self.samples.iter_mut() {
                if x.sub == *s && x.tag == *t {
                    x.live = false;
                }
            }
        }
    }

    fn pub_by_uid(&self, uid: u128) -> Option<PubId> {
        self.pub_uid.iter().position(|u| *u == uid)
    }

    /// bookkeeping + C02 probe 2 for a chunk that has just been handed out as loan of `tag`
    fn note_loan_address(&mut self, tag: Tag, addr: usize, what: &str) -> Result<(), Failure> {
        let p = tag.p;
        if self.opts.address_probe {
            // no double hand-out: the address must not belong to anything still referenced
            for t in self.model.live_tags(p) {
                if t == tag {
                    continue;
                }
                if let Some(i) = self.tags.get(&t) {
                    if i.addr == Some(addr) {
                        fail!(
                            "loan.double_handout",
                            "step {}: {what} of publisher {p} returned chunk {addr:#x} which is still referenced as {t:?} (unsent loan, history, subscriber buffer or held sample)",
                            self.step_no
                        );
                    }
                }
            }
        }
        if !self.seen_addr.insert((p, addr)) {
            self.chunk_reuses += 1;
            let older_held = self.samples.iter().any(|x| x.live && x.tag.p == p);
            if older_held {
                self.reuse_while_held += 1;
            }
        }
        Ok(())
    }

    fn check_loan_result(&mut self, p: PubId, len: usize, init: bool, what: &str) -> Result<Option<(Tag, SampleMut<S, F::P, ()>)>, Failure> {
        let step = self.step_no;
        let pi = self.pubs.iter().position(|x| x.id == p).expect("live publisher");
        let expect = self.model.loan(p, len, F::SLICE);
        let n = if F::SLICE { len } else { 8 };
        // bytes written into the loan (a loan the model refuses gets a dummy pattern)
        let b = match (&expect, init) {
            (_, true) => vec![0u8; n],
            (Ok(t), false) => payload_for(*t, n),
            (Err(_), false) => payload_for(Tag { p, n: u32::MAX }, n),
        };
        let got = F::loan::<S>(&self.pubs[pi].port, len, if init { None } else { Some(&b) });
        match (expect, got) {
            (Ok(t), Ok(l)) => {
                let rb = F::loan_bytes::<S>(&l);
                ensure!(rb == &b[..], if init { "loan.default_init" } else { "loan.payload" }, "step {step}: {what}: payload of the new loan reads {rb:?}, expected {b:?}");
                ensure!(l.header().number_of_elements() as usize == if F::SLICE { len } else { 1 }, "loan.number_of_elements", "step {step}: {what}: header reports {} elements", l.header().number_of_elements());
                ensure!(l.header().publisher_id().value() == self.pub_uid[p], "loan.origin", "step {step}: {what}: header names another publisher");
                let addr = rb.as_ptr() as usize;
                self.tags.insert(t, TagInfo { bytes: b, addr: Some(addr) });
                self.note_loan_address(t, addr, what)?;
                Ok(Some((t, l)))
            }
            (Err(e), Err(g)) => {
                ensure!(e == g, "loan.error", "step {step}: {what} failed with {g:?}, documented error is {e:?}");
                Ok(None)
            }
            (Ok(_), Err(g)) => {
                let sig = if g == LoanError::OutOfMemory { "loan.out_of_memory" } else { "loan.refused" };
                fail!(
                    sig,
                    "step {step}: {what} of publisher {p} failed with {g:?} inside the limits ({} of {} loans out, {} chunks referenced by the model, pool {})",
                    self.model.pubs[p].loans.len() - 1,
                    self.model.pubs[p].cfg.max_loans,
                    self.model.live_tags(p).len() - 1,
                    self.model.pool_size(p)
                );
            }
            (Err(e), Ok(_)) => fail!("loan.limit_not_enforced", "step {step}: {what} of publisher {p} succeeded, expected {e:?}"),
        }
    }

    fn check_send(&mut self, p: PubId, out: SendOutcome, got: Result<usize, SendError>, before: u64, what: &str) -> Result<(), Failure> {
        let step = self.step_no;
        ensure!(
            got == out.result,
            "send.count",
            "step {step}: {what} of publisher {p} returned {got:?}, the model delivered to {:?} (connections {:?})",
            out.result,
            self.model.pubs[p].connected
        );
        let calls = self.handler_ctr[p].load(Ordering::Relaxed) - before;
        ensure!(calls == out.handler_calls, "send.handler_calls", "step {step}: {what}: backpressure handler called {calls} times, expected {}", out.handler_calls);
        Ok(())
    }

    /// Applies one op. Ops whose target list is empty are skipped (returns false).
    pub fn step(&mut self, op: &Op) -> Result<bool, Failure> {
        if self.stopped {
            return Ok(false);
        }
        self.step_no += 1;
        let step = self.step_no;
        let applied = match op {
            Op::CreatePub(cfg) => {
                let ctr = Arc::new(AtomicU64::new(0));
                let bp = cfg.bp;
                let (strategy, handler): (BackpressureStrategy, Option<Handler>) = match bp {
                    Bp::Discard => (BackpressureStrategy::DiscardData, None),
                    Bp::DiscardFollow => {
                        let c = ctr.clone();
                        (
                            BackpressureStrategy::DiscardData,
                            Some(Box::new(move |_: &BackpressureInfo| {
                                c.fetch_add(1, Ordering::Relaxed);
                                BackpressureAction::FollowBackpressureyStrategy
                            })),
                        )
                    }
                    Bp::RetryThenDiscard(k) => {
                        let c = ctr.clone();
                        (
                            BackpressureStrategy::RetryUntilDelivered,
                            Some(Box::new(move |i: &BackpressureInfo| {
                                c.fetch_add(1, Ordering::Relaxed);
                                if i.retries < k as u64 { BackpressureAction::Retry } else { BackpressureAction::DiscardData }
                            })),
                        )
                    }
                    Bp::DiscardAndFail => {
                        let c = ctr.clone();
                        (
                            BackpressureStrategy::RetryUntilDelivered,
                            Some(Box::new(move |_: &BackpressureInfo| {
                                c.fetch_add(1, Ordering::Relaxed);
                                BackpressureAction::DiscardDataAndFail
                            })),
                        )
                    }
                };
                let got = F::create_pub::<S>(self.svc(), cfg, strategy, handler);
                let expect = self.model.create_pub(cfg.clone());
                match (expect, got) {
                    (Ok(id), Ok(port)) => {
                        ensure!(port.backpressure_strategy() == strategy, "create_pub.strategy", "step {step}: publisher reports another backpressure strategy");
                        self.pub_uid.push(port.id().value());
                        self.handler_ctr.push(ctr);
                        debug_assert_eq!(self.pub_uid.len(), id + 1);
                        self.pubs.push(RPub { id, port });
                    }
                    (Err(e), Err(g)) => ensure!(e == g, "create_pub.error", "step {step}: publisher creation failed with {g:?}, documented error is {e:?}"),
                    (Ok(_), Err(g)) => fail!("create_pub.refused", "step {step}: publisher creation failed with {g:?} although only {} of {} publishers exist", self.model.registered_pubs() - 1, self.model.lim.max_pubs),
                    (Err(e), Ok(_)) => fail!("create_pub.limit_not_enforced", "step {step}: publisher creation succeeded, expected {e:?} ({} publishers exist)", self.model.registered_pubs()),
                }
                true
            }
            Op::CreateSub(cfg) => {
                let mut b = self.svc().subscriber_builder();
                if let Some(v) = cfg.buffer {
                    b = b.buffer_size(v);
                }
                if let Some(v) = cfg.hist_req {
                    b = b.history_request(v);
                }
                let got = b.create();
                let expect = self.model.create_sub(cfg);
                match (expect, got) {
                    (Ok(id), Ok(port)) => {
                        ensure!(port.buffer_size() == self.model.subs[id].buffer, "create_sub.buffer_size", "step {step}: subscriber reports buffer size {} expected {}", port.buffer_size(), self.model.subs[id].buffer);
                        self.subs.push(RSub { id, port });
                    }
                    (Err(e), Err(g)) => ensure!(e == g, "create_sub.error", "step {step}: subscriber creation {cfg:?} failed with {g:?}, documented error is {e:?}"),
                    (Ok(_), Err(g)) => fail!("create_sub.refused", "step {step}: subscriber creation {cfg:?} failed with {g:?} although only {} of {} subscribers exist", self.model.registered_subs() - 1, self.model.lim.max_subs),
                    (Err(e), Ok(_)) => fail!("create_sub.limit_not_enforced", "step {step}: subscriber creation {cfg:?} succeeded, expected {e:?}"),
                }
                true
            }
            Op::DropPub(i) => {
                if self.pubs.is_empty() {
                    false
                } else {
                    let k = idx(*i, self.pubs.len());
                    let r = self.pubs.remove(k);
                    self.model.drop_pub(r.id);
                    drop(r);
                    true
                }
            }
            Op::DropSub(i) => {
                if self.subs.is_empty() {
                    false
                } else {
                    let k = idx(*i, self.subs.len());
                    let r = self.subs.remove(k);
                    self.model.drop_sub(r.id);
                    drop(r);
                    true
                }
            }
            Op::Loan { p, len, init } => {
                if self.pubs.is_empty() {
                    false
                } else {
                    let pid = self.pubs[idx(*p, self.pubs.len())].id;
                    if let Some((tag, loan)) = self.check_loan_result(pid, *len as usize, *init, "loan")? {
                        self.loans.push(RLoan { tag, loan });
                    }
                    true
                }
            }
            Op::Write(l) => {
                if self.loans.is_empty() {
                    false
                } else {
                    let k = idx(*l, self.loans.len());
                    let old = self.loans[k].tag;
                    let info = self.tags.get(&old).expect("tag of loan");
                    let (n, addr) = (info.bytes.len(), info.addr);
                    let t = self.model.retag_loan(old);
                    let b = payload_for(t, n);
                    F::loan_write::<S>(&mut self.loans[k].loan, &b);
                    self.loans[k].tag = t;
                    self.tags.insert(t, TagInfo { bytes: b, addr });
                    true
                }
            }
            Op::DropLoan(l) => {
                if self.loans.is_empty() {
                    false
                } else {
                    let k = idx(*l, self.loans.len());
                    let r = self.loans.remove(k);
                    self.model.drop_loan(r.tag);
                    drop(r);
                    true
                }
            }
            Op::Send(l) => {
                if self.loans.is_empty() {
                    false
                } else {
                    let k = idx(*l, self.loans.len());
                    let r = self.loans.remove(k);
                    let p = r.tag.p;
                    let before = self.handler_ctr[p].load(Ordering::Relaxed);
                    let mut reclaimed = vec![];
                    let out = self.model.send(r.tag, &mut reclaimed);
                    self.mark_dead(&reclaimed);
                    let got = r.loan.send();
                    self.check_send(p, out, got, before, "send")?;
                    true
                }
            }
            Op::SendCopy { p, len } => {
                if self.pubs.is_empty() {
                    false
                } else {
                    let k = idx(*p, self.pubs.len());
                    let pid = self.pubs[k].id;
                    let len = if F::SLICE { *len as usize } else { 8 };
                    if self.opts.send_copy_via_loan {
                        if let Some((tag, loan)) = self.check_loan_result(pid, len, false, "send_copy(loan)")? {
                            let before = self.handler_ctr[pid].load(Ordering::Relaxed);
                            let mut reclaimed = vec![];
                            let out = self.model.send(tag, &mut reclaimed);
                            self.mark_dead(&reclaimed);
                            let got = loan.send();
                            self.check_send(pid, out, got, before, "send_copy(loan+send)")?;
                        }
                    } else {
                        let before = self.handler_ctr[pid].load(Ordering::Relaxed);
                        match self.model.loan(pid, len, F::SLICE) {
                            Ok(tag) => {
                                let b = payload_for(tag, len);
                                let mut reclaimed = vec![];
                                let out = self.model.send(tag, &mut reclaimed);
                                self.mark_dead(&reclaimed);
                                let got = F::send_copy::<S>(&self.pubs[k].port, &b);
                                self.tags.insert(tag, TagInfo { bytes: b, addr: None });
                                if let Err(SendError::LoanError(LoanError::OutOfMemory)) = got {
                                    fail!("loan.out_of_memory", "step {step}: send_copy of publisher {pid} failed with OutOfMemory inside the limits (pool {})", self.model.pool_size(pid));
                                }
                                self.check_send(pid, out, got, before, "send_copy")?;
                            }
                            Err(e) => {
                                let b = payload_for(Tag { p: pid, n: u32::MAX }, len);
                                let got = F::send_copy::<S>(&self.pubs[k].port, &b);
                                ensure!(got == Err(SendError::LoanError(e)), "send_copy.error", "step {step}: send_copy of publisher {pid} returned {got:?}, documented error is LoanError({e:?})");
                            }
                        }
                    }
                    true
                }
            }
            Op::Receive(s) => {
                if self.subs.is_empty() {
                    false
                } else {
                    let k = idx(*s, self.subs.len());
                    let sid = self.subs[k].id;
                    self.model.pre_receive(sid);
                    let got = F::receive::<S>(&self.subs[k].port);
                    let (summary, sample) = match got {
                        Ok(None) => (Ok(None), None),
                        Err(e) => (Err(e), None),
                        Ok(Some(x)) => {
                            let uid = x.origin().value();
                            ensure!(x.header().publisher_id().value() == uid, "recv.origin", "step {step}: origin() and header().publisher_id() differ");
                            match self.pub_by_uid(uid) {
                                Some(p) => (Ok(Some(p)), Some(x)),
                                None => fail!("recv.unknown_origin", "step {step}: received a sample of an unknown publisher id"),
                            }
                        }
                    };
                    let (verdict, tag) = self.model.judge_receive(sid, summary, self.opts.tolerate_known_order_defect);
                    match verdict {
                        RecvVerdict::Ok => {}
                        RecvVerdict::Wrong(sig, msg) => fail!(sig, "step {step}: subscriber {sid}: {msg}"),
                        RecvVerdict::Ghost => {
                            // allowed (DESIGN C01): pre-connect samples may or may not arrive; they
                            // must still be in order and intact
                            let x = sample.as_ref().unwrap();
                            if let Some(t) = tag {
                                let want = &self.tags[&t].bytes;
                                ensure!(F::sample_bytes::<S>(x) == &want[..], "recv.ghost_payload", "step {step}: pre-connect sample arrived out of order or corrupted");
                            } else {
                                fail!("recv.ghost_duplicate", "step {step}: more pre-connect samples arrived than were sent");
                            }
                            self.stopped = true;
                        }
                    }
                    if let (Some(x), Some(t), false) = (sample, tag, self.stopped) {
                        let want = &self.tags[&t].bytes;
                        let rb = F::sample_bytes::<S>(&x);
                        ensure!(
                            rb == &want[..],
                            "recv.payload",
                            "step {step}: subscriber {sid} received {rb:?} from publisher {}, the next element of that pair is {t:?} = {want:?}",
                            t.p
                        );
                        let n = if F::SLICE { want.len() } else { 1 };
                        ensure!(x.header().number_of_elements() as usize == n, "recv.number_of_elements", "step {step}: header reports {} elements, expected {n}", x.header().number_of_elements());
                        let (addr, len) = {
                            let b = F::sample_bytes::<S>(&x);
                            (b.as_ptr() as usize, b.len())
                        };
                        self.samples.push(RSample { sub: sid, tag: t, live: true, addr, len, sample: x });
                    }
                    true
                }
            }
            Op::DropSample(x) => {
                if self.samples.is_empty() {
                    false
                } else {
                    let k = idx(*x, self.samples.len());
                    let r = self.samples.remove(k);
                    self.model.drop_sample(r.sub, r.tag, r.live);
                    drop(r);
                    true
                }
            }
            Op::HasSamples(s) => {
                if self.subs.is_empty() {
                    false
                } else {
                    let k = idx(*s, self.subs.len());
                    let sid = self.subs[k].id;
                    let got = self.subs[k].port.has_samples();
                    let want = self.model.has_samples(sid);
                    match got {
                        Ok(g) => ensure!(g == want, "has_samples", "step {step}: subscriber {sid}: has_samples() = {g}, model {want}"),
                        Err(e) => fail!("has_samples.error", "step {step}: has_samples failed with {e:?}"),
                    }
                    true
                }
            }
            Op::UpdatePub(p) => {
                if self.pubs.is_empty() {
                    false
                } else {
                    let k = idx(*p, self.pubs.len());
                    let pid = self.pubs[k].id;
                    let r = self.pubs[k].port.update_connections();
                    ensure!(r.is_ok(), "update_connections.publisher", "step {step}: update_connections failed with {r:?}");
                    let reclaimed = self.model.refresh_pub(pid);
                    self.mark_dead(&reclaimed);
                    true
                }
            }
            Op::UpdateSub(s) => {
                if self.subs.is_empty() {
                    false
                } else {
                    let k = idx(*s, self.subs.len());
                    let sid = self.subs[k].id;
                    let r = self.subs[k].port.update_connections();
                    ensure!(r.is_ok(), "update_connections.subscriber", "step {step}: update_connections failed with {r:?}");
                    self.model.refresh_sub(sid);
                    true
                }
            }
            Op::Probe(p) => {
                if self.pubs.is_empty() {
                    false
                } else {
                    let pid = self.pubs[idx(*p, self.pubs.len())].id;
                    self.conservation_probe(pid)?;
                    true
                }
            }
        };
        self.invariant()?;
        Ok(applied)
    }

    /// C02 probe 3: loan to exhaustion. Exactly `max_loaned_samples - outstanding` loans must
    /// succeed, the next one must fail with `ExceedsMaxLoans` (never `OutOfMemory`).
    pub fn conservation_probe(&mut self, p: PubId) -> Result<(), Failure> {
        self.probes_run += 1;
        let step = self.step_no;
        let want = self.model.pubs[p].cfg.max_loans - self.model.pubs[p].loans.len();
        let len = if F::SLICE { self.model.pubs[p].cfg.max_slice } else { 8 };
        let mut got = vec![];
        loop {
            match self.check_loan_result(p, len, false, "conservation probe loan") {
                Ok(Some(x)) => got.push(x),
                Ok(None) => break,
                Err(mut f) => {
                    if f.signature == "loan.out_of_memory" {
                        f.signature = "probe.conservation".into();
                        f.message = format!("{} — only {} of {want} loans could be obtained", f.message, got.len());
                    }
                    for (t, l) in got {
                        self.model.drop_loan(t);
                        drop(l);
                    }
                    return Err(f);
                }
            }
            if got.len() > want {
                break;
            }
        }
        let n = got.len();
        for (t, l) in got {
            self.model.drop_loan(t);
            drop(l);
        }
        ensure!(n == want, "probe.conservation", "step {step}: loan-to-exhaustion of publisher {p} yielded {n} loans, expected exactly {want}");
        Ok(())
    }

    /// Invariants after every step.
    pub fn invariant(&mut self) -> Result<(), Failure> {
        let step = self.step_no;
        // canary stability: every held sample the model counts as a reference still reads its bytes
        for x in &self.samples {
            if x.live {
                let want = &self.tags[&x.tag].bytes;
                // the payload and the chunk header that `payload()` reads (its address is computed, not read)
                let hdr = x.sample.header() as *const _ as usize;
                ensure!(
                    vcore::util::mapped(x.addr, x.len) && vcore::util::mapped(hdr, 32),
                    "canary.sample_unmapped",
                    "step {step}: the memory of held sample {:?} of subscriber {} [{:#x}, +{}) is not mapped any more",
                    x.tag,
                    x.sub,
                    x.addr,
                    x.len
                );
                let rb = F::sample_bytes::<S>(&x.sample);
                ensure!(
                    rb == &want[..],
                    "canary.sample",
                    "step {step}: held sample {:?} of subscriber {} changed: reads {rb:?}, was {want:?}",
                    x.tag,
                    x.sub
                );
            }
        }
        for l in &self.loans {
            let want = &self.tags[&l.tag].bytes;
            let rb = F::loan_bytes::<S>(&l.loan);
            ensure!(rb == &want[..], "canary.loan", "step {step}: unsent loan {:?} changed: reads {rb:?}, was {want:?}", l.tag);
        }
        // registry
        let dc = self.svc().dynamic_config();
        ensure!(
            dc.number_of_publishers() == self.model.registered_pubs() && dc.number_of_subscribers() == self.model.registered_subs(),
            "registry.count",
            "step {step}: registry lists {} publishers / {} subscribers, model {} / {}",
            dc.number_of_publishers(),
            dc.number_of_subscribers(),
            self.model.registered_pubs(),
            self.model.registered_subs()
        );
        if self.opts.check_log {
            for line in logcap::drain() {
                if logcap::is_alarm(&line) {
                    fail!("log.should_never_happen", "step {step}: iceoryx2 logged: {line}");
                }
            }
        }
        Ok(())
    }

    /// Orderly end of a case: everything is dropped in one of several orders, nothing may remain.
    pub fn finish(mut self, teardown: u8) -> Result<(), Failure> {
        let order: [u8; 4] = match teardown % 6 {
            0 => [0, 1, 2, 3],
            1 => [3, 2, 1, 0],
            2 => [2, 0, 3, 1],
            3 => [1, 3, 0, 2],
            4 => [3, 0, 2, 1],
            _ => [2, 3, 0, 1],
        };
        for k in order {
            match k {
                0 => self.samples.clear(),
                1 => self.loans.clear(),
                2 => self.subs.clear(),
                _ => self.pubs.clear(),
            }
        }
        self.svc = None;
        self.node = None;
        let alarm: Vec<String> = if self.opts.check_log { logcap::drain().into_iter().filter(|l| logcap::is_alarm(l)).collect() } else { vec![] };
        let left = self.domain.leftovers();
        self.domain.cleanup();
        ensure!(alarm.is_empty(), "log.should_never_happen", "during tear-down iceoryx2 logged: {alarm:?}");
        ensure!(left.is_empty(), "leftovers", "after dropping every object (order {order:?}) these remain: {left:?}");
        Ok(())
    }

    /// Tear-down after a failure (no oracle).
    pub fn abort(&mut self) {
        self.samples.clear();
        self.loans.clear();
        self.subs.clear();
        self.pubs.clear();
        self.svc = None;
        self.node = None;
        self.domain.cleanup();
        if self.opts.check_log {
            logcap::drain();
        }
    }

    /// Classes of the evidence histogram + the C01 non-triviality rule.
    pub fn observe(&self, obs: &mut Obs) -> bool {
        let ev = &self.model.ev;
        let mut c = |b: bool, name: &'static str| {
            if b {
                obs.class(name);
            }
        };
        c(ev.received > 0, "received");
        c(ev.overflow_evictions > 0, "overflow_eviction");
        c(ev.history_delivered > 0, "late_joiner_history");
        c(ev.history_evictions > 0, "history_eviction");
        c(ev.port_dropped_with_undelivered > 0, "port_dropped_with_undelivered");
        c(ev.preconnect_drop > 0, "cases_with_preconnect_drop");
        c(ev.discarded_full > 0, "discard_on_full_buffer");
        c(ev.handler_calls > 0, "backpressure_handler_called");
        c(ev.unable_to_deliver > 0, "send_unable_to_deliver");
        c(ev.exceeds_max_borrows > 0, "exceeds_max_borrows");
        c(ev.exceeds_max_loans > 0, "exceeds_max_loans");
        c(ev.exceeds_max_pubs > 0, "exceeds_max_publishers");
        c(ev.exceeds_max_subs > 0, "exceeds_max_subscribers");
        c(ev.sub_cfg_rejected > 0, "subscriber_settings_rejected");
        c(ev.loan_too_large > 0, "exceeds_max_loan_size");
        c(ev.send_after_pub_drop > 0, "send_after_publisher_drop");
        c(ev.expired_drained > 0, "received_from_expired_connection");
        c(ev.expired_first_enforced > 0, "expired_before_active_decided");
        c(ev.known_order_defect_tolerated > 0, "c01_known_order_defect_seen");
        c(self.model.subs.iter().any(|s| s.expired_list_suspect), "expired_list_multi_cleanup_constellation");
        c(ev.sample_outlived_subscriber > 0, "sample_outlived_subscriber");
        c(ev.dead_references > 0, "sample_reference_ended_by_publisher_refresh");
        c(ev.loan_outlived_publisher > 0, "loan_outlived_publisher");
        c(ev.reclaimed_from_vanished_sub > 0, "reclaimed_from_vanished_subscriber");
        c(ev.received_from.len() >= 2, "received_from_two_publishers");
        c(ev.ghost_delivery, "ghost_delivery_accepted");
        c(self.chunk_reuses > 0, "chunk_reused");
        c(self.reuse_while_held > 0, "chunk_reused_while_sample_held");
        c(self.probes_run > 0, "conservation_probe");
        c(F::SLICE, "slice_payload");
        // NT (DESIGN C01): a sample was received and one of the interesting shapes occurred
        ev.received > 0
            && (ev.overflow_evictions > 0 || ev.history_delivered > 0 || ev.port_dropped_with_undelivered > 0 || ev.received_from.len() >= 2)
    }
}

impl<S: Service, F: Flavor> Drop for Interp<S, F> {
    fn drop(&mut self) {
        // after a failure: make sure nothing of this case stays behind
        if self.node.is_some() {
            self.abort();
        }
    }
}
