//! Publish-subscribe reference model + interpreter (DESIGN §3.3, C01/C02/C08).
//!
//! `types`   configuration records, op alphabet, proptest strategies
//! `model`   the reference model (documented semantics incl. the lazy connection rule)
//! `interp`  applies ops to real ports + model, compares return values, runs invariants
//! `logcap`  capturing logger for the "should never happen" lines
pub mod interp;
pub mod logcap;
pub mod model;
pub mod types;

use interp::{Bytes, Flavor, Interp, Opts, U64};
use iceoryx2::service::Service;
use iceoryx2::service::{ipc, local};
use model::Events;
use serde::{Deserialize, Serialize};
use types::*;
use vcore::{Failure, Obs, fail};

#[derive(Clone, Copy, Debug, PartialEq, Eq, Serialize, Deserialize)]
pub enum Variant {
    Local,
    Ipc,
}

/// Development aid: `VERIF_PUBSUB_DIV=n` divides the case counts of the pubsub parts (default 1;
/// the tiers are fixed work without it).
pub fn cases(n: u64) -> u64 {
    let d = std::env::var("VERIF_PUBSUB_DIV").ok().and_then(|s| s.parse::<u64>().ok()).unwrap_or(1).max(1);
    (n / d).max(1)
}

/// smallest `u16` that `vcore::util::idx` maps onto `k` of `n`
pub fn u16_for(k: usize, n: usize) -> u16 {
    if n == 0 { 0 } else { (((k << 16) + n - 1) / n).min(65535) as u16 }
}

#[derive(Clone, Copy, Debug, Default)]
pub struct RunOpts {
    pub opts: Opts,
    /// C02: at the end drop all samples and subscribers, refresh every publisher, loan to exhaustion
    pub final_probe: bool,
}

/// What a finished case looked like (for the non-triviality rules of the three checks).
#[derive(Debug, Clone, Default)]
pub struct Summary {
    pub ev: Events,
    pub nt_delivery: bool,
    pub reuse_while_held: u64,
    pub applied_ops: usize,
}

fn run<S: Service, F: Flavor>(case: &Case, ro: &RunOpts, obs: &mut Obs) -> Result<Summary, Failure> {
    let mut it = match Interp::<S, F>::new(&case.svc, ro.opts)? {
        Ok(it) => it,
        Err(e) => fail!("setup.service", "service {:?} could not be created: {e:?}", case.svc),
    };
    let mut applied = 0;
    let r = (|| -> Result<(), Failure> {
        for op in &case.ops {
            if it.step(op)? {
                applied += 1;
            }
        }
        if ro.final_probe && !it.stopped {
            while !it.held_samples().is_empty() {
                it.step(&Op::DropSample(0))?;
            }
            while !it.live_subs().is_empty() {
                it.step(&Op::DropSub(0))?;
            }
            let n = it.live_pubs().len();
            for k in 0..n {
                it.step(&Op::UpdatePub(u16_for(k, n)))?;
                it.step(&Op::Probe(u16_for(k, n)))?;
            }
        }
        Ok(())
    })();
    let nt = it.observe(obs);
    let sum = Summary { ev: it.model.ev.clone(), nt_delivery: nt, reuse_while_held: it.reuse_while_held, applied_ops: applied };
    match r {
        Ok(()) => {
            it.finish(case.teardown)?;
            Ok(sum)
        }
        Err(f) => {
            it.abort();
            Err(f)
        }
    }
}

/// Runs one case on the chosen service variant; the payload flavour follows `case.svc.slice`.
pub fn run_case(variant: Variant, case: &Case, ro: &RunOpts, obs: &mut Obs) -> Result<Summary, Failure> {
    match (variant, case.svc.slice) {
        (Variant::Local, false) => run::<local::Service, U64>(case, ro, obs),
        (Variant::Local, true) => run::<local::Service, Bytes>(case, ro, obs),
        (Variant::Ipc, false) => run::<ipc::Service, U64>(case, ro, obs),
        (Variant::Ipc, true) => run::<ipc::Service, Bytes>(case, ro, obs),
    }
}

/// Lazily yields all op sequences of exactly `len` ops over `alphabet` that contain no skipped op
/// when executed after `prologue`, and in which no two alphabet entries that resolve to the same
/// target are both tried in one state (every shorter sequence is a prefix of one of them and is
/// checked on the way). Depth-first over model states, so memory stays small.
pub struct SeqIter {
    alphabet: Vec<Op>,
    len: usize,
    /// per depth: state before the op of that depth, next alphabet index, targets already tried
    stack: Vec<(model::Abstract, usize, Vec<(u8, usize, u64)>)>,
    cur: Vec<Op>,
}

pub fn enumerate_sequences(svc: &SvcCfg, prologue: &[Op], alphabet: &[Op], len: usize) -> SeqIter {
    let mut a = model::Abstract::new(svc);
    for o in prologue {
        a.step(o);
    }
    SeqIter { alphabet: alphabet.to_vec(), len, stack: vec![(a, 0, vec![])], cur: vec![] }
}

impl Iterator for SeqIter {
    type Item = Vec<Op>;
    fn next(&mut self) -> Option<Vec<Op>> {
        if self.len == 0 {
            return None;
        }
        loop {
            let depth = self.stack.len();
            let (state, next, seen) = self.stack.last_mut()?;
            if *next >= self.alphabet.len() {
                self.stack.pop();
                self.cur.pop();
                continue;
            }
            let op = self.alphabet[*next].clone();
            *next += 1;
            let tgt = state.target(&op);
            if seen.contains(&tgt) {
                continue;
            }
            let mut child = state.clone();
            if !child.step(&op) {
                continue;
            }
            seen.push(tgt);
            self.cur.truncate(depth - 1);
            self.cur.push(op);
            if depth == self.len {
                return Some(self.cur.clone());
            }
            self.stack.push((child, 0, vec![]));
        }
    }
}
