//! C08 limits outside publish-subscribe / request-response: event (max_notifiers, max_listeners,
//! event_id_max), blackboard (max_readers, single writer), max_nodes for every pattern.
//!
//! Parts (all sequential histories against model counters, `local::Service` and `ipc::Service`):
//!  * `lim.event.*` — generated histories over notifier / listener creation and drop (through the
//!    creating and an opening factory), notifications with ids 0..6 and draining. One-too-many is
//!    refused with exactly `ExceedsMaxSupportedNotifiers` / `ExceedsMaxSupportedListeners`, an id
//!    above `event_id_max_value` with exactly `EventIdOutOfBounds`; a refusal changes nothing
//!    (registry counts after every step; the next notification still reaches every listener and
//!    nobody else, a refused notification reaches nobody); after freeing one the call succeeds.
//!  * `lim.blackboard.*` — the same for `max_readers` and the single writer.
//!  * `lim.nodes` — for every pattern and limit 0..4: the (max_nodes+1)-th node is refused with
//!    exactly `*OpenError::ExceedsMaxNumberOfNodes` (also through `open_or_create`), the refusal
//!    leaves neither a file nor a registry entry behind, a member node can still open the service
//!    again, and after any one holder dropped its handle the refused node gets in.
//! Limits are drawn from 0..4; the model uses the clamped value read back from `static_config()`
//! (0 -> 1 as the conformance tests `set_*_to_zero_adjusts_it_to_one` document).
use crate::domain::Domain;
use iceoryx2::port::listener::{Listener, ListenerCreateError};
use iceoryx2::port::notifier::{Notifier, NotifierCreateError, NotifierNotifyError};
use iceoryx2::port::reader::{Reader, ReaderCreateError};
use iceoryx2::port::writer::{Writer, WriterCreateError};
use iceoryx2::prelude::*;
use iceoryx2::service::builder::blackboard::BlackboardOpenError;
use iceoryx2::service::builder::event::{EventOpenError, EventOpenOrCreateError};
use iceoryx2::service::builder::publish_subscribe::{PublishSubscribeOpenError, PublishSubscribeOpenOrCreateError};
use iceoryx2::service::builder::request_response::{RequestResponseOpenError, RequestResponseOpenOrCreateError};
use proptest::prelude::*;
use serde::{Deserialize, Serialize};
use std::collections::BTreeMap;
use vcore::util::idx;
use vcore::{Ctx, Failure, Obs, ensure, fail};

fn setup_err(what: &str, e: impl core::fmt::Debug) -> Failure {
    Failure::new("setup", format!("{what}: {e:?}"))
}

// ---- event -----------------------------------------------------------------------------------

#[derive(Clone, Debug, Serialize, Deserialize)]
pub enum EvOp {
    NewNotifier { second: bool },
    DropNotifier(u16),
    NewListener { second: bool },
    DropListener(u16),
    /// id 0..6 (limits are 0..4: ids above the limit are part of the game)
    Notify { n: u16, id: u8 },
    Drain(u16),
    OpenSecond,
    DropSecond,
}

#[derive(Clone, Debug, Serialize, Deserialize)]
pub struct EvCase {
    pub max_notifiers: usize,
    pub max_listeners: usize,
    pub event_id_max: usize,
    pub ops: Vec<EvOp>,
}

fn ev_strategy(max_ops: usize) -> impl Strategy<Value = EvCase> {
    let op = prop_oneof![
        5 => any::<bool>().prop_map(|second| EvOp::NewNotifier { second }),
        2 => any::<u16>().prop_map(EvOp::DropNotifier),
        5 => any::<bool>().prop_map(|second| EvOp::NewListener { second }),
        2 => any::<u16>().prop_map(EvOp::DropListener),
        6 => (any::<u16>(), 0u8..7).prop_map(|(n, id)| EvOp::Notify { n, id }),
        3 => any::<u16>().prop_map(EvOp::Drain),
        1 => Just(EvOp::OpenSecond),
        1 => Just(EvOp::DropSecond),
    ];
    (0usize..=4, 0usize..=4, 0usize..=4, proptest::collection::vec(op, 1..max_ops)).prop_map(|(max_notifiers, max_listeners, event_id_max, ops)| EvCase { max_notifiers, max_listeners, event_id_max, ops })
}

struct Lst<S: Service> {
    port: Listener<S>,
    /// id -> number of notifications sent since the last drain
    pending: BTreeMap<usize, u64>,
}

fn drain<S: Service>(l: &mut Lst<S>, who: usize) -> Result<(), Failure> {
    let mut got: BTreeMap<usize, u64> = BTreeMap::new();
    loop {
        let mut any = false;
        l.port
            .try_wait(|a| {
                any = true;
                *got.entry(a.id.as_value()).or_default() += a.count.max(1);
            })
            .map_err(|e| Failure::new("lim.event.wait", format!("try_wait of listener {who} failed: {e:?}")))?;
        if !any {
            break;
        }
    }
    let want: Vec<usize> = l.pending.keys().cloned().collect();
    let have: Vec<usize> = got.keys().cloned().collect();
    ensure!(want == have, "lim.event.delivery", "listener {who} received the ids {have:?}, notified since its last drain were {want:?}");
    for (id, n) in &got {
        ensure!(*n <= l.pending[id], "lim.event.delivery", "listener {who} received id {id} {n} times, it was sent {} times", l.pending[id]);
    }
    l.pending.clear();
    Ok(())
}

fn ev_run<S: Service>(c: &EvCase, obs: &mut Obs) -> Result<(), Failure> {
    let domain = Domain::new();
    let r = ev_run_in::<S>(c, obs, &domain);
    domain.cleanup();
    r
}

fn ev_run_in<S: Service>(c: &EvCase, obs: &mut Obs, domain: &Domain) -> Result<(), Failure> {
    let node = NodeBuilder::new().config(&domain.config).create::<S>().map_err(|e| setup_err("node", e))?;
    let node2 = NodeBuilder::new().config(&domain.config).create::<S>().map_err(|e| setup_err("node", e))?;
    let name = ServiceName::new("limev").unwrap();
    let first = node
        .service_builder(&name)
        .event()
        .max_notifiers(c.max_notifiers)
        .max_listeners(c.max_listeners)
        .event_id_max_value(c.event_id_max)
        .create()
        .map_err(|e| setup_err("event service", e))?;
    let (max_n, max_l, max_id) = (first.static_config().max_notifiers(), first.static_config().max_listeners(), first.static_config().event_id_max_value());
    ensure!(max_n == c.max_notifiers.max(1) && max_l == c.max_listeners.max(1) && max_id == c.event_id_max, "lim.event.clamp", "limits {c:?} read back as notifiers {max_n} listeners {max_l} event id {max_id}");
    let mut second = None;
    let mut notifiers: Vec<Notifier<S>> = vec![];
    let mut listeners: Vec<Lst<S>> = vec![];
    let mut refused = [false; 3];
    let mut lifted = [false; 3];
    for (step, op) in c.ops.iter().enumerate() {
        let at = |f: Failure| Failure::new(f.signature, format!("step {step} {op:?}: {}", f.message));
        (|| -> Result<(), Failure> {
            match op {
                EvOp::NewNotifier { second: sec } => {
                    let f = match (&second, *sec) {
                        (Some(s), true) => s,
                        _ => &first,
                    };
                    match f.notifier_builder().create() {
                        Ok(n) => {
                            ensure!(notifiers.len() < max_n, "lim.event.notifier_limit", "notifier {} created with max_notifiers {max_n}", notifiers.len() + 1);
                            if refused[0] {
                                lifted[0] = true;
                            }
                            notifiers.push(n);
                        }
                        Err(NotifierCreateError::ExceedsMaxSupportedNotifiers) => {
                            ensure!(notifiers.len() >= max_n, "lim.event.notifier_limit", "notifier refused with {} of {max_n} notifiers", notifiers.len());
                            refused[0] = true;
                        }
                        Err(e) => fail!("lim.event.notifier_create", "notifier creation failed with {e:?}"),
                    }
                }
                EvOp::DropNotifier(i) => {
                    if !notifiers.is_empty() {
                        notifiers.remove(idx(*i, notifiers.len()));
                    }
                }
                EvOp::NewListener { second: sec } => {
                    let f = match (&second, *sec) {
                        (Some(s), true) => s,
                        _ => &first,
                    };
                    match f.listener_builder().create() {
                        Ok(l) => {
                            ensure!(listeners.len() < max_l, "lim.event.listener_limit", "listener {} created with max_listeners {max_l}", listeners.len() + 1);
                            if refused[1] {
                                lifted[1] = true;
                            }
                            listeners.push(Lst { port: l, pending: BTreeMap::new() });
                        }
                        Err(ListenerCreateError::ExceedsMaxSupportedListeners) => {
                            ensure!(listeners.len() >= max_l, "lim.event.listener_limit", "listener refused with {} of {max_l} listeners", listeners.len());
                            refused[1] = true;
                        }
                        Err(e) => fail!("lim.event.listener_create", "listener creation failed with {e:?}"),
                    }
                }
                EvOp::DropListener(i) => {
                    if !listeners.is_empty() {
                        listeners.remove(idx(*i, listeners.len()));
                    }
                }
                EvOp::Notify { n, id } => {
                    if notifiers.is_empty() {
                        return Ok(());
                    }
                    let nt = &notifiers[idx(*n, notifiers.len())];
                    let id = *id as usize;
                    match nt.notify_with_custom_event_id(EventId::new(id)) {
                        Ok(k) => {
                            ensure!(id <= max_id, "lim.event.id_limit", "notification with id {id} accepted, event_id_max_value is {max_id}");
                            ensure!(k == listeners.len(), "lim.event.delivery", "notify reports {k} notified listeners, {} exist", listeners.len());
                            if refused[2] {
                                lifted[2] = true;
                            }
                            for l in listeners.iter_mut() {
                                *l.pending.entry(id).or_default() += 1;
                            }
                        }
                        Err(NotifierNotifyError::EventIdOutOfBounds) => {
                            ensure!(id > max_id, "lim.event.id_limit", "notification with id {id} refused, event_id_max_value is {max_id}");
                            refused[2] = true;
                            // no side effect: every listener sees exactly what it was sent before
                            for (i, l) in listeners.iter_mut().enumerate() {
                                drain(l, i)?;
                            }
                        }
                        Err(e) => fail!("lim.event.notify", "notify failed with {e:?}"),
                    }
                }
                EvOp::Drain(i) => {
                    if !listeners.is_empty() {
                        let k = idx(*i, listeners.len());
                        drain(&mut listeners[k], k)?;
                    }
                }
                EvOp::OpenSecond => {
                    if second.is_none() {
                        second = Some(node2.service_builder(&name).event().open().map_err(|e| Failure::new("lim.event.open", format!("second node could not open the service: {e:?}")))?);
                    }
                }
                EvOp::DropSecond => second = None,
            }
            let dc = first.dynamic_config();
            ensure!(dc.number_of_notifiers() == notifiers.len() && dc.number_of_listeners() == listeners.len(), "lim.event.registry", "registry shows {} notifiers / {} listeners, alive are {} / {}", dc.number_of_notifiers(), dc.number_of_listeners(), notifiers.len(), listeners.len());
            Ok(())
        })()
        .map_err(at)?;
    }
    for (i, l) in listeners.iter_mut().enumerate() {
        drain(l, i).map_err(|f| Failure::new(f.signature, format!("final drain: {}", f.message)))?;
    }
    for (k, name) in [(0, ("lim_notifier_refused", "lim_notifier_lifted")), (1, ("lim_listener_refused", "lim_listener_lifted")), (2, ("lim_event_id_refused", "lim_event_id_lifted"))] {
        if refused[k] {
            obs.class(name.0);
        }
        if lifted[k] {
            obs.class(name.1);
        }
    }
    obs.nontrivial = lifted.iter().any(|l| *l);
    Ok(())
}

// ---- blackboard ------------------------------------------------------------------------------

#[derive(Clone, Debug, Serialize, Deserialize)]
pub enum BbOp {
    NewReader { second: bool },
    DropReader(u16),
    NewWriter { second: bool },
    DropWriter,
    Write,
    ReadAll,
    OpenSecond,
    DropSecond,
}

#[derive(Clone, Debug, Serialize, Deserialize)]
pub struct BbCase {
    pub max_readers: usize,
    pub ops: Vec<BbOp>,
}

fn bb_strategy(max_ops: usize) -> impl Strategy<Value = BbCase> {
    let op = prop_oneof![
        6 => any::<bool>().prop_map(|second| BbOp::NewReader { second }),
        2 => any::<u16>().prop_map(BbOp::DropReader),
        3 => any::<bool>().prop_map(|second| BbOp::NewWriter { second }),
        1 => Just(BbOp::DropWriter),
        3 => Just(BbOp::Write),
        3 => Just(BbOp::ReadAll),
        1 => Just(BbOp::OpenSecond),
        1 => Just(BbOp::DropSecond),
    ];
    (0usize..=4, proptest::collection::vec(op, 1..max_ops)).prop_map(|(max_readers, ops)| BbCase { max_readers, ops })
}

fn bb_run<S: Service>(c: &BbCase, obs: &mut Obs) -> Result<(), Failure> {
    let domain = Domain::new();
    let r = bb_run_in::<S>(c, obs, &domain);
    domain.cleanup();
    r
}

fn bb_run_in<S: Service>(c: &BbCase, obs: &mut Obs, domain: &Domain) -> Result<(), Failure> {
    let node = NodeBuilder::new().config(&domain.config).create::<S>().map_err(|e| setup_err("node", e))?;
    let node2 = NodeBuilder::new().config(&domain.config).create::<S>().map_err(|e| setup_err("node", e))?;
    let name = ServiceName::new("limbb").unwrap();
    let first = node.service_builder(&name).blackboard_creator::<u64>().max_readers(c.max_readers).add::<u64>(0, 0).create().map_err(|e| setup_err("blackboard", e))?;
    let max_r = first.static_config().max_readers();
    ensure!(max_r == c.max_readers.max(1), "lim.blackboard.clamp", "max_readers({}) reads back as {max_r}", c.max_readers);
    let mut second = None;
    let mut readers: Vec<Reader<S, u64>> = vec![];
    let mut writer: Option<Writer<S, u64>> = None;
    let mut value = 0u64;
    let mut refused = [false; 2];
    let mut lifted = [false; 2];
    for (step, op) in c.ops.iter().enumerate() {
        let at = |f: Failure| Failure::new(f.signature, format!("step {step} {op:?}: {}", f.message));
        (|| -> Result<(), Failure> {
            match op {
                BbOp::NewReader { second: sec } => {
                    let f = match (&second, *sec) {
                        (Some(s), true) => s,
                        _ => &first,
                    };
                    match f.reader_builder().create() {
                        Ok(r) => {
                            ensure!(readers.len() < max_r, "lim.blackboard.reader_limit", "reader {} created with max_readers {max_r}", readers.len() + 1);
                            if refused[0] {
                                lifted[0] = true;
                            }
                            readers.push(r);
                        }
                        Err(ReaderCreateError::ExceedsMaxSupportedReaders) => {
                            ensure!(readers.len() >= max_r, "lim.blackboard.reader_limit", "reader refused with {} of {max_r} readers", readers.len());
                            refused[0] = true;
                        }
                        Err(e) => fail!("lim.blackboard.reader_create", "reader creation failed with {e:?}"),
                    }
                }
                BbOp::DropReader(i) => {
                    if !readers.is_empty() {
                        readers.remove(idx(*i, readers.len()));
                    }
                }
                BbOp::NewWriter { second: sec } => {
                    let f = match (&second, *sec) {
                        (Some(s), true) => s,
                        _ => &first,
                    };
                    match f.writer_builder().create() {
                        Ok(w) => {
                            ensure!(writer.is_none(), "lim.blackboard.writer_limit", "a second writer was created");
                            if refused[1] {
                                lifted[1] = true;
                            }
                            writer = Some(w);
                        }
                        Err(WriterCreateError::ExceedsMaxSupportedWriters) => {
                            ensure!(writer.is_some(), "lim.blackboard.writer_limit", "writer refused although none exists");
                            refused[1] = true;
                        }
                        Err(e) => fail!("lim.blackboard.writer_create", "writer creation failed with {e:?}"),
                    }
                }
                BbOp::DropWriter => writer = None,
                BbOp::Write => {
                    if let Some(w) = &writer {
                        let h = w.entry::<u64>(&0).map_err(|e| Failure::new("lim.blackboard.entry", format!("write handle refused: {e:?}")))?;
                        value += 1;
                        h.update_with_copy(value);
                    }
                }
                BbOp::ReadAll => {
                    for (i, r) in readers.iter().enumerate() {
                        let h = r.entry::<u64>(&0).map_err(|e| Failure::new("lim.blackboard.entry", format!("read handle refused: {e:?}")))?;
                        let v = *h.get();
                        ensure!(v == value, "lim.blackboard.value", "reader {i} reads {v}, last written is {value}");
                    }
                }
                BbOp::OpenSecond => {
                    if second.is_none() {
                        second = Some(node2.service_builder(&name).blackboard_opener::<u64>().open().map_err(|e| Failure::new("lim.blackboard.open", format!("second node could not open the service: {e:?}")))?);
                    }
                }
                BbOp::DropSecond => second = None,
            }
            let dc = first.dynamic_config();
            ensure!(dc.number_of_readers() == readers.len() && dc.number_of_writers() == writer.is_some() as usize, "lim.blackboard.registry", "registry shows {} readers / {} writers, alive are {} / {}", dc.number_of_readers(), dc.number_of_writers(), readers.len(), writer.is_some() as usize);
            Ok(())
        })()
        .map_err(at)?;
    }
    if refused[0] {
        obs.class("lim_reader_refused");
    }
    if lifted[0] {
        obs.class("lim_reader_lifted");
    }
    if refused[1] {
        obs.class("lim_writer_refused");
    }
    if lifted[1] {
        obs.class("lim_writer_lifted");
    }
    obs.nontrivial = lifted.iter().any(|l| *l);
    Ok(())
}

// ---- max_nodes -------------------------------------------------------------------------------

#[derive(Clone, Debug, Serialize, Deserialize)]
pub struct NodesCase {
    /// 0 publish-subscribe, 1 request-response, 2 event, 3 blackboard
    pub pattern: u8,
    pub ipc: bool,
    pub max_nodes: usize,
    /// which holder gives up its handle (0 = the creator), taken modulo the number of holders
    pub drop_holder: usize,
    /// the node of the dropped holder is dropped as well
    pub drop_node_too: bool,
}

/// What the max_nodes scenario needs from a pattern.
trait Pat<S: Service> {
    type Factory;
    const NAME: &'static str;
    fn create(node: &Node<S>, name: &ServiceName, max_nodes: usize) -> Result<Self::Factory, String>;
    /// `Ok(Err(()))` = refused with exactly ExceedsMaxNumberOfNodes
    fn open(node: &Node<S>, name: &ServiceName) -> Result<Result<Self::Factory, ()>, String>;
    /// same through open_or_create (None: the pattern has none)
    fn open_or_create(node: &Node<S>, name: &ServiceName) -> Option<Result<Result<Self::Factory, ()>, String>>;
    fn max_nodes(f: &Self::Factory) -> usize;
    fn count_nodes(f: &Self::Factory) -> Result<usize, String>;
}

fn count<S: Service, F: iceoryx2::service::port_factory::PortFactory<Service = S>>(f: &F) -> Result<usize, String> {
    let mut n = 0;
    f.nodes(|_| {
        n += 1;
        CallbackProgression::Continue
    })
    .map_err(|e| format!("nodes() failed: {e:?}"))?;
    Ok(n)
}

struct PubSub;
impl<S: Service> Pat<S> for PubSub {
    type Factory = iceoryx2::service::port_factory::publish_subscribe::PortFactory<S, u64, ()>;
    const NAME: &'static str = "publish_subscribe";
    fn create(node: &Node<S>, name: &ServiceName, m: usize) -> Result<Self::Factory, String> {
        node.service_builder(name).publish_subscribe::<u64>().max_nodes(m).create().map_err(|e| format!("{e:?}"))
    }
    fn open(node: &Node<S>, name: &ServiceName) -> Result<Result<Self::Factory, ()>, String> {
        match node.service_builder(name).publish_subscribe::<u64>().open() {
            Ok(f) => Ok(Ok(f)),
            Err(PublishSubscribeOpenError::ExceedsMaxNumberOfNodes) => Ok(Err(())),
            Err(e) => Err(format!("{e:?}")),
        }
    }
    fn open_or_create(node: &Node<S>, name: &ServiceName) -> Option<Result<Result<Self::Factory, ()>, String>> {
        Some(match node.service_builder(name).publish_subscribe::<u64>().open_or_create() {
            Ok(f) => Ok(Ok(f)),
            Err(PublishSubscribeOpenOrCreateError::PublishSubscribeOpenError(PublishSubscribeOpenError::ExceedsMaxNumberOfNodes)) => Ok(Err(())),
            Err(e) => Err(format!("{e:?}")),
        })
    }
    fn max_nodes(f: &Self::Factory) -> usize {
        f.static_config().max_nodes()
    }
    fn count_nodes(f: &Self::Factory) -> Result<usize, String> {
        count(f)
    }
}

struct ReqRes;
impl<S: Service> Pat<S> for ReqRes {
    type Factory = iceoryx2::service::port_factory::request_response::PortFactory<S, u64, (), u64, ()>;
    const NAME: &'static str = "request_response";
    fn create(node: &Node<S>, name: &ServiceName, m: usize) -> Result<Self::Factory, String> {
        node.service_builder(name).request_response::<u64, u64>().max_nodes(m).create().map_err(|e| format!("{e:?}"))
    }
    fn open(node: &Node<S>, name: &ServiceName) -> Result<Result<Self::Factory, ()>, String> {
        match node.service_builder(name).request_response::<u64, u64>().open() {
            Ok(f) => Ok(Ok(f)),
            Err(RequestResponseOpenError::ExceedsMaxNumberOfNodes) => Ok(Err(())),
            Err(e) => Err(format!("{e:?}")),
        }
    }
    fn open_or_create(node: &Node<S>, name: &ServiceName) -> Option<Result<Result<Self::Factory, ()>, String>> {
        Some(match node.service_builder(name).request_response::<u64, u64>().open_or_create() {
            Ok(f) => Ok(Ok(f)),
            Err(RequestResponseOpenOrCreateError::RequestResponseOpenError(RequestResponseOpenError::ExceedsMaxNumberOfNodes)) => Ok(Err(())),
            Err(e) => Err(format!("{e:?}")),
        })
    }
    fn max_nodes(f: &Self::Factory) -> usize {
        f.static_config().max_nodes()
    }
    fn count_nodes(f: &Self::Factory) -> Result<usize, String> {
        count(f)
    }
}

struct Event;
impl<S: Service> Pat<S> for Event {
    type Factory = iceoryx2::service::port_factory::event::PortFactory<S>;
    const NAME: &'static str = "event";
    fn create(node: &Node<S>, name: &ServiceName, m: usize) -> Result<Self::Factory, String> {
        node.service_builder(name).event().max_nodes(m).create().map_err(|e| format!("{e:?}"))
    }
    fn open(node: &Node<S>, name: &ServiceName) -> Result<Result<Self::Factory, ()>, String> {
        match node.service_builder(name).event().open() {
            Ok(f) => Ok(Ok(f)),
            Err(EventOpenError::ExceedsMaxNumberOfNodes) => Ok(Err(())),
            Err(e) => Err(format!("{e:?}")),
        }
    }
    fn open_or_create(node: &Node<S>, name: &ServiceName) -> Option<Result<Result<Self::Factory, ()>, String>> {
        Some(match node.service_builder(name).event().open_or_create() {
            Ok(f) => Ok(Ok(f)),
            Err(EventOpenOrCreateError::EventOpenError(EventOpenError::ExceedsMaxNumberOfNodes)) => Ok(Err(())),
            Err(e) => Err(format!("{e:?}")),
        })
    }
    fn max_nodes(f: &Self::Factory) -> usize {
        f.static_config().max_nodes()
    }
    fn count_nodes(f: &Self::Factory) -> Result<usize, String> {
        count(f)
    }
}

struct Blackboard;
impl<S: Service> Pat<S> for Blackboard {
    type Factory = iceoryx2::service::port_factory::blackboard::PortFactory<S, u64>;
    const NAME: &'static str = "blackboard";
    fn create(node: &Node<S>, name: &ServiceName, m: usize) -> Result<Self::Factory, String> {
        node.service_builder(name).blackboard_creator::<u64>().max_nodes(m).add::<u64>(0, 0).create().map_err(|e| format!("{e:?}"))
    }
    fn open(node: &Node<S>, name: &ServiceName) -> Result<Result<Self::Factory, ()>, String> {
        match node.service_builder(name).blackboard_opener::<u64>().open() {
            Ok(f) => Ok(Ok(f)),
            Err(BlackboardOpenError::ExceedsMaxNumberOfNodes) => Ok(Err(())),
            Err(e) => Err(format!("{e:?}")),
        }
    }
    fn open_or_create(_: &Node<S>, _: &ServiceName) -> Option<Result<Result<Self::Factory, ()>, String>> {
        None
    }
    fn max_nodes(f: &Self::Factory) -> usize {
        f.static_config().max_nodes()
    }
    fn count_nodes(f: &Self::Factory) -> Result<usize, String> {
        count(f)
    }
}

fn nodes_run<S: Service, P: Pat<S>>(c: &NodesCase, obs: &mut Obs) -> Result<(), Failure> {
    let domain = Domain::new();
    let r = nodes_run_in::<S, P>(c, obs, &domain);
    domain.cleanup();
    r
}

fn nodes_run_in<S: Service, P: Pat<S>>(c: &NodesCase, obs: &mut Obs, domain: &Domain) -> Result<(), Failure> {
    let new_node = || NodeBuilder::new().config(&domain.config).create::<S>().map_err(|e| setup_err("node", e));
    let name = ServiceName::new("limnodes").unwrap();
    let pat = P::NAME;
    let creator = new_node()?;
    let f0 = P::create(&creator, &name, c.max_nodes).map_err(|e| setup_err(&format!("{pat} service with max_nodes {}", c.max_nodes), e))?;
    let m = P::max_nodes(&f0);
    ensure!(m == c.max_nodes.max(1), "lim.nodes.clamp", "{pat}: max_nodes({}) reads back as {m}", c.max_nodes);
    // holders: (node, handle); slot 0 is the creator
    let mut holders: Vec<(Option<Node<S>>, Option<P::Factory>)> = vec![(Some(creator), Some(f0))];
    for k in 1..m {
        let n = new_node()?;
        match P::open(&n, &name) {
            Ok(Ok(f)) => holders.push((Some(n), Some(f))),
            Ok(Err(())) => fail!("lim.nodes.refused_inside_limit", "{pat}: node {} of {m} refused with ExceedsMaxNumberOfNodes", k + 1),
            Err(e) => fail!("lim.nodes.open", "{pat}: node {} of {m} could not open the service: {e}", k + 1),
        }
    }
    let probe = |holders: &Vec<(Option<Node<S>>, Option<P::Factory>)>, expect: usize, when: &str| -> Result<(), Failure> {
        let f = holders.iter().find_map(|h| h.1.as_ref()).unwrap();
        let n = P::count_nodes(f).map_err(|e| Failure::new("lim.nodes.list", format!("{pat}: {e}")))?;
        ensure!(n == expect, "lim.nodes.registry", "{pat}: the service lists {n} nodes {when}, {expect} hold it");
        Ok(())
    };
    probe(&holders, m, "when full")?;
    // one node too many
    let extra = new_node()?;
    let before = domain.leftovers();
    match P::open(&extra, &name) {
        Ok(Err(())) => {}
        Ok(Ok(_)) => fail!("lim.nodes.limit_not_enforced", "{pat}: node {} opened a service with max_nodes {m}", m + 1),
        Err(e) => fail!("lim.nodes.wrong_error", "{pat}: node {} of {m} refused with {e} instead of ExceedsMaxNumberOfNodes", m + 1),
    }
    if let Some(r) = P::open_or_create(&extra, &name) {
        match r {
            Ok(Err(())) => obs.class("lim_nodes_open_or_create_refused"),
            Ok(Ok(_)) => fail!("lim.nodes.limit_not_enforced", "{pat}: node {} got the service with max_nodes {m} through open_or_create", m + 1),
            Err(e) => fail!("lim.nodes.wrong_error", "{pat}: open_or_create of node {} of {m} failed with {e} instead of OpenError(ExceedsMaxNumberOfNodes)", m + 1),
        }
    }
    let after = domain.leftovers();
    ensure!(before == after, "lim.nodes.side_effect", "{pat}: the refused open changed the files of the domain: before {before:?} after {after:?}");
    probe(&holders, m, "after the refusal")?;
    // a member may open the service once more (it is not one node too many)
    {
        let member = holders[m - 1].0.as_ref().unwrap();
        match P::open(member, &name) {
            Ok(Ok(_again)) => {
                obs.class("lim_nodes_member_reopened_when_full");
                probe(&holders, m, "while a member holds it twice")?;
            }
            Ok(Err(())) => fail!("lim.nodes.member_refused", "{pat}: a node that holds the service was refused with ExceedsMaxNumberOfNodes when opening it a second time"),
            Err(e) => fail!("lim.nodes.open", "{pat}: second open by a member failed: {e}"),
        }
    }
    probe(&holders, m, "after the member dropped its second handle")?;
    // free one unit
    let d = c.drop_holder % holders.len();
    holders[d].1 = None;
    if c.drop_node_too {
        holders[d].0 = None;
    }
    let got = match P::open(&extra, &name) {
        // the only holder left: the service is gone with its last user (C06), nothing to exchange
        Err(e) if m == 1 && e.contains("DoesNotExist") => {
            obs.class("lim_nodes_single_holder_left_service_gone");
            obs.nontrivial = true;
            return Ok(());
        }
        Ok(Ok(_)) if m == 1 => fail!("lim.nodes.service_outlived_last_user", "{pat}: the only holder dropped its handle and the service can still be opened"),
        Ok(Ok(f)) => f,
        Ok(Err(())) => fail!("lim.nodes.not_lifted", "{pat}: holder {d} of {m} dropped its handle, the next node is still refused with ExceedsMaxNumberOfNodes"),
        Err(e) => fail!("lim.nodes.open", "{pat}: open after holder {d} dropped its handle failed: {e}"),
    };
    holders.push((None, Some(got)));
    probe(&holders, m, "after the exchange")?;
    // and full again
    let extra2 = new_node()?;
    match P::open(&extra2, &name) {
        Ok(Err(())) => {}
        Ok(Ok(_)) => fail!("lim.nodes.limit_not_enforced", "{pat}: after the exchange node {} opened a service with max_nodes {m}", m + 1),
        Err(e) => fail!("lim.nodes.wrong_error", "{pat}: after the exchange the extra node was refused with {e}"),
    }
    obs.class(match c.pattern {
        0 => "lim_nodes_publish_subscribe",
        1 => "lim_nodes_request_response",
        2 => "lim_nodes_event",
        _ => "lim_nodes_blackboard",
    });
    if d == 0 {
        obs.class("lim_nodes_creator_left");
    }
    obs.nontrivial = true;
    drop(holders);
    drop(extra);
    Ok(())
}

fn nodes_case(c: &NodesCase, obs: &mut Obs) -> Result<(), Failure> {
    use iceoryx2::service::{ipc, local};
    match (c.pattern, c.ipc) {
        (0, false) => nodes_run::<local::Service, PubSub>(c, obs),
        (0, true) => nodes_run::<ipc::Service, PubSub>(c, obs),
        (1, false) => nodes_run::<local::Service, ReqRes>(c, obs),
        (1, true) => nodes_run::<ipc::Service, ReqRes>(c, obs),
        (2, false) => nodes_run::<local::Service, Event>(c, obs),
        (2, true) => nodes_run::<ipc::Service, Event>(c, obs),
        (_, false) => nodes_run::<local::Service, Blackboard>(c, obs),
        (_, true) => nodes_run::<ipc::Service, Blackboard>(c, obs),
    }
}

pub fn c08_parts(ctx: &mut Ctx) {
    use iceoryx2::service::{ipc, local};
    let steps = ctx.scale(60, 120);
    ctx.proptest("lim.event.local", ctx.scale(3_000u64, 150_000), ev_strategy(steps), |c, obs| ev_run::<local::Service>(c, obs));
    ctx.proptest("lim.event.ipc", ctx.scale(1_500u64, 40_000), ev_strategy(steps), |c, obs| ev_run::<ipc::Service>(c, obs));
    ctx.proptest("lim.blackboard.local", ctx.scale(2_000u64, 100_000), bb_strategy(steps), |c, obs| bb_run::<local::Service>(c, obs));
    ctx.proptest("lim.blackboard.ipc", ctx.scale(1_000u64, 25_000), bb_strategy(steps), |c, obs| bb_run::<ipc::Service>(c, obs));
    let mut cases = vec![];
    for pattern in 0..4u8 {
        for ipc in [false, true] {
            for max_nodes in 0..=4usize {
                for drop_holder in 0..max_nodes.max(1) {
                    for drop_node_too in [false, true] {
                        cases.push(NodesCase { pattern, ipc, max_nodes, drop_holder, drop_node_too });
                    }
                }
            }
        }
    }
    ctx.enumerate(
        "lim.nodes",
        "pattern (publish-subscribe, request-response, event, blackboard) x service variant (local, ipc) x max_nodes 0..4 x which holder leaves x with or without its node",
        cases.into_iter(),
        nodes_case,
    );
}
