//! C08 limits outside publish-subscribe / request-response: event (max_notifiers, max_listeners,
//! event_id_max), blackboard (max_readers, single writer), max_nodes for every pattern.
use vcore::Ctx;

pub fn c08_parts(_ctx: &mut Ctx) {}
