//! Request-response model + interpreter (owned by the C11 builder). C02 and C08 call the two
//! entry points below so that the request/response payloads are covered by those properties too.
use vcore::Ctx;

/// C02 for request and response payloads (no reuse while referenced, no leak after).
pub fn c02_parts(_ctx: &mut Ctx) {}

/// C08 for request-response limits (active requests, response buffer, borrowed responses, loans).
pub fn c08_parts(_ctx: &mut Ctx) {}
