//! Model-only execution of histories (no real ports): used to enumerate op sequences without
//! inapplicable / duplicate steps, and by the state-dependent generators of C08 / C02.
//! Outcomes that the real system decides (which connection is served first) are resolved by taking
//! the first acceptable one - exact for one client and one server, which is what the enumeration
//! uses. Channel ids follow the FIFO the client keeps (`available_channel_ids`); this is only a
//! prediction for the enumeration, the interpreter always uses the observed ids.

use super::interp::Open;
use super::model::*;
use super::types::*;
use std::collections::VecDeque;
use vcore::util::idx;

#[derive(Clone, Debug)]
pub struct Sim {
    pub m: Model,
    pub open: Open,
    free: Vec<VecDeque<u64>>,
    next_id: Vec<u64>,
}

/// what an op resolves to in the current state (for de-duplication of selectors)
pub type Target = (u8, usize);

impl Sim {
    pub fn new(cfg: &Cfg, open: &Open) -> Sim {
        let c = |v: usize| v.max(1);
        let eff = Eff {
            max_clients: c(cfg.max_clients),
            max_servers: c(cfg.max_servers),
            a: c(cfg.max_active),
            b: c(cfg.buf),
            w: c(cfg.borrow),
            req_overflow: cfg.req_overflow,
            resp_overflow: cfg.resp_overflow,
            faf: cfg.faf,
            lr: c(cfg.loan_req),
            ls: c(cfg.loan_resp),
        };
        Sim { m: Model::new(eff), open: open.clone(), free: vec![], next_id: vec![] }
    }

    fn blocked(&self, hz: &Option<Hazard>) -> bool {
        hz.as_ref().map(|h| self.open.has(h.sig)).unwrap_or(false)
    }

    fn pick(l: &[usize], i: u16) -> Option<usize> {
        if l.is_empty() { None } else { Some(l[idx(i, l.len())]) }
    }

    /// the object an op would act on, `None` if there is none
    pub fn target(&self, op: &Op) -> Option<Target> {
        let m = &self.m;
        match op {
            Op::CreateClient => Some((0, 0)),
            Op::CreateServer => Some((1, 0)),
            Op::DropClient(i) => Self::pick(&m.live_clients(), *i).map(|x| (2, x)),
            Op::DropServer(i) => Self::pick(&m.live_servers(), *i).map(|x| (3, x)),
            Op::LoanRequest(i) => Self::pick(&m.live_clients(), *i).map(|x| (4, x)),
            Op::SendLoan(i) => Self::pick(&m.live_req_loans(), *i).map(|x| (5, x)),
            Op::DropLoan(i) => Self::pick(&m.live_req_loans(), *i).map(|x| (6, x)),
            Op::SendRequest(i) => Self::pick(&m.live_clients(), *i).map(|x| (7, x)),
            Op::ServerReceive(i) => Self::pick(&m.live_servers(), *i).map(|x| (8, x)),
            Op::SendResponse(i) => Self::pick(&m.live_ars(), *i).map(|x| (9, x)),
            Op::LoanResponse(i) => Self::pick(&m.live_ars(), *i).map(|x| (10, x)),
            Op::SendRespLoan(i) => Self::pick(&m.live_resp_loans(), *i).map(|x| (11, x)),
            Op::DropRespLoan(i) => Self::pick(&m.live_resp_loans(), *i).map(|x| (12, x)),
            Op::PrReceive(i) => Self::pick(&m.live_pendings(), *i).map(|x| (13, x)),
            Op::DropResponse(i) => Self::pick(&m.live_resps(), *i).map(|x| (14, x)),
            Op::DropPending(i) => Self::pick(&m.live_pendings(), *i).map(|x| (15, x)),
            Op::DropActive(i) => Self::pick(&m.live_ars(), *i).map(|x| (16, x)),
            Op::IsConnectedPr(i) => Self::pick(&m.live_pendings(), *i).map(|x| (17, x)),
            Op::IsConnectedAr(i) => Self::pick(&m.live_ars(), *i).map(|x| (18, x)),
            Op::HasResponse(i) => Self::pick(&m.live_pendings(), *i).map(|x| (19, x)),
            Op::HasRequests(i) => Self::pick(&m.live_servers(), *i).map(|x| (20, x)),
            Op::ProbeClient(i) => Self::pick(&m.live_clients(), *i).map(|x| (21, x)),
            Op::ProbeActive(i) => Self::pick(&m.live_ars(), *i).map(|x| (22, x)),
        }
    }

    fn take_channel(&mut self, c: Cid) -> (u64, u64) {
        let ch = self.free[c].pop_front().expect("channel ids never run out inside the limits");
        let id = self.next_id[c];
        self.next_id[c] += 1;
        (ch, id)
    }

    /// applies the op to the model; false = not applicable / left out
    pub fn step(&mut self, op: &Op) -> bool {
        let Some((_, x)) = self.target(op) else { return false };
        match op {
            Op::CreateClient => {
                let (t, hz) = self.m.create_client_expect();
                if t != Tri::No && self.blocked(&hz) {
                    return false;
                }
                if t == Tri::Yes {
                    self.m.create_client_apply();
                    self.free.push((0..self.m.cfg.client_pool() as u64).collect());
                    self.next_id.push(0);
                }
                true
            }
            Op::CreateServer => {
                if self.m.create_server_expect() == Tri::Yes {
                    self.m.create_server_apply();
                }
                true
            }
            Op::DropClient(_) => {
                self.m.drop_client_apply(x);
                true
            }
            Op::DropServer(_) => {
                self.m.drop_server_apply(x);
                true
            }
            Op::LoanRequest(_) => {
                let (e, hz) = self.m.loan_request_expect(x);
                if self.blocked(&hz) {
                    return false;
                }
                if e.is_none() {
                    let (ch, id) = self.take_channel(x);
                    let seq = self.m.next_seq(x);
                    self.m.loan_request_apply(x, seq, ch, id, 0);
                }
                true
            }
            Op::SendLoan(_) => {
                let l = self.m.req_loans[x].clone();
                self.m.req_loans[x].alive = false;
                if self.m.send_expect(l.client).is_none() {
                    let (rid, _, amb) = self.m.send_apply(l.client, l.seq, l.channel, l.request_id, None);
                    for s in amb {
                        self.m.resolve_delivery(rid, s, false);
                    }
                } else {
                    self.free[l.client].push_back(l.channel);
                    self.m.drop_req_loan_apply(x);
                }
                true
            }
            Op::DropLoan(_) => {
                let l = self.m.req_loans[x].clone();
                self.free[l.client].push_back(l.channel);
                self.m.drop_req_loan_apply(x);
                true
            }
            Op::SendRequest(_) => {
                let (e, hz) = self.m.loan_request_expect(x);
                if e.is_none() && self.blocked(&hz) {
                    return false;
                }
                let seq = self.m.next_seq(x);
                if e.is_none() && self.m.send_expect(x).is_none() {
                    let (ch, id) = self.take_channel(x);
                    let (rid, _, amb) = self.m.send_apply(x, seq, ch, id, None);
                    for s in amb {
                        self.m.resolve_delivery(rid, s, false);
                    }
                } else if e.is_none() {
                    // loan + failed send: the channel id goes to the back of the queue
                    let (ch, _) = self.take_channel(x);
                    self.free[x].push_back(ch);
                }
                true
            }
            Op::ServerReceive(_) => {
                let e = self.m.server_receive_expect(x);
                if self.blocked(&e.hazard) {
                    return false;
                }
                match e.candidates.first() {
                    Some((c, i, _)) => {
                        self.m.server_receive_some_apply(x, *c, *i);
                    }
                    None => self.m.server_receive_nothing_apply(x),
                }
                true
            }
            Op::SendResponse(_) => {
                let (e, hz) = self.m.loan_response_expect(x);
                if self.blocked(&hz) {
                    return false;
                }
                if e == Tri::No {
                    let (d, hz) = self.m.response_delivery(x);
                    if self.blocked(&hz) {
                        return false;
                    }
                    let k = self.m.next_k(x);
                    self.m.response_send_apply(x, k, None, &d);
                }
                true
            }
            Op::LoanResponse(_) => {
                let (e, hz) = self.m.loan_response_expect(x);
                if self.blocked(&hz) {
                    return false;
                }
                if e == Tri::No {
                    let k = self.m.next_k(x);
                    self.m.loan_response_apply(x, k, 0);
                }
                true
            }
            Op::SendRespLoan(_) => {
                let l = self.m.resp_loans[x].clone();
                let (d, hz) = self.m.response_delivery(l.ar);
                if self.blocked(&hz) {
                    return false;
                }
                self.m.resp_loans[x].alive = false;
                self.m.response_send_apply(l.ar, l.k, None, &d);
                self.m.drop_resp_loan_apply(x);
                true
            }
            Op::DropRespLoan(_) => {
                self.m.drop_resp_loan_apply(x);
                true
            }
            Op::PrReceive(_) => {
                let e = self.m.pr_receive_expect(x);
                if self.blocked(&e.hazard) {
                    return false;
                }
                match e.some.first() {
                    Some((s, k)) => {
                        self.m.pr_receive_some_apply(x, *s, *k);
                    }
                    None => self.m.pr_receive_nothing_apply(x),
                }
                true
            }
            Op::DropResponse(_) => {
                self.m.drop_response_apply(x);
                true
            }
            Op::DropPending(_) => {
                let (c, ch) = (self.m.reqs[x].client, self.m.reqs[x].channel);
                self.free[c].push_back(ch);
                self.m.drop_pending_apply(x);
                true
            }
            Op::DropActive(_) => {
                self.m.drop_active_apply(x);
                true
            }
            Op::HasResponse(_) => !self.blocked(&self.m.has_response_expect(x).1),
            Op::IsConnectedPr(_) => !self.blocked(&self.m.pr_is_connected_expect(x).1),
            Op::IsConnectedAr(_) | Op::HasRequests(_) | Op::ProbeClient(_) | Op::ProbeActive(_) => true,
        }
    }
}

/// Lazily yields all op sequences of exactly `len` ops over `alphabet` in which every op is
/// applicable when executed after `prologue`, and in which no two alphabet entries that resolve to
/// the same target are both tried in one state. Every shorter sequence is a prefix of one of them
/// (and is checked on the way, the interpreter compares after every op) - except sequences that end
/// in a state where nothing of the alphabet applies, which are yielded as they are.
pub struct SeqIter {
    alphabet: Vec<Op>,
    len: usize,
    stack: Vec<(Sim, usize, Vec<Target>, bool)>,
    cur: Vec<Op>,
}

pub fn enumerate_sequences(cfg: &Cfg, open: &Open, prologue: &[Op], alphabet: &[Op], len: usize) -> SeqIter {
    let mut s = Sim::new(cfg, open);
    for o in prologue {
        s.step(o);
    }
    SeqIter { alphabet: alphabet.to_vec(), len, stack: vec![(s, 0, vec![], false)], cur: vec![] }
}

impl Iterator for SeqIter {
    type Item = Vec<Op>;
    fn next(&mut self) -> Option<Vec<Op>> {
        loop {
            let depth = self.stack.len();
            if depth == 0 {
                return None;
            }
            if self.cur.len() == self.len {
                let out = self.cur.clone();
                self.stack.pop();
                self.cur.pop();
                return Some(out);
            }
            let (sim, next, tried, had_child) = self.stack.last_mut().unwrap();
            let mut advanced = false;
            while *next < self.alphabet.len() {
                let op = self.alphabet[*next].clone();
                *next += 1;
                let Some(t) = sim.target(&op) else { continue };
                if tried.contains(&t) {
                    continue;
                }
                tried.push(t);
                let mut child = sim.clone();
                if !child.step(&op) {
                    continue;
                }
                *had_child = true;
                self.cur.push(op);
                self.stack.push((child, 0, vec![], false));
                advanced = true;
                break;
            }
            if advanced {
                continue;
            }
            // alphabet exhausted in this state
            let (_, _, _, had_child) = self.stack.pop().unwrap();
            let out = if !had_child && !self.cur.is_empty() { Some(self.cur.clone()) } else { None };
            self.cur.pop();
            if let Some(o) = out {
                return Some(o);
            }
        }
    }
}
