//! State-dependent generators: the adversaries of C08 (saturate / churn), the conservation probe
//! of C02, and the fixed scenarios that keep the known findings visible.

use super::interp::{Interp, Open, Opts};
use super::model::*;
use super::types::*;
use super::{OpSource, RunOpts, Variant, run_case};
use iceoryx2::service::Service;
use serde::{Deserialize, Serialize};
use vcore::util::idx;
use vcore::{Failure, Obs};

#[derive(Clone, Copy, Debug, PartialEq, Eq, Serialize, Deserialize)]
pub enum Policy {
    /// raise every occupancy to its maximum, then poke every limit, free one unit, repeat
    Saturate,
    /// the same, but ports are dropped and re-created while saturated (objects of them still held)
    Churn,
}

#[derive(Clone, Copy, Debug, PartialEq, Eq)]
enum Phase {
    Raise,
    Poke,
    Free,
}

pub struct Adversary<'a> {
    policy: Policy,
    open: &'a Open,
    choices: &'a [u16],
    pos: usize,
    phase: Phase,
    pokes: Vec<Op>,
    raised_in_a_row: usize,
}

impl<'a> Adversary<'a> {
    pub fn new(policy: Policy, choices: &'a [u16], open: &'a Open) -> Self {
        Adversary { policy, open, choices, pos: 0, phase: Phase::Raise, pokes: vec![], raised_in_a_row: 0 }
    }
}

fn sel(k: usize, n: usize) -> u16 {
    u16_for(k, n)
}

/// ops that raise an occupancy and must succeed (those that an open finding would leave out are
/// not proposed)
fn raising(m: &Model, open: &Open) -> Vec<Op> {
    let blocked = |hz: &Option<Hazard>| hz.as_ref().map(|h| open.has(h.sig)).unwrap_or(false);
    let mut v = vec![];
    if m.alive_server_ports() < m.cfg.max_servers {
        v.push(Op::CreateServer);
    }
    if m.alive_client_ports() < m.cfg.max_clients && !blocked(&m.create_client_expect().1) {
        v.push(Op::CreateClient);
    }
    let lc = m.live_clients();
    for (k, c) in lc.iter().enumerate() {
        let (loans, active) = (m.loans_of_client(*c), m.active_of_client(*c));
        if blocked(&m.loan_request_expect(*c).1) {
            continue;
        }
        if loans < m.cfg.lr && active < m.cfg.a {
            v.push(Op::SendRequest(sel(k, lc.len())));
            v.push(Op::SendRequest(sel(k, lc.len())));
        }
        if loans < m.cfg.lr {
            v.push(Op::LoanRequest(sel(k, lc.len())));
        }
    }
    let ll = m.live_req_loans();
    for (k, l) in ll.iter().enumerate() {
        if m.active_of_client(m.req_loans[*l].client) < m.cfg.a {
            v.push(Op::SendLoan(sel(k, ll.len())));
        }
    }
    let ls = m.live_servers();
    for (k, s) in ls.iter().enumerate() {
        if !m.server_receive_expect(*s).candidates.is_empty() {
            v.push(Op::ServerReceive(sel(k, ls.len())));
            v.push(Op::ServerReceive(sel(k, ls.len())));
        }
    }
    let la = m.live_ars();
    for (k, a) in la.iter().enumerate() {
        let r = &m.reqs[m.ars[*a].req];
        let (must_fail, hz) = m.loan_response_expect(*a);
        if must_fail == Tri::No && !blocked(&hz) {
            v.push(Op::LoanResponse(sel(k, la.len())));
            if r.pending {
                let queued = m.conns.get(&(r.client, m.ars[*a].server)).and_then(|c| c.chans.get(&r.channel)).map(|q| q.len()).unwrap_or(0);
                if queued < m.cfg.b && !blocked(&m.response_delivery(*a).1) {
                    v.push(Op::SendResponse(sel(k, la.len())));
                    v.push(Op::SendResponse(sel(k, la.len())));
                }
            }
        }
    }
    let lp = m.live_pendings();
    for (k, r) in lp.iter().enumerate() {
        let e = m.pr_receive_expect(*r);
        if !e.some.is_empty() && !blocked(&e.hazard) {
            v.push(Op::PrReceive(sel(k, lp.len())));
            v.push(Op::PrReceive(sel(k, lp.len())));
        }
    }
    v
}

/// one-too-many of each kind that is at its maximum (each must fail with its documented error),
/// plus sends into full buffers
fn pokes(m: &Model) -> Vec<Op> {
    let mut v = vec![];
    if m.live_clients().len() >= m.cfg.max_clients {
        v.push(Op::CreateClient);
    }
    if m.live_servers().len() >= m.cfg.max_servers {
        v.push(Op::CreateServer);
    }
    let lc = m.live_clients();
    for (k, c) in lc.iter().enumerate() {
        if m.loans_of_client(*c) >= m.cfg.lr {
            v.push(Op::LoanRequest(sel(k, lc.len())));
            v.push(Op::SendRequest(sel(k, lc.len())));
        } else if m.active_of_client(*c) >= m.cfg.a {
            v.push(Op::SendRequest(sel(k, lc.len())));
        }
    }
    let ll = m.live_req_loans();
    for (k, l) in ll.iter().enumerate() {
        if m.active_of_client(m.req_loans[*l].client) >= m.cfg.a {
            v.push(Op::SendLoan(sel(k, ll.len())));
            break;
        }
    }
    let ls = m.live_servers();
    for (k, s) in ls.iter().enumerate() {
        let e = m.server_receive_expect(*s);
        if e.candidates.is_empty() {
            v.push(Op::ServerReceive(sel(k, ls.len())));
        }
    }
    let la = m.live_ars();
    for (k, a) in la.iter().enumerate() {
        if m.loans_of_ar(*a) >= m.cfg.ls {
            v.push(Op::LoanResponse(sel(k, la.len())));
        } else {
            v.push(Op::SendResponse(sel(k, la.len())));
        }
    }
    let lp = m.live_pendings();
    for (k, r) in lp.iter().enumerate() {
        let e = m.pr_receive_expect(*r);
        if e.some.is_empty() {
            v.push(Op::PrReceive(sel(k, lp.len())));
        }
        v.push(Op::IsConnectedPr(sel(k, lp.len())));
    }
    v
}

fn frees(m: &Model, policy: Policy) -> Vec<Op> {
    let mut v = vec![];
    let port_weight = if policy == Policy::Churn { 4 } else { 1 };
    for _ in 0..port_weight {
        if !m.live_clients().is_empty() {
            v.push(Op::DropClient(0));
            v.push(Op::DropClient(LAST));
        }
        if !m.live_servers().is_empty() {
            v.push(Op::DropServer(0));
            v.push(Op::DropServer(LAST));
        }
    }
    let obj_weight = if policy == Policy::Churn { 1 } else { 3 };
    for _ in 0..obj_weight {
        if !m.live_resps().is_empty() {
            v.extend([Op::DropResponse(0), Op::DropResponse(LAST)]);
        }
        if !m.live_pendings().is_empty() {
            v.extend([Op::DropPending(0), Op::DropPending(LAST)]);
        }
        if !m.live_ars().is_empty() {
            v.extend([Op::DropActive(0), Op::DropActive(LAST)]);
        }
        if !m.live_req_loans().is_empty() {
            v.push(Op::DropLoan(0));
        }
        if !m.live_resp_loans().is_empty() {
            v.extend([Op::DropRespLoan(0), Op::SendRespLoan(0)]);
        }
    }
    v
}

impl OpSource for Adversary<'_> {
    fn next(&mut self, m: &Model) -> Option<Op> {
        loop {
            if self.pos >= self.choices.len() {
                return None;
            }
            match self.phase {
                Phase::Raise => {
                    let r = raising(m, self.open);
                    // churn: now and then a port goes away in the middle of the build-up
                    if r.is_empty() || self.raised_in_a_row > 60 {
                        self.phase = Phase::Poke;
                        self.pokes = pokes(m);
                        self.raised_in_a_row = 0;
                        continue;
                    }
                    let ch = self.choices[self.pos];
                    self.pos += 1;
                    if self.policy == Policy::Churn && ch % 11 == 0 {
                        let f = frees(m, self.policy);
                        if !f.is_empty() {
                            return Some(f[idx(ch, f.len())].clone());
                        }
                    }
                    self.raised_in_a_row += 1;
                    return Some(r[idx(ch, r.len())].clone());
                }
                Phase::Poke => {
                    if let Some(op) = self.pokes.pop() {
                        self.pos += 1;
                        return Some(op);
                    }
                    self.phase = Phase::Free;
                }
                Phase::Free => {
                    let f = frees(m, self.policy);
                    self.phase = Phase::Raise;
                    if f.is_empty() {
                        self.pos += 1;
                        continue;
                    }
                    let ch = self.choices[self.pos];
                    self.pos += 1;
                    return Some(f[idx(ch, f.len())].clone());
                }
            }
        }
    }
}

// ------------------------------------------------------------------------------------------------
// C02 conservation probe
// ------------------------------------------------------------------------------------------------

/// After a history: drop every object (ports stay), then every surviving client must be able to loan
/// its full number of requests, and every surviving (client, server) pair must sustain `cycles`
/// request / response round trips (each: request, receive, loan responses to the limit, fill the
/// stream, borrow to the limit, drop everything) during which the interpreter's oracle applies - in
/// particular no loan may fail. Cycling through more round trips than the pools have chunks makes a
/// systematic leak of one chunk (or one borrow / channel id) per round trip visible.
pub fn final_probe<S: Service>(it: &mut Interp<S>, cycles: usize) -> Result<(), Failure> {
    while !it.m.live_resps().is_empty() {
        it.step(&Op::DropResponse(0))?;
    }
    while !it.m.live_resp_loans().is_empty() {
        it.step(&Op::DropRespLoan(0))?;
    }
    while !it.m.live_req_loans().is_empty() {
        it.step(&Op::DropLoan(0))?;
    }
    while !it.m.live_pendings().is_empty() {
        it.step(&Op::DropPending(0))?;
    }
    while !it.m.live_ars().is_empty() {
        it.step(&Op::DropActive(0))?;
    }
    let nc = it.m.live_clients().len();
    for k in 0..nc {
        it.step(&Op::ProbeClient(sel(k, nc)))?;
    }
    let ns = it.m.live_servers().len();
    if nc == 0 || ns == 0 {
        return Ok(());
    }
    let pool = it.m.cfg.client_pool().max(it.m.cfg.server_pool() / it.m.cfg.w.max(1)) + 2;
    let n = pool.min(cycles);
    for cyc in 0..n {
        let kc = cyc % nc;
        let ks = (cyc / nc) % ns;
        let s = it.m.live_servers()[ks];
        let before = it.m.reqs.len();
        it.step(&Op::SendRequest(sel(kc, nc)))?;
        if it.stopped || it.m.reqs.len() == before {
            break; // left out (open finding) or not possible
        }
        let rid = it.m.reqs.len() - 1;
        // receive until the request is in the hands of the server (older queued requests come first)
        let mut mine = None;
        for _ in 0..(it.m.cfg.a * it.m.cfg.max_clients + 2) {
            let nars = it.m.ars.len();
            it.step(&Op::ServerReceive(sel(ks, ns)))?;
            if it.m.ars.len() == nars {
                break;
            }
            let a = it.m.ars.len() - 1;
            if it.m.ars[a].req == rid {
                mine = Some(a);
                break;
            }
            let la = it.m.live_ars();
            let pos = la.iter().position(|x| *x == a).unwrap();
            it.step(&Op::DropActive(sel(pos, la.len())))?;
        }
        if let Some(a) = mine {
            debug_assert_eq!(it.m.ars[a].server, s);
            let la = it.m.live_ars();
            let pa = sel(la.iter().position(|x| *x == a).unwrap(), la.len());
            it.step(&Op::ProbeActive(pa))?;
            for _ in 0..it.m.cfg.b {
                it.step(&Op::SendResponse(pa))?;
            }
            let lp = it.m.live_pendings();
            let pp = sel(lp.iter().position(|x| *x == rid).unwrap(), lp.len());
            for _ in 0..it.m.cfg.w {
                it.step(&Op::PrReceive(pp))?;
            }
            it.step(&Op::SendResponse(pa))?;
            it.step(&Op::IsConnectedPr(pp))?;
            it.step(&Op::IsConnectedAr(pa))?;
        }
        while !it.m.live_resps().is_empty() {
            it.step(&Op::DropResponse(0))?;
        }
        while !it.m.live_pendings().is_empty() {
            it.step(&Op::DropPending(0))?;
        }
        while !it.m.live_ars().is_empty() {
            it.step(&Op::DropActive(0))?;
        }
        if it.stopped {
            break;
        }
    }
    let nc = it.m.live_clients().len();
    for k in 0..nc {
        it.step(&Op::ProbeClient(sel(k, nc)))?;
    }
    Ok(())
}

// ------------------------------------------------------------------------------------------------
// fixed scenarios of the known findings (minimal histories); `Some(message)` = the defect shows
// ------------------------------------------------------------------------------------------------

fn scenario(cfg: Cfg, ops: Vec<Op>, sig: &str, obs: &mut Obs) -> Option<String> {
    let case = Case { cfg, ops, teardown: Teardown::ObjectsFirst };
    let ro = RunOpts { opts: Opts { address_probe: true, canary: true, check_log: false, recheck_after_limit: false }, final_probe: false, probe_cycles: 0 };
    match run_case(Variant::Local, &case, &ro, &Open::none(), obs) {
        Ok(_) => None,
        Err(f) if f.signature == sig => Some(f.message),
        Err(f) => Some(format!("unexpected failure [{}] {}", f.signature, f.message)),
    }
}

/// responses of an earlier request stay in the recycled channel and use up the buffer of the next one
pub fn probe_recycled(obs: &mut Obs) -> Option<String> {
    let cfg = Cfg { max_clients: 1, max_servers: 1, max_active: 1, buf: 1, borrow: 1, req_overflow: true, resp_overflow: false, faf: false, loan_req: 1, loan_resp: 1 };
    // 3 channels: request 4 uses the channel of request 1 again
    let ops = vec![
        Op::CreateServer,
        Op::CreateClient,
        Op::SendRequest(0),
        Op::ServerReceive(0),
        Op::SendResponse(0),
        Op::DropPending(0),
        Op::DropActive(0),
        Op::SendRequest(0),
        Op::DropPending(0),
        Op::SendRequest(0),
        Op::DropPending(0),
        Op::SendRequest(0),
        Op::ServerReceive(0),
        Op::SendResponse(0),
        Op::PrReceive(0),
    ];
    scenario(cfg, ops, F_RECYCLED, obs)
}

/// an old active request answers into the connection of a new client that took over the slot
pub fn probe_cross(obs: &mut Obs) -> Option<String> {
    let cfg = Cfg { max_clients: 1, max_servers: 1, max_active: 2, buf: 2, borrow: 1, req_overflow: true, resp_overflow: true, faf: false, loan_req: 1, loan_resp: 1 };
    let ops = vec![
        Op::CreateServer,
        Op::CreateClient,
        Op::SendRequest(0),
        Op::ServerReceive(0),
        Op::DropPending(0),
        Op::DropClient(0),
        Op::CreateClient,
        Op::SendRequest(0),
        Op::SendResponse(0),
        Op::PrReceive(0),
    ];
    scenario(cfg, ops, F_CROSS, obs)
}

/// receive on one pending response drops the expired connection that holds responses for another
pub fn probe_expired(obs: &mut Obs) -> Option<String> {
    let cfg = Cfg { max_clients: 1, max_servers: 1, max_active: 2, buf: 2, borrow: 1, req_overflow: true, resp_overflow: true, faf: false, loan_req: 1, loan_resp: 1 };
    let ops = vec![
        Op::CreateServer,
        Op::CreateClient,
        Op::SendRequest(0),
        Op::SendRequest(0),
        Op::ServerReceive(0),
        Op::ServerReceive(0),
        Op::SendResponse(LAST),
        Op::DropActive(0),
        Op::DropActive(0),
        Op::DropServer(0),
        Op::PrReceive(0),
        Op::PrReceive(LAST),
    ];
    scenario(cfg, ops, F_EXPIRED, obs)
}

/// a request of a vanished client that `receive` throws away keeps counting as borrowed
pub fn probe_leaked_borrow(obs: &mut Obs) -> Option<String> {
    let cfg = Cfg { max_clients: 1, max_servers: 1, max_active: 2, buf: 1, borrow: 1, req_overflow: true, resp_overflow: true, faf: false, loan_req: 1, loan_resp: 1 };
    let ops = vec![
        Op::CreateServer,
        Op::CreateClient,
        Op::SendRequest(0),
        Op::ServerReceive(0),
        Op::DropPending(0),
        Op::SendRequest(0),
        Op::SendRequest(0),
        Op::DropPending(0),
        Op::DropPending(0),
        Op::DropClient(0),
        Op::ServerReceive(0),
    ];
    scenario(cfg, ops, F_LEAKED_BORROW, obs)
}

/// is_connected() of a request that was sent while no server existed, with an expired connection around
pub fn probe_connected_expired(obs: &mut Obs) -> Option<String> {
    let cfg = Cfg { max_clients: 1, max_servers: 1, max_active: 1, buf: 1, borrow: 1, req_overflow: true, resp_overflow: true, faf: false, loan_req: 1, loan_resp: 1 };
    let ops = vec![
        Op::CreateServer,
        Op::CreateClient,
        Op::SendRequest(0),
        Op::ServerReceive(0),
        Op::SendResponse(0),
        Op::PrReceive(0),
        Op::DropPending(0),
        Op::DropActive(0),
        Op::DropServer(0),
        Op::SendRequest(0),
        Op::IsConnectedPr(0),
    ];
    scenario(cfg, ops, F_CONNECTED_EXPIRED, obs)
}

/// a response loan refused by the server-wide cap uses up a loan slot of the active request for good
pub fn probe_loan_slot(obs: &mut Obs) -> Option<String> {
    let cfg = Cfg { max_clients: 1, max_servers: 1, max_active: 1, buf: 1, borrow: 1, req_overflow: true, resp_overflow: true, faf: false, loan_req: 1, loan_resp: 1 };
    let ops = vec![
        Op::CreateServer,
        Op::CreateClient,
        Op::SendRequest(0),
        Op::ServerReceive(0),
        Op::LoanResponse(0),
        Op::DropActive(0),
        Op::DropPending(0),
        Op::SendRequest(0),
        Op::ServerReceive(0),
        Op::LoanResponse(0),
        Op::DropRespLoan(0),
        Op::LoanResponse(0),
    ];
    scenario(cfg, ops, F_LOAN_SLOT, obs)
}

/// client pool exhausted inside the limits (non-overflowing request buffer)
pub fn probe_client_oom(obs: &mut Obs) -> Option<String> {
    let cfg = Cfg { max_clients: 1, max_servers: 1, max_active: 1, buf: 1, borrow: 1, req_overflow: false, resp_overflow: true, faf: false, loan_req: 1, loan_resp: 1 };
    let ops = vec![
        Op::CreateServer,
        Op::CreateClient,
        Op::SendRequest(0),
        Op::ServerReceive(0),
        Op::DropPending(0),
        Op::SendRequest(0),
        Op::DropPending(0),
        Op::SendRequest(0),
        Op::LoanRequest(0),
    ];
    scenario(cfg, ops, F_CLIENT_OOM, obs)
}

/// server pool exhausted inside the limits by responses left queued in the channels of dropped
/// pending responses
pub fn probe_server_oom(obs: &mut Obs) -> Option<String> {
    let cfg = Cfg { max_clients: 1, max_servers: 1, max_active: 1, buf: 3, borrow: 1, req_overflow: true, resp_overflow: false, faf: false, loan_req: 2, loan_resp: 1 };
    // 4 channels x 3 queued responses > 2 * (3 + 1 + 1) chunks
    let mut ops = vec![Op::CreateServer, Op::CreateClient];
    for _ in 0..4 {
        ops.extend([Op::SendRequest(0), Op::ServerReceive(0), Op::SendResponse(0), Op::SendResponse(0), Op::SendResponse(0), Op::DropPending(0), Op::DropActive(0)]);
    }
    scenario(cfg, ops, F_SERVER_OOM, obs)
}
